//! shared by the c31 / c32 bins (included with #[path]): configuration cases, their generators and
//! the evaluation of `load_configs_raw` / `load_configs` / `Emmyrc::pre_process_emmyrc` on them.
//!
//! A *case* is `{"files":[F…], "partials":[json…]}` with
//!   F = {"k":"json","v":<json>}            a file whose text is the serialisation of v (`.json`)
//!     | {"k":"text","t":"…","ext":"json"}  a file with arbitrary text (malformed JSON, Lua source, …)
//!     | {"k":"missing"}                    a path that does not exist
//!     | {"k":"binary"}                     a file that is not UTF-8
#![allow(dead_code)]
use emmylua_code_analysis::{Emmyrc, load_configs, load_configs_raw};
use serde_json::{Map, Value, json};
use std::path::{Path, PathBuf};
use vh_common::{Rng, guarded};

// ------------------------------------------------------------------------------------------------
// evaluation on the implementation

pub struct Scratch {
    pub dir: PathBuf,
    n: usize,
}

impl Scratch {
    pub fn new(tag: &str) -> Scratch {
        let dir = std::env::current_dir().unwrap().join(format!("cfg-{}-{}", tag, std::process::id()));
        let _ = std::fs::remove_dir_all(&dir);
        std::fs::create_dir_all(&dir).unwrap();
        Scratch { dir, n: 0 }
    }
    /// write the files of a case, return their paths in order
    pub fn materialise(&mut self, case: &Value) -> Vec<PathBuf> {
        self.n += 1;
        let sub = self.dir.join(format!("c{}", self.n % 64));
        let _ = std::fs::remove_dir_all(&sub);
        std::fs::create_dir_all(&sub).unwrap();
        let mut out = Vec::new();
        for (i, f) in case["files"].as_array().cloned().unwrap_or_default().iter().enumerate() {
            let kind = f["k"].as_str().unwrap_or("json");
            let ext = f["ext"].as_str().unwrap_or("json");
            let p = sub.join(format!("f{}.{}", i, ext));
            match kind {
                "json" => std::fs::write(&p, serde_json::to_string(&f["v"]).unwrap()).unwrap(),
                "text" => std::fs::write(&p, f["t"].as_str().unwrap_or("")).unwrap(),
                "binary" => std::fs::write(&p, [0x7bu8, 0xff, 0xfe, 0x22, 0x80, 0x7d]).unwrap(),
                _ => {}
            }
            out.push(p);
        }
        out
    }
}

impl Drop for Scratch {
    fn drop(&mut self) {
        let _ = std::fs::remove_dir_all(&self.dir);
    }
}

fn partials(case: &Value) -> Option<Vec<Value>> {
    case.get("partials").and_then(|p| p.as_array()).filter(|a| !a.is_empty()).cloned()
}

/// `load_configs_raw` on the case: Ok(nested json) or Err(panic message)
pub fn eval_raw(sc: &mut Scratch, case: &Value) -> Result<Value, String> {
    let files = sc.materialise(case);
    let ps = partials(case);
    guarded(move || load_configs_raw(files, ps))
}

/// `load_configs` on the case, the typed configuration as canonical JSON (maps sorted)
pub fn eval_typed(sc: &mut Scratch, case: &Value) -> Result<Value, String> {
    let files = sc.materialise(case);
    let ps = partials(case);
    guarded(move || serde_json::to_value(load_configs(files, ps)).unwrap_or(Value::Null))
}

pub fn default_typed() -> Value {
    serde_json::to_value(Emmyrc::default()).unwrap()
}

/// the environment every path case is evaluated in (set once, before any thread exists)
pub const HOME: &str = "/home/vh";
pub const ENV: &[(&str, Option<&str>)] = &[
    ("VH_A", Some("/env/a")),
    ("VH_B", Some("~")),
    ("VH_T", Some("{workspaceFolder}/t")),
    ("VH_D", Some("$VH_A")),
    ("VH_E", Some("")),
    ("VH_MISSING", None),
    ("é", None),
    ("中", None),
];

pub fn setup_env() {
    unsafe {
        std::env::set_var("HOME", HOME);
        for (k, v) in ENV {
            match v {
                Some(v) => std::env::set_var(k, v),
                None => std::env::remove_var(k),
            }
        }
    }
}

/// what `get_luarocks_deploy_dir` computes (pre_process.rs), recomputed here because it is private
pub fn luarocks_dir() -> String {
    std::process::Command::new("luarocks")
        .args(["config", "deploy_lua_dir"])
        .output()
        .ok()
        .and_then(|o| if o.status.success() { Some(String::from_utf8_lossy(&o.stdout).trim().to_string()) } else { None })
        .unwrap_or_default()
}

/// A path case: {"ws": "/w/s", "roots":[s…], "library":[s | {"path":s,"ignoreDir":[s…]}…], "ignore":[s…], "res":[s…]}
/// -> the five processed lists, or Err(panic)
pub fn eval_paths(case: &Value) -> Result<Value, String> {
    let strs = |v: &Value| -> Vec<String> {
        v.as_array().map(|a| a.iter().filter_map(|x| x.as_str().map(|s| s.to_string())).collect()).unwrap_or_default()
    };
    let mut rc = Emmyrc::default();
    rc.workspace.workspace_roots = strs(&case["roots"]);
    rc.workspace.ignore_dir = strs(&case["ignore"]);
    rc.resource.paths = strs(&case["res"]);
    let lib = case.get("library").cloned().unwrap_or(json!([]));
    rc.workspace.library = serde_json::from_value(lib).map_err(|e| format!("harness: bad library items {e}"))?;
    let pk = case.get("packages").cloned().unwrap_or(json!([]));
    rc.workspace.packages = serde_json::from_value(pk).map_err(|e| format!("harness: bad package items {e}"))?;
    let ws = PathBuf::from(case["ws"].as_str().unwrap_or("/w/s"));
    guarded(move || {
        rc.pre_process_emmyrc(Path::new(&ws));
        json!({
            "roots": rc.workspace.workspace_roots,
            "library": rc.workspace.library,
            "packages": rc.workspace.packages,
            "ignore": rc.workspace.ignore_dir,
            "res": rc.resource.paths,
        })
    })
}

pub fn classify_panic(msg: &str) -> &'static str {
    if msg.contains("cannot access key") || msg.contains("always an object") {
        "panic-key-is-value-and-prefix"
    } else if msg.contains("out of bounds") || msg.contains("char boundary") || msg.contains("byte index") {
        "panic-path-slice"
    } else {
        "panic-other"
    }
}

// ------------------------------------------------------------------------------------------------
// settings: the meaning a configuration file is supposed to have

/// one setting: dotted path as segments, and a leaf value (never an object)
#[derive(Clone, Debug)]
pub struct Setting {
    pub path: Vec<String>,
    pub val: Value,
}

/// (path, kind) universe; kind: b bool, s string from a list, n number, a array of strings, p array of paths
/// The universe is prefix-free, so no setting is both a value and a prefix of another one.
pub const UNIVERSE: &[(&str, char)] = &[
    ("diagnostics.enable", 'b'),
    ("diagnostics.globals", 'a'),
    ("diagnostics.globalsRegex", 'a'),
    ("diagnostics.diagnosticInterval", 'n'),
    ("completion.enable", 'b'),
    ("completion.autoRequire", 'b'),
    ("completion.callSnippet", 'b'),
    ("completion.postfix", 's'),
    ("hint.enable", 'b'),
    ("hint.paramHint", 'b'),
    ("runtime.requireLikeFunction", 'a'),
    ("runtime.extensions", 'a'),
    ("runtime.requirePattern", 'a'),
    ("workspace.ignoreDir", 'a'),
    ("workspace.workspaceRoots", 'a'),
    ("workspace.ignoreGlobs", 'a'),
    ("workspace.encoding", 's'),
    ("workspace.reindexDuration", 'n'),
    ("resource.paths", 'a'),
    ("strict.requirePath", 'b'),
    ("strict.typeCall", 'b'),
    ("signature.detailSignatureHelper", 'b'),
    ("codeLens.enable", 'b'),
    ("x.y.z", 'n'),
    ("x.y.w", 'a'),
    ("x.q", 's'),
    ("p", 'b'),
    ("Lua.runtime.version", 's'),
    ("Lua.diagnostics.globals", 'a'),
];

const WORDS: &[&str] = &["a", "b", "c", "vim", "jit", "é", "x y", "", "a.b", "~", "lib"];

pub fn gen_leaf(rng: &mut Rng, kind: char) -> Value {
    match kind {
        'b' => json!(rng.chance(1, 2)),
        'n' => json!(rng.below(5) as i64 * 100),
        's' => json!(*rng.pick(&["@", ".", "utf-8", "gbk", "Lua 5.4", "x"])),
        _ => {
            // array of distinct strings
            let n = rng.below(4);
            let mut v: Vec<&str> = Vec::new();
            for _ in 0..n {
                let w = *rng.pick(WORDS);
                if !v.contains(&w) {
                    v.push(w);
                }
            }
            json!(v)
        }
    }
}

/// a file's settings: a random subset of the universe with typed values
pub fn gen_settings(rng: &mut Rng, max: usize) -> Vec<Setting> {
    let n = 1 + rng.below(max);
    let mut out: Vec<Setting> = Vec::new();
    for _ in 0..n {
        let (p, k) = *rng.pick(UNIVERSE);
        if out.iter().any(|s| s.path.join(".") == p) {
            continue;
        }
        out.push(Setting { path: p.split('.').map(|s| s.to_string()).collect(), val: gen_leaf(rng, k) });
    }
    out
}

/// spelling: 0 all nested, 1 all flat, 2 random chunking per setting
pub fn render(rng: &mut Rng, settings: &[Setting], spelling: usize) -> Value {
    let mut root = Map::new();
    for s in settings {
        let mut chunks: Vec<String> = Vec::new();
        let mut cur = String::new();
        for (i, seg) in s.path.iter().enumerate() {
            if i > 0 {
                let join = match spelling {
                    0 => false,
                    1 => true,
                    _ => rng.chance(1, 2),
                };
                if join {
                    cur.push('.');
                } else {
                    chunks.push(std::mem::take(&mut cur));
                }
            }
            cur.push_str(seg);
        }
        chunks.push(cur);
        insert_chunks(&mut root, &chunks, s.val.clone());
    }
    Value::Object(root)
}

fn insert_chunks(m: &mut Map<String, Value>, chunks: &[String], v: Value) {
    if chunks.len() == 1 {
        m.insert(chunks[0].clone(), v);
        return;
    }
    let slot = m.entry(chunks[0].clone()).or_insert_with(|| Value::Object(Map::new()));
    if !slot.is_object() {
        *slot = Value::Object(Map::new());
    }
    if let Value::Object(next) = slot {
        insert_chunks(next, &chunks[1..], v);
    }
}

/// nested object denoted by a (prefix-free, duplicate-free) list of settings
pub fn nested_of(settings: &[Setting]) -> Value {
    let mut root = Map::new();
    for s in settings {
        insert_chunks(&mut root, &s.path, s.val.clone());
    }
    Value::Object(root)
}

pub fn lookup<'a>(v: &'a Value, path: &[String]) -> Option<&'a Value> {
    let mut cur = v;
    for seg in path {
        cur = cur.as_object()?.get(seg)?;
    }
    Some(cur)
}

/// the property's reading of a sequence of files: later scalar wins, arrays appended without duplicates
pub fn expected_merge(files: &[Vec<Setting>]) -> Vec<Setting> {
    let mut out: Vec<Setting> = Vec::new();
    for f in files {
        for s in f {
            match out.iter_mut().find(|o| o.path == s.path) {
                None => out.push(s.clone()),
                Some(o) => match (&mut o.val, &s.val) {
                    (Value::Array(base), Value::Array(over)) => {
                        for x in over {
                            if !base.contains(x) {
                                base.push(x.clone());
                            }
                        }
                    }
                    (slot, v) => *slot = v.clone(),
                },
            }
        }
    }
    out
}

// ------------------------------------------------------------------------------------------------
// arbitrary / hostile JSON (C31): keys that are both a value and a prefix, empty segments, wrong types

const JUNK_KEYS: &[&str] = &[
    "a", "a.b", "a.b.c", "b", "b.a", "", ".", "a.", ".a", "a..b", "diagnostics", "diagnostics.enable", "diagnostics.globals",
    "workspace", "workspace.library", "workspace.library.path", "runtime.version", "runtime", "é", "é.ü", "$schema", "x.y", "x",
    "completion.enable.deep", "completion", "completion.enable",
];

pub fn gen_junk_value(rng: &mut Rng, depth: usize) -> Value {
    match rng.below(if depth == 0 { 7 } else { 10 }) {
        0 => Value::Null,
        1 => json!(rng.chance(1, 2)),
        2 => json!(rng.below(4) as i64),
        3 => json!(*rng.pick(WORDS)),
        4 => json!([]),
        5 => {
            let n = rng.below(4);
            Value::Array((0..n).map(|_| gen_junk_value(rng, 0)).collect())
        }
        6 => json!(-1),
        7 => json!({}),
        _ => gen_junk_object(rng, depth - 1),
    }
}

pub fn gen_junk_object(rng: &mut Rng, depth: usize) -> Value {
    let n = rng.below(5);
    let mut m = Map::new();
    for _ in 0..n {
        let k = *rng.pick(JUNK_KEYS);
        m.insert(k.to_string(), gen_junk_value(rng, depth));
    }
    Value::Object(m)
}

pub const BAD_TEXTS: &[(&str, &str)] = &[
    ("{", "json"),
    ("", "json"),
    ("{\"a\":}", "json"),
    ("[1,2", "json"),
    ("nul", "json"),
    ("{\"a\":1}}", "json"),
    ("return 5", "lua"),
    ("return {", "lua"),
    ("error('boom')", "lua"),
    ("local t = nil; return t.x", "lua"),
    ("return function() end", "lua"),
];

pub const GOOD_LUA: &[&str] = &[
    "return { diagnostics = { enable = false } }",
    "return { ['diagnostics.enable'] = false, a = 1, ['a.b'] = 2 }",
    "return { workspace = { library = { '~' , './x' } } }",
    "return {}",
];

pub fn gen_bad_file(rng: &mut Rng) -> Value {
    match rng.below(4) {
        0 => json!({"k": "missing"}),
        1 => json!({"k": "binary"}),
        _ => {
            let (t, ext) = *rng.pick(BAD_TEXTS);
            json!({"k": "text", "t": t, "ext": ext})
        }
    }
}

pub fn json_file(v: Value) -> Value {
    json!({"k": "json", "v": v})
}

// ------------------------------------------------------------------------------------------------
// path strings

const PATH_PIECES: &[&str] = &[
    "~", "~", "~/", "~\\", "~x", "~é", "./", "../", "/", "/abs/p", "$VH_A", "${VH_A}", "$VH_MISSING", "$VH_B", "$VH_T", "$VH_D", "$VH_E", "$", "$$",
    "{workspaceFolder}", "${workspaceFolder}", "{env:VH_A}", "{env:VH_MISSING}", "{env:VH_B}", "{luarocks}", "{", "}", "{}", "{x}", "{{}", "é", "中", "😀",
    "a", "lib", " ", "\\", ".", "$é", "_",
];

pub fn gen_path(rng: &mut Rng) -> String {
    let n = match rng.below(10) {
        0 => 0,
        1..=4 => 1,
        5..=7 => 2,
        _ => 2 + rng.below(3),
    };
    let mut s = String::new();
    for _ in 0..n {
        let piece: &str = *rng.pick(PATH_PIECES);
        s.push_str(piece);
    }
    s
}

pub fn gen_path_case(rng: &mut Rng) -> Value {
    let list = |rng: &mut Rng, max: usize| -> Vec<String> { (0..rng.below(max + 1)).map(|_| gen_path(rng)).collect() };
    let roots = list(rng, 3);
    let ignore = list(rng, 2);
    let res = list(rng, 2);
    let items = |rng: &mut Rng| -> Vec<Value> {
        (0..rng.below(3))
            .map(|_| {
                if rng.chance(1, 2) {
                    json!(gen_path(rng))
                } else {
                    json!({"path": gen_path(rng), "ignoreDir": list(rng, 2), "ignoreGlobs": ["**/*.spec.lua"]})
                }
            })
            .collect()
    };
    let library = items(rng);
    let packages = items(rng);
    let ws = *rng.pick(&["/w/s", "/w/s/", "/", "/wé"]);
    json!({"ws": ws, "roots": roots, "library": library, "packages": packages, "ignore": ignore, "res": res})
}

pub const FIXED_PATHS: &[&str] = &[
    "~", "~é", "~/", "~/x", "~x", "~\\x", "", "./", "./a", ".", "/", "/abs", "a", "$VH_A/b", "${VH_A}", "$VH_MISSING", "$", "{workspaceFolder}/l",
    "${workspaceFolder}", "{env:VH_B}", "$VH_B", "{luarocks}", "{}", "{", "{x", "{x}", "$VH_T", "$VH_D", "~😀", "中/~",
];

pub fn single_path_case(p: &str) -> Value {
    json!({"ws": "/w/s", "roots": [p], "library": [p, {"path": p, "ignoreDir": [p, "./t"]}], "packages": [], "ignore": [], "res": [p]})
}

// ------------------------------------------------------------------------------------------------
pub fn hash_of(v: &Value) -> u64 {
    use std::hash::{Hash, Hasher};
    let mut h = std::collections::hash_map::DefaultHasher::new();
    v.to_string().hash(&mut h);
    h.finish()
}

pub fn has_dotted_key(v: &Value) -> bool {
    match v {
        Value::Object(m) => m.iter().any(|(k, x)| k.contains('.') || has_dotted_key(x)),
        _ => false,
    }
}
