// shared helpers for vh_analysis bins
