//! Shared by the C13 / C14 harnesses: the mini-Lua AST of coq/theories/C13/Syntax.v, its printer (same layout as the
//! Gallina printer: one line, single blanks), a seeded generator, the REFERENCE resolver (A) (environment passing,
//! Lua manual section 3.5), Coq term / JSON encoders and the observer of the implementation's declaration tree and
//! reference index.
use emmylua_code_analysis::{
    FileId, LuaDeclarationTree, LuaScope, LuaScopeKind, LuaSemanticDeclId, ScopeOrDeclId, SemanticDeclLevel, VirtualWorkspace,
};
use emmylua_parser::{LuaAstNode, LuaSyntaxKind, LuaTokenKind};
use rowan::NodeOrToken;
use serde_json::{Value, json};
use vh_common::Rng;

#[derive(Clone, Debug, PartialEq)]
pub enum Expr {
    Num(u32),
    Name(u32),
    Idx(Box<Expr>, u32),
    Call(Box<Expr>, Vec<Expr>),
    Bin(Box<Expr>, Box<Expr>),
    Fun(Vec<u32>, Block),
    Str(u32),
    Table(Vec<Expr>),
    Meth(Box<Expr>, u32, Vec<Expr>),
}

#[derive(Clone, Debug, PartialEq)]
pub struct FuncName {
    pub root: u32,
    pub fields: Vec<u32>,
    pub meth: Option<u32>,
}

#[derive(Clone, Debug, PartialEq)]
pub enum Stat {
    Local(Vec<u32>, Vec<Expr>),
    Assign(Vec<Expr>, Vec<Expr>),
    Call(Expr, Vec<Expr>),
    LocalFun(u32, Vec<u32>, Block),
    Fun(FuncName, Vec<u32>, Block),
    Do(Block),
    While(Expr, Block),
    Repeat(Block, Expr),
    If(Expr, Block, Elifs),
    For(u32, Vec<Expr>, Block),
    ForIn(Vec<u32>, Vec<Expr>, Block),
    Label(u32),
    Goto(u32),
    LocalAttr(u32, bool, Vec<Expr>),
}

#[derive(Clone, Debug, PartialEq)]
pub enum Elifs {
    End,
    Else(Block),
    ElseIf(Expr, Block, Box<Elifs>),
}

#[derive(Clone, Debug, PartialEq, Default)]
pub struct Block {
    pub stats: Vec<Stat>,
    pub ret: Option<Vec<Expr>>,
}

pub fn name_text(n: u32) -> String {
    match n {
        0 => "a".into(),
        1 => "b".into(),
        2 => "c".into(),
        3 => "f".into(),
        4 => "self".into(),
        5 => "i".into(),
        6 => "xs".into(),
        _ => format!("v{}", n),
    }
}

pub const SELF: u32 = 4;

/// resolution result: Some(position of the declaration token) or None (global)
pub type Res = Option<u32>;

/// Printer + reference resolver in one pass (the resolver needs the token positions the printer fixes).
pub struct Printer {
    pub out: String,
    /// (position of a name USE, name, resolution by the reference resolver (A))
    pub uses: Vec<(u32, u32, Res)>,
    /// declaration tokens; the implicit `self` of a method is at the colon
    pub decls: Vec<DeclInfo>,
    /// (group of the loop, start, end, closure depth) of every `for` header expression list
    pub headers: Vec<(u32, u32, u32, u32)>,
    /// (start, end) of the `until` condition of every repeat whose body is empty
    pub empty_untils: Vec<(u32, u32)>,
    /// (start of an index-expression assignment target, position of the plain-name value assigned to it)
    pub alias_targets: Vec<(u32, u32)>,
    /// closure nesting depth of every use, parallel to `uses`
    pub use_depth: Vec<u32>,
    /// ordinal (among all name tokens: declarations and uses, in source order) of every use, parallel to `uses`
    pub use_ord: Vec<usize>,
    env: Vec<(u32, u32)>,
    depth: u32,
    group: u32,
    ntok: usize,
}

#[derive(Clone, Copy, Debug, PartialEq)]
pub enum DeclKind {
    Local,
    LocalFun,
    Param,
    SelfParam,
    ForNum,
    ForIn,
}

#[derive(Clone, Debug)]
pub struct DeclInfo {
    pub pos: u32,
    pub name: u32,
    pub kind: DeclKind,
    /// declarations of one statement / one parameter list share a group
    pub group: u32,
    /// ordinal among all name tokens (usize::MAX for the implicit self, which has no token)
    pub ord: usize,
}

impl Printer {
    pub fn new() -> Self {
        Printer {
            out: String::new(),
            uses: Vec::new(),
            decls: Vec::new(),
            headers: Vec::new(),
            empty_untils: Vec::new(),
            alias_targets: Vec::new(),
            use_depth: Vec::new(),
            use_ord: Vec::new(),
            env: Vec::new(),
            depth: 0,
            group: 0,
            ntok: 0,
        }
    }
    fn pos(&self) -> u32 {
        self.out.len() as u32
    }
    fn s(&mut self, t: &str) {
        self.out.push_str(t);
    }
    fn lookup(&self, n: u32) -> Res {
        self.env.iter().rev().find(|(m, _)| *m == n).map(|(_, p)| *p)
    }
    fn use_name(&mut self, n: u32) {
        let p = self.pos();
        let r = self.lookup(n);
        self.uses.push((p, n, r));
        self.use_depth.push(self.depth);
        self.use_ord.push(self.ntok);
        self.ntok += 1;
        self.s(&name_text(n));
    }
    /// prints a declaration token; returns its position (the caller decides when it becomes visible)
    fn decl_name(&mut self, n: u32, kind: DeclKind) -> u32 {
        let p = self.pos();
        self.decls.push(DeclInfo { pos: p, name: n, kind, group: self.group, ord: self.ntok });
        self.ntok += 1;
        self.s(&name_text(n));
        p
    }
    fn names(&mut self, ns: &[u32], kind: DeclKind) -> Vec<(u32, u32)> {
        self.group += 1;
        let mut v = Vec::new();
        for (i, n) in ns.iter().enumerate() {
            if i > 0 {
                self.s(", ");
            }
            let p = self.decl_name(*n, kind);
            v.push((*n, p));
        }
        v
    }
    fn exprs(&mut self, es: &[Expr]) {
        for (i, e) in es.iter().enumerate() {
            if i > 0 {
                self.s(", ");
            }
            self.expr(e);
        }
    }
    fn callee(&mut self, e: &Expr) {
        match e {
            Expr::Name(_) | Expr::Idx(..) | Expr::Call(..) | Expr::Meth(..) => self.expr(e),
            _ => {
                self.s("(");
                self.expr(e);
                self.s(")");
            }
        }
    }
    pub fn expr(&mut self, e: &Expr) {
        match e {
            Expr::Num(n) => self.s(&n.to_string()),
            Expr::Name(n) => self.use_name(*n),
            Expr::Idx(e, f) => {
                self.callee(e);
                self.s(".");
                self.s(&name_text(*f));
            }
            Expr::Call(f, args) => {
                self.callee(f);
                self.s("(");
                self.exprs(args);
                self.s(")");
            }
            Expr::Bin(a, b) => {
                self.expr(a);
                self.s(" + ");
                self.expr(b);
            }
            Expr::Fun(ps, b) => {
                self.s("function");
                self.closure(None, ps, b);
            }
            Expr::Str(n) => self.s(&format!("\"s{}\"", n)),
            Expr::Table(es) => {
                self.s("{");
                self.exprs(es);
                self.s("}");
            }
            Expr::Meth(e, m, args) => {
                self.callee(e);
                self.s(":");
                self.s(&name_text(*m));
                self.s("(");
                self.exprs(args);
                self.s(")");
            }
        }
    }
    /// `(params) body end` with the parameters (and the implicit self) in a fresh scope
    fn closure(&mut self, implicit_self: Option<u32>, ps: &[u32], b: &Block) {
        let mark = self.env.len();
        if let Some(p) = implicit_self {
            self.env.push((SELF, p));
        }
        self.s("(");
        let ds = self.names(ps, DeclKind::Param);
        self.env.extend(ds);
        self.s(")");
        self.depth += 1;
        self.body(b);
        self.depth -= 1;
        self.s("end");
        self.env.truncate(mark);
    }
    /// ` stat stat ` in a fresh scope
    fn body(&mut self, b: &Block) {
        let mark = self.env.len();
        self.s(" ");
        self.block_items(b);
        self.env.truncate(mark);
    }
    fn block_items(&mut self, b: &Block) {
        for st in &b.stats {
            self.stat(st);
            self.s(" ");
        }
        if let Some(es) = &b.ret {
            self.s("return");
            if !es.is_empty() {
                self.s(" ");
                self.exprs(es);
            }
            self.s(" ");
        }
    }
    pub fn stat(&mut self, st: &Stat) {
        match st {
            Stat::Local(ns, es) => {
                self.s("local ");
                let ds = self.names(ns, DeclKind::Local);
                if !es.is_empty() {
                    self.s(" = ");
                    self.exprs(es);
                }
                self.env.extend(ds);
            }
            Stat::Assign(vs, es) => {
                let mut vpos = Vec::new();
                for (i, v) in vs.iter().enumerate() {
                    if i > 0 {
                        self.s(", ");
                    }
                    vpos.push(self.pos());
                    self.expr(v);
                }
                self.s(" = ");
                for (i, e) in es.iter().enumerate() {
                    if i > 0 {
                        self.s(", ");
                    }
                    if let (Some(Expr::Idx(..)), Expr::Name(_)) = (vs.get(i), e) {
                        self.alias_targets.push((vpos[i], self.pos()));
                    }
                    self.expr(e);
                }
            }
            Stat::Call(f, args) => {
                self.callee(f);
                self.s("(");
                self.exprs(args);
                self.s(")");
            }
            Stat::LocalFun(f, ps, b) => {
                self.s("local function ");
                self.group += 1;
                let p = self.decl_name(*f, DeclKind::LocalFun);
                self.env.push((*f, p));
                self.closure(None, ps, b);
            }
            Stat::Fun(fname, ps, b) => {
                self.s("function ");
                self.use_name(fname.root);
                for f in &fname.fields {
                    self.s(".");
                    self.s(&name_text(*f));
                }
                let mut implicit = None;
                if let Some(m) = fname.meth {
                    implicit = Some(self.pos());
                    self.group += 1;
                    self.decls.push(DeclInfo { pos: self.pos(), name: SELF, kind: DeclKind::SelfParam, group: self.group, ord: usize::MAX });
                    self.s(":");
                    self.s(&name_text(m));
                }
                self.closure(implicit, ps, b);
            }
            Stat::Do(b) => {
                self.s("do");
                self.body(b);
                self.s("end");
            }
            Stat::While(c, b) => {
                self.s("while ");
                self.expr(c);
                self.s(" do");
                self.body(b);
                self.s("end");
            }
            Stat::Repeat(b, c) => {
                self.s("repeat");
                let mark = self.env.len();
                self.s(" ");
                self.block_items(b);
                self.s("until ");
                let us = self.pos();
                self.expr(c);
                if b.stats.is_empty() && b.ret.is_none() {
                    self.empty_untils.push((us, self.pos()));
                }
                self.env.truncate(mark);
            }
            Stat::If(c, b, els) => {
                self.s("if ");
                self.expr(c);
                self.s(" then");
                self.body(b);
                let mut cur = els;
                loop {
                    match cur {
                        Elifs::End => {
                            self.s("end");
                            break;
                        }
                        Elifs::Else(b) => {
                            self.s("else");
                            self.body(b);
                            self.s("end");
                            break;
                        }
                        Elifs::ElseIf(c, b, rest) => {
                            self.s("elseif ");
                            self.expr(c);
                            self.s(" then");
                            self.body(b);
                            cur = rest;
                        }
                    }
                }
            }
            Stat::For(x, es, b) => {
                self.s("for ");
                self.group += 1;
                let g = self.group;
                let p = self.decl_name(*x, DeclKind::ForNum);
                self.s(" = ");
                let hs = self.pos();
                self.exprs(es);
                self.headers.push((g, hs, self.pos(), self.depth));
                self.s(" do");
                let mark = self.env.len();
                self.env.push((*x, p));
                self.body(b);
                self.env.truncate(mark);
                self.s("end");
            }
            Stat::Label(l) => {
                self.s("::");
                self.s(&name_text(*l));
                self.s("::");
            }
            Stat::Goto(l) => {
                self.s("goto ");
                self.s(&name_text(*l));
            }
            Stat::LocalAttr(x, cl, es) => {
                self.s("local ");
                let ds = self.names(&[*x], DeclKind::Local);
                self.s(if *cl { " <close>" } else { " <const>" });
                if !es.is_empty() {
                    self.s(" = ");
                    self.exprs(es);
                }
                self.env.extend(ds);
            }
            Stat::ForIn(ns, es, b) => {
                self.s("for ");
                let ds = self.names(ns, DeclKind::ForIn);
                let g = self.group;
                self.s(" in ");
                let hs = self.pos();
                self.exprs(es);
                self.headers.push((g, hs, self.pos(), self.depth));
                self.s(" do");
                let mark = self.env.len();
                self.env.extend(ds);
                self.body(b);
                self.env.truncate(mark);
                self.s("end");
            }
        }
    }
    pub fn program(b: &Block) -> Printer {
        let mut p = Printer::new();
        p.block_items(b);
        p
    }
}

// ------------------------------------------------------------------------------------------------ renaming by token ordinal

/// applies `f` to every name token (declaration or use; not fields / method names) in the printer's order
pub fn map_names_expr(e: &Expr, f: &mut dyn FnMut(u32) -> u32) -> Expr {
    match e {
        Expr::Num(n) => Expr::Num(*n),
        Expr::Name(n) => Expr::Name(f(*n)),
        Expr::Idx(a, fld) => Expr::Idx(Box::new(map_names_expr(a, f)), *fld),
        Expr::Call(c, args) => {
            let c2 = map_names_expr(c, f);
            Expr::Call(Box::new(c2), args.iter().map(|a| map_names_expr(a, f)).collect())
        }
        Expr::Bin(a, b) => {
            let a2 = map_names_expr(a, f);
            Expr::Bin(Box::new(a2), Box::new(map_names_expr(b, f)))
        }
        Expr::Fun(ps, b) => {
            let ps2: Vec<u32> = ps.iter().map(|p| f(*p)).collect();
            Expr::Fun(ps2, map_names_block(b, f))
        }
        Expr::Str(n) => Expr::Str(*n),
        Expr::Table(es) => Expr::Table(es.iter().map(|a| map_names_expr(a, f)).collect()),
        Expr::Meth(a, m, args) => {
            let a2 = map_names_expr(a, f);
            Expr::Meth(Box::new(a2), *m, args.iter().map(|x| map_names_expr(x, f)).collect())
        }
    }
}
fn map_names_exprs(es: &[Expr], f: &mut dyn FnMut(u32) -> u32) -> Vec<Expr> {
    es.iter().map(|e| map_names_expr(e, f)).collect()
}
pub fn map_names_stat(s: &Stat, f: &mut dyn FnMut(u32) -> u32) -> Stat {
    match s {
        Stat::Local(ns, es) => {
            let ns2: Vec<u32> = ns.iter().map(|n| f(*n)).collect();
            Stat::Local(ns2, map_names_exprs(es, f))
        }
        Stat::Assign(vs, es) => {
            let vs2 = map_names_exprs(vs, f);
            Stat::Assign(vs2, map_names_exprs(es, f))
        }
        Stat::Call(c, args) => {
            let c2 = map_names_expr(c, f);
            Stat::Call(c2, map_names_exprs(args, f))
        }
        Stat::LocalFun(n, ps, b) => {
            let n2 = f(*n);
            let ps2: Vec<u32> = ps.iter().map(|p| f(*p)).collect();
            Stat::LocalFun(n2, ps2, map_names_block(b, f))
        }
        Stat::Fun(fname, ps, b) => {
            let root = f(fname.root);
            let ps2: Vec<u32> = ps.iter().map(|p| f(*p)).collect();
            Stat::Fun(FuncName { root, fields: fname.fields.clone(), meth: fname.meth }, ps2, map_names_block(b, f))
        }
        Stat::Do(b) => Stat::Do(map_names_block(b, f)),
        Stat::While(c, b) => {
            let c2 = map_names_expr(c, f);
            Stat::While(c2, map_names_block(b, f))
        }
        Stat::Repeat(b, c) => {
            let b2 = map_names_block(b, f);
            Stat::Repeat(b2, map_names_expr(c, f))
        }
        Stat::If(c, b, els) => {
            let c2 = map_names_expr(c, f);
            let b2 = map_names_block(b, f);
            Stat::If(c2, b2, map_names_elifs(els, f))
        }
        Stat::For(x, es, b) => {
            let x2 = f(*x);
            let es2 = map_names_exprs(es, f);
            Stat::For(x2, es2, map_names_block(b, f))
        }
        Stat::ForIn(ns, es, b) => {
            let ns2: Vec<u32> = ns.iter().map(|n| f(*n)).collect();
            let es2 = map_names_exprs(es, f);
            Stat::ForIn(ns2, es2, map_names_block(b, f))
        }
        Stat::Label(l) => Stat::Label(*l),
        Stat::Goto(l) => Stat::Goto(*l),
        Stat::LocalAttr(x, cl, es) => {
            let x2 = f(*x);
            Stat::LocalAttr(x2, *cl, map_names_exprs(es, f))
        }
    }
}
fn map_names_elifs(e: &Elifs, f: &mut dyn FnMut(u32) -> u32) -> Elifs {
    match e {
        Elifs::End => Elifs::End,
        Elifs::Else(b) => Elifs::Else(map_names_block(b, f)),
        Elifs::ElseIf(c, b, r) => {
            let c2 = map_names_expr(c, f);
            let b2 = map_names_block(b, f);
            Elifs::ElseIf(c2, b2, Box::new(map_names_elifs(r, f)))
        }
    }
}
pub fn map_names_block(b: &Block, f: &mut dyn FnMut(u32) -> u32) -> Block {
    let stats = b.stats.iter().map(|s| map_names_stat(s, f)).collect();
    let ret = b.ret.as_ref().map(|es| map_names_exprs(es, f));
    Block { stats, ret }
}

/// the program with the name tokens whose ordinal is in `ords` replaced by `new`
pub fn rename_tokens(b: &Block, ords: &std::collections::HashSet<usize>, new: u32) -> Block {
    let mut k = 0usize;
    map_names_block(b, &mut |n| {
        let r = if ords.contains(&k) { new } else { n };
        k += 1;
        r
    })
}

// ------------------------------------------------------------------------------------------------ generator

pub struct Gen<'a> {
    pub rng: &'a mut Rng,
    pub names: u32,
    pub budget: i32,
}

impl<'a> Gen<'a> {
    fn name(&mut self) -> u32 {
        self.rng.below(self.names as usize) as u32
    }
    fn names1(&mut self, max: usize) -> Vec<u32> {
        let n = 1 + self.rng.below(max);
        (0..n).map(|_| self.name()).collect()
    }
    fn params(&mut self) -> Vec<u32> {
        let n = self.rng.below(3);
        (0..n).map(|_| self.name()).collect()
    }
    /// name-rooted prefix expression (may start a statement)
    fn prefix(&mut self, depth: u32) -> Expr {
        self.budget -= 1;
        let mut e = Expr::Name(self.name());
        while self.rng.chance(1, 4) {
            if self.rng.chance(1, 4) {
                let m = self.name();
                let args = self.exprs0(depth, 2);
                e = Expr::Meth(Box::new(e), m, args);
            } else if self.rng.chance(1, 2) {
                e = Expr::Idx(Box::new(e), self.name());
            } else {
                let args = self.exprs0(depth, 2);
                e = Expr::Call(Box::new(e), args);
            }
        }
        e
    }
    pub fn expr(&mut self, depth: u32) -> Expr {
        self.budget -= 1;
        let k = if depth == 0 || self.budget <= 0 { self.rng.below(7) } else { self.rng.below(15) };
        match k {
            0 => Expr::Num(self.rng.below(30) as u32),
            6 if depth == 0 || self.budget <= 0 => Expr::Str(self.rng.below(5) as u32),
            12 => Expr::Str(self.rng.below(5) as u32),
            13 => Expr::Table(self.exprs0(depth - 1, 3)),
            14 => {
                let e = if self.rng.chance(3, 4) { self.prefix(depth - 1) } else { self.expr(depth - 1) };
                let m = self.name();
                let args = self.exprs0(depth - 1, 2);
                Expr::Meth(Box::new(e), m, args)
            }
            1..=5 => Expr::Name(self.name()),
            6 => Expr::Idx(Box::new(self.expr(depth - 1)), self.name()),
            7 | 8 => {
                let f = if self.rng.chance(3, 4) { self.prefix(depth - 1) } else { self.expr(depth - 1) };
                let args = self.exprs0(depth - 1, 2);
                Expr::Call(Box::new(f), args)
            }
            9 => Expr::Bin(Box::new(self.expr(depth - 1)), Box::new(self.expr(depth - 1))),
            _ => {
                let ps = self.params();
                let b = self.block(depth - 1, 2);
                Expr::Fun(ps, b)
            }
        }
    }
    fn exprs0(&mut self, depth: u32, max: usize) -> Vec<Expr> {
        let n = self.rng.below(max + 1);
        (0..n).map(|_| self.expr(depth)).collect()
    }
    fn exprs1(&mut self, depth: u32, max: usize) -> Vec<Expr> {
        let n = 1 + self.rng.below(max);
        (0..n).map(|_| self.expr(depth)).collect()
    }
    fn lval(&mut self, depth: u32) -> Expr {
        if self.rng.chance(3, 4) {
            Expr::Name(self.name())
        } else {
            Expr::Idx(Box::new(self.prefix(depth)), self.name())
        }
    }
    pub fn stat(&mut self, depth: u32) -> Stat {
        self.budget -= 2;
        let d1 = depth.saturating_sub(1);
        let k = if depth == 0 || self.budget <= 0 { self.rng.below(8) } else { self.rng.below(23) };
        match k {
            20 => {
                let x = self.name();
                let cl = self.rng.chance(1, 3);
                let es = self.exprs0(d1, 2);
                Stat::LocalAttr(x, cl, es)
            }
            21 => Stat::Label(self.name()),
            22 => Stat::Goto(self.name()),
            0..=3 => {
                let ns = self.names1(3);
                let es = self.exprs0(d1, 3);
                Stat::Local(ns, es)
            }
            4 | 5 => {
                let n = 1 + self.rng.below(2);
                let vs = (0..n).map(|_| self.lval(d1)).collect();
                let es = self.exprs1(d1, 2);
                Stat::Assign(vs, es)
            }
            6 | 7 => {
                let f = self.prefix(d1);
                let args = self.exprs0(d1, 3);
                Stat::Call(f, args)
            }
            8 | 9 => {
                let f = self.name();
                let ps = self.params();
                Stat::LocalFun(f, ps, self.block(d1, 3))
            }
            10 | 11 => {
                let root = self.name();
                let nf = if self.rng.chance(1, 2) { 0 } else { 1 + self.rng.below(2) };
                let fields = (0..nf).map(|_| self.name()).collect();
                let meth = if self.rng.chance(1, 3) { Some(self.name()) } else { None };
                let ps = self.params();
                Stat::Fun(FuncName { root, fields, meth }, ps, self.block(d1, 3))
            }
            12 => Stat::Do(self.block(d1, 3)),
            13 => {
                let c = self.expr(d1);
                Stat::While(c, self.block(d1, 3))
            }
            14 | 15 => {
                let b = self.block(d1, 3);
                Stat::Repeat(b, self.expr(d1))
            }
            16 => {
                let c = self.expr(d1);
                let b = self.block(d1, 2);
                let mut els = if self.rng.chance(1, 2) { Elifs::End } else { Elifs::Else(self.block(d1, 2)) };
                let n = self.rng.below(3);
                for _ in 0..n {
                    let c = self.expr(d1);
                    let b = self.block(d1, 2);
                    els = Elifs::ElseIf(c, b, Box::new(els));
                }
                Stat::If(c, b, els)
            }
            17 | 18 => {
                let x = self.name();
                let n = 2 + self.rng.below(2);
                let es = (0..n).map(|_| self.expr(d1)).collect();
                Stat::For(x, es, self.block(d1, 3))
            }
            _ => {
                let ns = self.names1(3);
                let es = self.exprs1(d1, 2);
                Stat::ForIn(ns, es, self.block(d1, 3))
            }
        }
    }
    pub fn block(&mut self, depth: u32, max: usize) -> Block {
        let n = if self.budget <= 0 { self.rng.below(2) } else { self.rng.below(max + 1) };
        let stats = (0..n).map(|_| self.stat(depth)).collect();
        let ret = if self.rng.chance(1, 6) { Some(self.exprs0(depth.saturating_sub(1), 2)) } else { None };
        Block { stats, ret }
    }
}

pub fn gen_program(rng: &mut Rng, names: u32, depth: u32, max_stats: usize, budget: i32) -> Block {
    let mut g = Gen { rng, names, budget };
    let n = 1 + g.rng.below(max_stats);
    let stats = (0..n).map(|_| g.stat(depth)).collect();
    let ret = if g.rng.chance(1, 8) { Some(g.exprs0(1, 2)) } else { None };
    Block { stats, ret }
}

// ------------------------------------------------------------------------------------------------ encoders

fn coq_names(ns: &[u32]) -> String {
    format!("[{}]", ns.iter().map(|n| n.to_string()).collect::<Vec<_>>().join(";"))
}
pub fn coq_expr(e: &Expr) -> String {
    match e {
        Expr::Num(n) => format!("(ENum {})", n),
        Expr::Name(n) => format!("(EName {})", n),
        Expr::Idx(e, f) => format!("(EIdx {} {})", coq_expr(e), f),
        Expr::Call(f, a) => format!("(ECall {} {})", coq_expr(f), coq_exprs(a)),
        Expr::Bin(a, b) => format!("(EBin {} {})", coq_expr(a), coq_expr(b)),
        Expr::Fun(ps, b) => format!("(EFun {} {})", coq_names(ps), coq_block(b)),
        Expr::Str(n) => format!("(EStr {})", n),
        Expr::Table(es) => format!("(ETable {})", coq_exprs(es)),
        Expr::Meth(e, m, a) => format!("(EMeth {} {} {})", coq_expr(e), m, coq_exprs(a)),
    }
}
pub fn coq_exprs(es: &[Expr]) -> String {
    let mut s = "ENil".to_string();
    for e in es.iter().rev() {
        s = format!("(ECons {} {})", coq_expr(e), s);
    }
    s
}
pub fn coq_stat(st: &Stat) -> String {
    match st {
        Stat::Local(ns, es) => format!("(SLocal {} {})", coq_names(ns), coq_exprs(es)),
        Stat::Assign(vs, es) => format!("(SAssign {} {})", coq_exprs(vs), coq_exprs(es)),
        Stat::Call(f, a) => format!("(SCall {} {})", coq_expr(f), coq_exprs(a)),
        Stat::LocalFun(f, ps, b) => format!("(SLocalFun {} {} {})", f, coq_names(ps), coq_block(b)),
        Stat::Fun(fname, ps, b) => format!(
            "(SFun {} {} {} {} {})",
            fname.root,
            coq_names(&fname.fields),
            match fname.meth {
                Some(m) => format!("(Some {})", m),
                None => "None".into(),
            },
            coq_names(ps),
            coq_block(b)
        ),
        Stat::Do(b) => format!("(SDo {})", coq_block(b)),
        Stat::While(c, b) => format!("(SWhile {} {})", coq_expr(c), coq_block(b)),
        Stat::Repeat(b, c) => format!("(SRepeat {} {})", coq_block(b), coq_expr(c)),
        Stat::If(c, b, els) => format!("(SIf {} {} {})", coq_expr(c), coq_block(b), coq_elifs(els)),
        Stat::For(x, es, b) => format!("(SFor {} {} {})", x, coq_exprs(es), coq_block(b)),
        Stat::ForIn(ns, es, b) => format!("(SForIn {} {} {})", coq_names(ns), coq_exprs(es), coq_block(b)),
        Stat::Label(l) => format!("(SLabel {})", l),
        Stat::Goto(l) => format!("(SGoto {})", l),
        Stat::LocalAttr(x, cl, es) => format!("(SLocalAttr {} {} {})", x, if *cl { "true" } else { "false" }, coq_exprs(es)),
    }
}
pub fn coq_elifs(e: &Elifs) -> String {
    match e {
        Elifs::End => "ElEnd".into(),
        Elifs::Else(b) => format!("(ElElse {})", coq_block(b)),
        Elifs::ElseIf(c, b, r) => format!("(ElIf {} {} {})", coq_expr(c), coq_block(b), coq_elifs(r)),
    }
}
pub fn coq_block(b: &Block) -> String {
    let mut s = match &b.ret {
        Some(es) => format!("(BRet {})", coq_exprs(es)),
        None => "BNil".to_string(),
    };
    for st in b.stats.iter().rev() {
        s = format!("(BCons {} {})", coq_stat(st), s);
    }
    s
}

pub fn json_expr(e: &Expr) -> Value {
    match e {
        Expr::Num(n) => json!({"num": n}),
        Expr::Name(n) => json!({"name": n}),
        Expr::Idx(e, f) => json!({"idx": [json_expr(e), f]}),
        Expr::Call(f, a) => json!({"call": [json_expr(f), a.iter().map(json_expr).collect::<Vec<_>>()]}),
        Expr::Bin(a, b) => json!({"bin": [json_expr(a), json_expr(b)]}),
        Expr::Fun(ps, b) => json!({"fun": [ps, json_block(b)]}),
        Expr::Str(n) => json!({"str": n}),
        Expr::Table(es) => json!({"table": es.iter().map(json_expr).collect::<Vec<_>>()}),
        Expr::Meth(e, m, a) => json!({"meth": [json_expr(e), m, a.iter().map(json_expr).collect::<Vec<_>>()]}),
    }
}
fn json_exprs(es: &[Expr]) -> Value {
    Value::Array(es.iter().map(json_expr).collect())
}
pub fn json_stat(st: &Stat) -> Value {
    match st {
        Stat::Local(ns, es) => json!({"local": [ns, json_exprs(es)]}),
        Stat::Assign(vs, es) => json!({"assign": [json_exprs(vs), json_exprs(es)]}),
        Stat::Call(f, a) => json!({"callstat": [json_expr(f), json_exprs(a)]}),
        Stat::LocalFun(f, ps, b) => json!({"localfun": [f, ps, json_block(b)]}),
        Stat::Fun(fname, ps, b) => json!({"funstat": [fname.root, fname.fields, fname.meth, ps, json_block(b)]}),
        Stat::Do(b) => json!({"do": json_block(b)}),
        Stat::While(c, b) => json!({"while": [json_expr(c), json_block(b)]}),
        Stat::Repeat(b, c) => json!({"repeat": [json_block(b), json_expr(c)]}),
        Stat::If(c, b, els) => json!({"if": [json_expr(c), json_block(b), json_elifs(els)]}),
        Stat::For(x, es, b) => json!({"for": [x, json_exprs(es), json_block(b)]}),
        Stat::ForIn(ns, es, b) => json!({"forin": [ns, json_exprs(es), json_block(b)]}),
        Stat::Label(l) => json!({"label": l}),
        Stat::Goto(l) => json!({"goto": l}),
        Stat::LocalAttr(x, cl, es) => json!({"localattr": [x, cl, json_exprs(es)]}),
    }
}
fn json_elifs(e: &Elifs) -> Value {
    match e {
        Elifs::End => json!("end"),
        Elifs::Else(b) => json!({"else": json_block(b)}),
        Elifs::ElseIf(c, b, r) => json!({"elseif": [json_expr(c), json_block(b), json_elifs(r)]}),
    }
}
pub fn json_block(b: &Block) -> Value {
    json!({"stats": b.stats.iter().map(json_stat).collect::<Vec<_>>(), "ret": b.ret.as_ref().map(|es| json_exprs(es))})
}

fn u32s(v: &Value) -> Vec<u32> {
    v.as_array().map(|a| a.iter().map(|x| x.as_u64().unwrap_or(0) as u32).collect()).unwrap_or_default()
}
pub fn expr_of_json(v: &Value) -> Expr {
    if let Some(n) = v.get("num") {
        return Expr::Num(n.as_u64().unwrap_or(0) as u32);
    }
    if let Some(n) = v.get("name") {
        return Expr::Name(n.as_u64().unwrap_or(0) as u32);
    }
    if let Some(a) = v.get("idx") {
        return Expr::Idx(Box::new(expr_of_json(&a[0])), a[1].as_u64().unwrap_or(0) as u32);
    }
    if let Some(a) = v.get("call") {
        return Expr::Call(Box::new(expr_of_json(&a[0])), exprs_of_json(&a[1]));
    }
    if let Some(a) = v.get("bin") {
        return Expr::Bin(Box::new(expr_of_json(&a[0])), Box::new(expr_of_json(&a[1])));
    }
    if let Some(a) = v.get("fun") {
        return Expr::Fun(u32s(&a[0]), block_of_json(&a[1]));
    }
    if let Some(n) = v.get("str") {
        return Expr::Str(n.as_u64().unwrap_or(0) as u32);
    }
    if let Some(a) = v.get("table") {
        return Expr::Table(exprs_of_json(a));
    }
    if let Some(a) = v.get("meth") {
        return Expr::Meth(Box::new(expr_of_json(&a[0])), a[1].as_u64().unwrap_or(0) as u32, exprs_of_json(&a[2]));
    }
    Expr::Num(0)
}
fn exprs_of_json(v: &Value) -> Vec<Expr> {
    v.as_array().map(|a| a.iter().map(expr_of_json).collect()).unwrap_or_default()
}
pub fn stat_of_json(v: &Value) -> Stat {
    if let Some(a) = v.get("local") {
        return Stat::Local(u32s(&a[0]), exprs_of_json(&a[1]));
    }
    if let Some(a) = v.get("assign") {
        return Stat::Assign(exprs_of_json(&a[0]), exprs_of_json(&a[1]));
    }
    if let Some(a) = v.get("callstat") {
        return Stat::Call(expr_of_json(&a[0]), exprs_of_json(&a[1]));
    }
    if let Some(a) = v.get("localfun") {
        return Stat::LocalFun(a[0].as_u64().unwrap_or(0) as u32, u32s(&a[1]), block_of_json(&a[2]));
    }
    if let Some(a) = v.get("funstat") {
        return Stat::Fun(
            FuncName { root: a[0].as_u64().unwrap_or(0) as u32, fields: u32s(&a[1]), meth: a[2].as_u64().map(|x| x as u32) },
            u32s(&a[3]),
            block_of_json(&a[4]),
        );
    }
    if let Some(a) = v.get("do") {
        return Stat::Do(block_of_json(a));
    }
    if let Some(a) = v.get("while") {
        return Stat::While(expr_of_json(&a[0]), block_of_json(&a[1]));
    }
    if let Some(a) = v.get("repeat") {
        return Stat::Repeat(block_of_json(&a[0]), expr_of_json(&a[1]));
    }
    if let Some(a) = v.get("if") {
        return Stat::If(expr_of_json(&a[0]), block_of_json(&a[1]), elifs_of_json(&a[2]));
    }
    if let Some(a) = v.get("for") {
        return Stat::For(a[0].as_u64().unwrap_or(0) as u32, exprs_of_json(&a[1]), block_of_json(&a[2]));
    }
    if let Some(a) = v.get("forin") {
        return Stat::ForIn(u32s(&a[0]), exprs_of_json(&a[1]), block_of_json(&a[2]));
    }
    if let Some(l) = v.get("label") {
        return Stat::Label(l.as_u64().unwrap_or(0) as u32);
    }
    if let Some(l) = v.get("goto") {
        return Stat::Goto(l.as_u64().unwrap_or(0) as u32);
    }
    if let Some(a) = v.get("localattr") {
        return Stat::LocalAttr(a[0].as_u64().unwrap_or(0) as u32, a[1].as_bool().unwrap_or(false), exprs_of_json(&a[2]));
    }
    Stat::Do(Block::default())
}
fn elifs_of_json(v: &Value) -> Elifs {
    if let Some(b) = v.get("else") {
        return Elifs::Else(block_of_json(b));
    }
    if let Some(a) = v.get("elseif") {
        return Elifs::ElseIf(expr_of_json(&a[0]), block_of_json(&a[1]), Box::new(elifs_of_json(&a[2])));
    }
    Elifs::End
}
pub fn block_of_json(v: &Value) -> Block {
    Block {
        stats: v["stats"].as_array().map(|a| a.iter().map(stat_of_json).collect()).unwrap_or_default(),
        ret: if v["ret"].is_null() { None } else { Some(exprs_of_json(&v["ret"])) },
    }
}

// ------------------------------------------------------------------------------------------------ implementation observer

pub fn kind_code(k: LuaScopeKind) -> u32 {
    let s = format!("{:?}", k);
    match s.as_str() {
        "Normal" => 0,
        "Repeat" => 1,
        "LocalOrAssignStat" => 2,
        "ForRange" => 3,
        "FuncStat" => 4,
        "MethodStat" => 5,
        "Closure" => 6,
        _ => 99,
    }
}

/// decl kinds: 0 local/param, 1 implicit self, 2 global
fn decl_kind(tree: &LuaDeclarationTree, id: &emmylua_code_analysis::LuaDeclId) -> u32 {
    match tree.get_decl(id) {
        Some(d) if d.is_local() => 0,
        Some(d) if d.is_implicit_self() => 1,
        _ => 2,
    }
}

pub fn dump_scope(tree: &LuaDeclarationTree, s: &LuaScope) -> Value {
    let mut ch = Vec::new();
    for c in s.get_children() {
        match c {
            ScopeOrDeclId::Decl(d) => {
                let name = tree.get_decl(d).map(|x| x.get_name().to_string()).unwrap_or_default();
                ch.push(json!({"d": u32::from(d.position), "n": name, "k": decl_kind(tree, d)}));
            }
            ScopeOrDeclId::Scope(id) => {
                if let Some(cs) = tree.get_scope(id) {
                    ch.push(dump_scope(tree, cs));
                }
            }
        }
    }
    json!({"k": kind_code(s.get_kind()), "r": [u32::from(s.get_range().start()), u32::from(s.get_range().end())], "c": ch})
}

pub struct Observed {
    /// every TkName token that is a NameExpr: (position, text, reference-index target: (decl position, decl kind))
    pub uses: Vec<(u32, String, Option<(u32, u32)>)>,
    /// SemanticModel::find_decl (NoTrace) on the same tokens: Some(decl position) when it is a LuaDecl that is local/param
    pub find_decl: Vec<(u32, Option<u32>)>,
    /// declaration tokens (LocalName / ParamName / for variables): find_decl must answer the token itself
    pub decl_tokens: Vec<(u32, Option<u32>)>,
    pub tree: Value,
    pub parse_errors: usize,
}

/// analyses `text` as THE file of the workspace (the same virtual file is overwritten every time, so the workspace
/// never holds other programs whose globals could be confused with this one's)
pub fn observe(ws: &mut VirtualWorkspace, text: &str) -> (FileId, Observed) {
    let fid = ws.def_file("prog.lua", text);
    let obs = observe_file(ws, fid);
    (fid, obs)
}

pub fn observe_file(ws: &VirtualWorkspace, fid: FileId) -> Observed {
    let db = ws.analysis.compilation.get_db();
    let tree = db.get_decl_index().get_decl_tree(&fid).expect("decl tree");
    let dump = match tree.get_root_scope() {
        Some(r) => dump_scope(tree, r),
        None => Value::Null,
    };
    let sm = ws.analysis.compilation.get_semantic_model(fid).expect("semantic model");
    let root = sm.get_root().clone();
    let parse_errors = db.get_vfs().get_syntax_tree(&fid).map(|t| t.get_errors().len()).unwrap_or(0);
    let mut uses = Vec::new();
    let mut find_decl = Vec::new();
    let mut decl_tokens = Vec::new();
    for t in root.syntax().descendants_with_tokens() {
        if let NodeOrToken::Token(tok) = t {
            if tok.kind() != LuaTokenKind::TkName.into() {
                continue;
            }
            let Some(parent) = tok.parent() else { continue };
            let pk: LuaSyntaxKind = parent.kind().into();
            let pos = u32::from(tok.text_range().start());
            let fd = match sm.find_decl(NodeOrToken::Token(tok.clone()), SemanticDeclLevel::NoTrace) {
                Some(LuaSemanticDeclId::LuaDecl(d)) => match db.get_decl_index().get_decl(&d) {
                    Some(decl) if decl.is_local() => Some(u32::from(d.position)),
                    _ => None,
                },
                _ => None,
            };
            match pk {
                LuaSyntaxKind::NameExpr => {
                    let r = db.get_reference_index().get_var_reference_decl(&fid, tok.text_range());
                    let r = r.map(|d| (u32::from(d.position), decl_kind(tree, &d)));
                    uses.push((pos, tok.text().to_string(), r));
                    find_decl.push((pos, fd));
                }
                LuaSyntaxKind::LocalName | LuaSyntaxKind::ParamName | LuaSyntaxKind::ForStat | LuaSyntaxKind::ForRangeStat => {
                    decl_tokens.push((pos, fd));
                }
                _ => {}
            }
        }
    }
    Observed { uses, find_decl, decl_tokens, tree: dump, parse_errors }
}

/// the implementation's answer in the vocabulary of the reference resolver: local/param/implicit self -> Some(pos), else None
pub fn impl_res(r: &Option<(u32, u32)>) -> Res {
    match r {
        Some((p, k)) if *k == 0 || *k == 1 => Some(*p),
        _ => None,
    }
}

// ------------------------------------------------------------------------------------------------ shrinking

/// all programs obtained by deleting one statement / replacing one block by its sub-blocks (one step of delta debugging)
pub fn shrink_candidates(b: &Block) -> Vec<Block> {
    let mut out = Vec::new();
    for i in 0..b.stats.len() {
        let mut c = b.clone();
        c.stats.remove(i);
        out.push(c);
        // hoist inner blocks
        for inner in inner_blocks(&b.stats[i]) {
            let mut c = b.clone();
            c.stats.splice(i..=i, inner.stats.clone());
            if c.ret.is_none() && i == b.stats.len() - 1 {
                c.ret = inner.ret.clone();
            }
            out.push(c);
        }
        // shrink inside
        for s2 in shrink_stat(&b.stats[i]) {
            let mut c = b.clone();
            c.stats[i] = s2;
            out.push(c);
        }
    }
    if b.ret.is_some() {
        let mut c = b.clone();
        c.ret = None;
        out.push(c);
    }
    out
}

fn inner_blocks(s: &Stat) -> Vec<Block> {
    match s {
        Stat::LocalFun(_, _, b) | Stat::Fun(_, _, b) | Stat::Do(b) | Stat::While(_, b) | Stat::Repeat(b, _) | Stat::For(_, _, b) | Stat::ForIn(_, _, b) => vec![b.clone()],
        Stat::If(_, b, els) => {
            let mut v = vec![b.clone()];
            let mut cur = els;
            loop {
                match cur {
                    Elifs::End => break,
                    Elifs::Else(b) => {
                        v.push(b.clone());
                        break;
                    }
                    Elifs::ElseIf(_, b, r) => {
                        v.push(b.clone());
                        cur = r;
                    }
                }
            }
            v
        }
        _ => vec![],
    }
}

fn shrink_exprs(es: &[Expr]) -> Vec<Vec<Expr>> {
    let mut out = Vec::new();
    for i in 0..es.len() {
        let mut c = es.to_vec();
        c.remove(i);
        out.push(c);
        for e2 in shrink_expr(&es[i]) {
            let mut c = es.to_vec();
            c[i] = e2;
            out.push(c);
        }
    }
    out
}

fn shrink_expr(e: &Expr) -> Vec<Expr> {
    let mut out = Vec::new();
    match e {
        Expr::Num(_) | Expr::Name(_) | Expr::Str(_) => {}
        Expr::Table(es) => {
            out.extend(es.iter().cloned());
            for e2 in shrink_exprs(es) {
                out.push(Expr::Table(e2));
            }
        }
        Expr::Meth(a, m, args) => {
            out.push((**a).clone());
            out.extend(args.iter().cloned());
            for a2 in shrink_exprs(args) {
                out.push(Expr::Meth(a.clone(), *m, a2));
            }
            for f2 in shrink_expr(a) {
                out.push(Expr::Meth(Box::new(f2), *m, args.clone()));
            }
        }
        Expr::Idx(a, _) => out.push((**a).clone()),
        Expr::Call(f, args) => {
            out.push((**f).clone());
            out.extend(args.iter().cloned());
            for a2 in shrink_exprs(args) {
                out.push(Expr::Call(f.clone(), a2));
            }
            for f2 in shrink_expr(f) {
                out.push(Expr::Call(Box::new(f2), args.clone()));
            }
        }
        Expr::Bin(a, b) => {
            out.push((**a).clone());
            out.push((**b).clone());
        }
        Expr::Fun(ps, b) => {
            for b2 in shrink_candidates(b) {
                out.push(Expr::Fun(ps.clone(), b2));
            }
            for i in 0..ps.len() {
                let mut p2 = ps.clone();
                p2.remove(i);
                out.push(Expr::Fun(p2, b.clone()));
            }
        }
    }
    out
}

fn shrink_stat(s: &Stat) -> Vec<Stat> {
    let mut out = Vec::new();
    let with_block = |b: &Block, f: &dyn Fn(Block) -> Stat, out: &mut Vec<Stat>| {
        for b2 in shrink_candidates(b) {
            out.push(f(b2));
        }
    };
    match s {
        Stat::Local(ns, es) => {
            for es2 in shrink_exprs(es) {
                out.push(Stat::Local(ns.clone(), es2));
            }
            if ns.len() > 1 {
                for i in 0..ns.len() {
                    let mut n2 = ns.clone();
                    n2.remove(i);
                    out.push(Stat::Local(n2, es.clone()));
                }
            }
        }
        Stat::Assign(vs, es) => {
            for es2 in shrink_exprs(es) {
                if !es2.is_empty() {
                    out.push(Stat::Assign(vs.clone(), es2));
                }
            }
            if vs.len() > 1 {
                for i in 0..vs.len() {
                    let mut v2 = vs.clone();
                    v2.remove(i);
                    out.push(Stat::Assign(v2, es.clone()));
                }
            }
        }
        Stat::Call(f, args) => {
            for a2 in shrink_exprs(args) {
                out.push(Stat::Call(f.clone(), a2));
            }
        }
        Stat::Label(_) | Stat::Goto(_) => {}
        Stat::LocalAttr(x, cl, es) => {
            out.push(Stat::Local(vec![*x], es.clone()));
            for es2 in shrink_exprs(es) {
                out.push(Stat::LocalAttr(*x, *cl, es2));
            }
        }
        Stat::LocalFun(f, ps, b) => with_block(b, &|b2| Stat::LocalFun(*f, ps.clone(), b2), &mut out),
        Stat::Fun(n, ps, b) => {
            with_block(b, &|b2| Stat::Fun(n.clone(), ps.clone(), b2), &mut out);
            if !n.fields.is_empty() {
                out.push(Stat::Fun(FuncName { root: n.root, fields: vec![], meth: n.meth }, ps.clone(), b.clone()));
            }
        }
        Stat::Do(b) => with_block(b, &|b2| Stat::Do(b2), &mut out),
        Stat::While(c, b) => {
            with_block(b, &|b2| Stat::While(c.clone(), b2), &mut out);
            for c2 in shrink_expr(c) {
                out.push(Stat::While(c2, b.clone()));
            }
        }
        Stat::Repeat(b, c) => {
            with_block(b, &|b2| Stat::Repeat(b2, c.clone()), &mut out);
            for c2 in shrink_expr(c) {
                out.push(Stat::Repeat(b.clone(), c2));
            }
        }
        Stat::If(c, b, els) => {
            with_block(b, &|b2| Stat::If(c.clone(), b2, els.clone()), &mut out);
            if *els != Elifs::End {
                out.push(Stat::If(c.clone(), b.clone(), Elifs::End));
            }
            for c2 in shrink_expr(c) {
                out.push(Stat::If(c2, b.clone(), els.clone()));
            }
        }
        Stat::For(x, es, b) => {
            with_block(b, &|b2| Stat::For(*x, es.clone(), b2), &mut out);
            for es2 in shrink_exprs(es) {
                if es2.len() >= 2 {
                    out.push(Stat::For(*x, es2, b.clone()));
                }
            }
        }
        Stat::ForIn(ns, es, b) => {
            with_block(b, &|b2| Stat::ForIn(ns.clone(), es.clone(), b2), &mut out);
            for es2 in shrink_exprs(es) {
                if !es2.is_empty() {
                    out.push(Stat::ForIn(ns.clone(), es2, b.clone()));
                }
            }
        }
    }
    out
}

/// greedy delta debugging: keep applying the first candidate on which `bad` still holds
pub fn shrink(b: &Block, bad: &mut dyn FnMut(&Block) -> bool) -> Block {
    let mut cur = b.clone();
    let mut steps = 0;
    'outer: loop {
        steps += 1;
        if steps > 200 {
            break;
        }
        for c in shrink_candidates(&cur) {
            if bad(&c) {
                cur = c;
                continue 'outer;
            }
        }
        break;
    }
    cur
}

/// structural class of a disagreement between the reference resolver and the implementation (finding signature)
pub fn classify(pr: &Printer, use_idx: usize, got: Res) -> String {
    let (upos, _, expected) = pr.uses[use_idx];
    let udepth = pr.use_depth[use_idx];
    let info = |p: u32| pr.decls.iter().find(|d| d.pos == p);
    if let (Some(e), Some(g)) = (expected, got) {
        if let (Some(de), Some(dg)) = (info(e), info(g)) {
            if de.group == dg.group && de.kind == DeclKind::Local {
                return "dup-name-in-one-local-first-wins".into();
            }
        }
    }
    if let Some(g) = got {
        if let Some(dg) = info(g) {
            if dg.kind == DeclKind::ForNum || dg.kind == DeclKind::ForIn {
                if let Some(h) = pr.headers.iter().find(|h| h.0 == dg.group && h.1 <= upos && upos < h.2) {
                    let which = if dg.kind == DeclKind::ForNum { "numeric-for" } else { "generic-for" };
                    return if udepth > h.3 { format!("{}-header-closure-sees-loop-variable", which) } else { format!("{}-header-sees-loop-variable", which) };
                }
            }
            if dg.kind == DeclKind::Param && pr.empty_untils.iter().any(|u| u.0 <= upos && upos < u.1) {
                return "until-of-empty-repeat-sees-closure-parameter".into();
            }
            return format!("other-got-{:?}-expected-{}", dg.kind, if expected.is_some() { "local" } else { "global" });
        }
        return "other-got-unknown-declaration".into();
    }
    "visible-local-not-found".into()
}
