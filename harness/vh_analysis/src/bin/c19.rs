//! C19 harness: `---@diagnostic disable / disable-next-line / disable-line / enable` scopes.
//!   c19 corr   --seed S --n N [--corpus DIR]  -> JSON lines: what the analyzer read off the tree (tags), the
//!                                                actions / file sets it recorded, answers of
//!                                                is_file_diagnostic_code_disabled on an offset grid, and the
//!                                                diagnostics of diagnose_file without (d0) and with (d1) the comments
//!   c19 search --seed S --n N [--corpus DIR]  -> JSON lines: violations of the property oracle (independent,
//!                                                line based), then {"summary":…}
//!   c19 one    --text-json '"..."'            -> both of the above for one program (replay)
use emmylua_code_analysis::{DiagnosticCode, FileId, VirtualWorkspace};
use emmylua_parser::{LuaAstNode, LuaAstToken, LuaBlock, LuaChunk, LuaComment, LuaDocTagDiagnostic};
use lsp_types::NumberOrString;
use rowan::{TextRange, TextSize};
use serde_json::{Value, json};
use std::collections::{BTreeMap, BTreeSet, HashSet};
use std::str::FromStr;
use tokio_util::sync::CancellationToken;
use vh_common::{Args, Rng, guarded};

const LIB: &str = "---@deprecated\nfunction dep(...) end\n---@param a number\n---@param b number\nfunction need2(a, b) end\n";

/// codes that the generated programs can trigger, plus two that they cannot and one unknown name
const CODE_NAMES: &[&str] = &[
    "undefined-global",
    "unused",
    "deprecated",
    "missing-parameter",
    "assign-type-mismatch",
    "doc-syntax-error",
    "type-not-found",
    "param-type-mismatch",
    "syntax-error",
    "need-check-nil",
    "bogus-code",
];

fn code_index(c: DiagnosticCode) -> usize {
    DiagnosticCode::all().iter().position(|x| *x == c).unwrap_or(usize::MAX)
}

// ------------------------------------------------------------------------------------------ generator

#[derive(Clone, Copy, PartialEq)]
enum Eol {
    Lf,
    CrLf,
    Cr,
    Mixed,
}

struct Gen<'a> {
    rng: &'a mut Rng,
    lines: Vec<String>,
    counter: usize,
    budget: usize,
}

impl<'a> Gen<'a> {
    fn fresh(&mut self) -> usize {
        self.counter += 1;
        self.counter
    }

    fn code_list(&mut self) -> String {
        // none (= all codes), one, or several codes
        match self.rng.below(10) {
            0..=2 => String::new(),
            3..=6 => format!(": {}", self.rng.pick(CODE_NAMES)),
            7..=8 => format!(": {}, {}", self.rng.pick(CODE_NAMES), self.rng.pick(CODE_NAMES)),
            _ => format!(":{},{} , {}", self.rng.pick(CODE_NAMES), self.rng.pick(CODE_NAMES), self.rng.pick(CODE_NAMES)),
        }
    }

    fn dashes(&mut self) -> &'static str {
        if self.rng.chance(1, 5) { "--- " } else { "---" }
    }

    /// a statement occupying one or more lines (without indentation); most produce diagnostics
    fn stmt(&mut self) -> Vec<String> {
        let n = self.fresh();
        match self.rng.below(16) {
            0..=3 => vec![format!("g{n}()")],
            4..=5 => vec![format!("local u{n} = 1")],
            6 => vec!["dep()".to_string()],
            7 => {
                let m = self.fresh();
                vec![format!("g{n}(); g{m}()")]
            }
            8 => vec![format!("local _s{n} = \"é😀中\"; g{n}()")],
            9 => vec!["need2(1)".to_string()],
            10 => vec!["dep(".to_string(), format!("  g{n},"), format!("g{n}x)")],
            11 => vec![format!("local _ok{n} = 1")],
            12 => vec!["---@type string".to_string(), format!("local _t{n} = 1")],
            13 => vec!["---@param".to_string(), format!("local function _f{n}() end")],
            14 => vec![format!("---@type Foo{n}"), format!("local _v{n} = nil")],
            _ => vec![format!("local _w{n} = g{n} + g{n}y")],
        }
    }

    /// a one-line statement that triggers the given code
    fn stmt_of(&mut self, code: &str) -> String {
        let n = self.fresh();
        match code {
            "unused" => format!("local u{n} = 1"),
            "deprecated" => "dep()".to_string(),
            "missing-parameter" => "need2(1)".to_string(),
            _ => format!("g{n}()"),
        }
    }

    /// a line-level comment (any code) FOLLOWED by a block-level / file-level `disable` of code X, with diagnostics of
    /// X before the line-level comment, between the two comments and after both; the line-level comment sits in the
    /// same block, in a nested block or in an earlier sibling block
    fn combo(&mut self, depth: usize) {
        let indent = depth * 2;
        let x = *self.rng.pick(&["undefined-global", "unused", "deprecated", "missing-parameter"]);
        let list = match self.rng.below(4) {
            0 => String::new(),
            1 => format!(": {}, {}", self.rng.pick(CODE_NAMES), x),
            _ => format!(": {x}"),
        };
        let line_codes = self.code_list();
        let before = self.stmt_of(x);
        self.push(indent, &before);
        let place = self.rng.below(4);
        let carrier = self.stmt();
        let emit_line_level = |g: &mut Gen, ind: usize| {
            if g.rng.chance(1, 2) {
                let c = format!("{}@diagnostic disable-next-line{}", g.dashes(), line_codes);
                g.push(ind, &c);
                for l in &carrier {
                    g.push(ind, l);
                }
            } else {
                let n = g.fresh();
                g.push(ind, &format!("local _c{n} = 1 ---@diagnostic disable-line{line_codes}"));
            }
        };
        match place {
            0 | 1 => emit_line_level(self, indent),
            2 => {
                self.push(indent, "do");
                emit_line_level(self, indent + 2);
                self.push(indent, "end");
            }
            _ => {
                let n = self.fresh();
                self.push(indent, &format!("if g{n}c then"));
                let inner = self.stmt_of(x);
                self.push(indent + 2, &inner);
                emit_line_level(self, indent + 2);
                self.push(indent, "else");
                let inner = self.stmt_of(x);
                self.push(indent + 2, &inner);
                self.push(indent, "end");
            }
        }
        let between = self.stmt_of(x);
        self.push(indent, &between);
        let c = format!("{}@diagnostic disable{}", self.dashes(), list);
        self.push(indent, &c);
        let after = self.stmt_of(x);
        self.push(indent, &after);
    }

    fn push(&mut self, indent: usize, s: &str) {
        // sometimes no indentation at all, so that nested statements start at column 0
        let ind = if self.rng.chance(1, 4) { 0 } else { indent };
        self.lines.push(format!("{}{}", " ".repeat(ind), s));
    }

    fn block(&mut self, depth: usize) {
        let indent = depth * 2;
        let items = self.rng.range(1, 5);
        for _ in 0..items {
            if self.budget == 0 {
                break;
            }
            self.budget -= 1;
            match self.rng.below(20) {
                0..=5 => {
                    for l in self.stmt() {
                        self.push(indent, &l);
                    }
                }
                6..=8 => {
                    // disable-next-line on its own line, directly followed by statements
                    let c = format!("{}@diagnostic disable-next-line{}", self.dashes(), self.code_list());
                    self.push(indent, &c);
                    let k = self.rng.range(1, 3);
                    for _ in 0..k {
                        for l in self.stmt() {
                            // column 0 matters most here
                            if self.rng.chance(1, 2) { self.lines.push(l) } else { self.push(indent, &l) }
                        }
                    }
                }
                9..=10 => {
                    // trailing disable-line / disable-next-line
                    let mut ls = self.stmt();
                    let which = if self.rng.chance(3, 4) { "disable-line" } else { "disable-next-line" };
                    let c = format!(" {}@diagnostic {}{}", self.dashes(), which, self.code_list());
                    if let Some(last) = ls.last_mut() {
                        if !last.starts_with("---") {
                            last.push_str(&c);
                        }
                    }
                    for l in ls {
                        self.push(indent, &l);
                    }
                    for l in self.stmt() {
                        if self.rng.chance(1, 2) { self.lines.push(l) } else { self.push(indent, &l) }
                    }
                }
                11..=12 => {
                    let c = format!("{}@diagnostic disable{}", self.dashes(), self.code_list());
                    self.push(indent, &c);
                }
                13 => {
                    if self.rng.chance(1, 3) {
                        let c = format!("---@diagnostic enable: {}", self.rng.pick(CODE_NAMES));
                        self.push(indent, &c);
                    } else {
                        self.lines.push(String::new());
                    }
                }
                14 => self.push(indent, "-- note"),
                15 => self.combo(depth),
                _ => {
                    if depth >= 3 {
                        continue;
                    }
                    let n = self.fresh();
                    let kind = self.rng.below(7);
                    match kind {
                        0 => self.push(indent, "do"),
                        1 => self.push(indent, &format!("if g{n}c then")),
                        2 => self.push(indent, &format!("local function _fn{n}()")),
                        3 => self.push(indent, &format!("while g{n}c do")),
                        4 => self.push(indent, "for _ = 1, 2 do"),
                        5 => self.push(indent, "repeat"),
                        _ => {
                            let cl = self.code_list();
                            self.push(indent, &format!("if g{n}c then ---@diagnostic disable{cl}"))
                        }
                    }
                    self.block(depth + 1);
                    if (kind == 1 || kind == 6) && self.rng.chance(1, 2) {
                        if self.rng.chance(1, 2) {
                            self.push(indent, "else")
                        } else {
                            self.push(indent, &format!("elseif g{n}d then"))
                        }
                        self.block(depth + 1);
                    }
                    if kind == 5 {
                        self.push(indent, &format!("until g{n}u"));
                    } else if self.rng.chance(1, 6) {
                        // a statement right after `end` on the same line
                        self.push(indent, &format!("end g{n}e()"));
                    } else {
                        self.push(indent, "end");
                    }
                    // adjacent block directly after
                    if self.rng.chance(1, 3) {
                        self.push(indent, "do");
                        self.block(depth + 1);
                        self.push(indent, "end");
                    }
                }
            }
        }
    }
}

fn gen_program(rng: &mut Rng) -> (String, Eol) {
    let eol = match rng.below(20) {
        0..=10 => Eol::Lf,
        11..=15 => Eol::CrLf,
        16 => Eol::Cr,
        _ => Eol::Mixed,
    };
    let budget = rng.range(2, 14);
    let mut g = Gen { rng, lines: Vec::new(), counter: 0, budget };
    // a leading file-level comment in a share of the programs
    match g.rng.below(8) {
        0 => {
            let c = format!("---@diagnostic disable{}", g.code_list());
            g.lines.push(c)
        }
        1 => {
            let c = format!("---@diagnostic disable-next-line{}", g.code_list());
            g.lines.push(c)
        }
        _ => {}
    }
    match g.rng.below(10) {
        0 => g.combo(0),
        1 => {
            let n = g.fresh();
            let head = *g.rng.pick(&["do", "local function _cf()", "for _ = 1, 2 do"]);
            g.lines.push(head.to_string());
            g.combo(1);
            g.lines.push("end".to_string());
            g.lines.push(format!("g{n}()"));
        }
        _ => {}
    }
    while g.budget > 0 {
        g.block(0);
    }
    let lines = std::mem::take(&mut g.lines);
    let mut s = String::new();
    let n = lines.len();
    for (i, l) in lines.iter().enumerate() {
        s.push_str(l);
        let last = i + 1 == n;
        if last && rng.chance(1, 2) {
            break;
        }
        match eol {
            Eol::Lf => s.push('\n'),
            Eol::CrLf => s.push_str("\r\n"),
            Eol::Cr => s.push('\r'),
            Eol::Mixed => s.push_str(*rng.pick(&["\n", "\r\n", "\r", "\n"])),
        }
    }
    (s, eol)
}

// ------------------------------------------------------------------------------------ implementation side

struct Ws {
    ws: VirtualWorkspace,
    used: usize,
}

impl Ws {
    fn new() -> Ws {
        let mut ws = VirtualWorkspace::new();
        ws.def(LIB);
        Ws { ws, used: 0 }
    }
    fn fresh(&mut self) {
        self.used += 1;
        if self.used > 150 {
            *self = Ws::new();
        }
    }
}

#[derive(Clone, Debug, PartialEq, Eq, PartialOrd, Ord)]
struct Diag {
    sl: u32,
    sc: u32,
    el: u32,
    ec: u32,
    code: String,
    msg: String,
}

struct TagInfo {
    kind: usize, // 0 disable, 1 next-line, 2 line, 3 enable, 4 other
    comment: (u32, u32),
    block: Option<(u32, u32)>,
    top: bool,
    codes: Option<Vec<DiagnosticCode>>,
}

fn diagnose(ws: &mut Ws, text: &str) -> Result<(FileId, Vec<Diag>), String> {
    let id = ws.ws.def(text);
    let ds = ws.ws.analysis.diagnose_file(id, CancellationToken::new()).ok_or("diagnose_file returned None")?;
    let mut v: Vec<Diag> = ds
        .into_iter()
        .map(|d| Diag {
            sl: d.range.start.line,
            sc: d.range.start.character,
            el: d.range.end.line,
            ec: d.range.end.character,
            code: match d.code {
                Some(NumberOrString::String(s)) => s,
                _ => "?".to_string(),
            },
            msg: d.message,
        })
        .collect();
    v.sort();
    Ok((id, v))
}

fn tags_of(ws: &Ws, id: FileId) -> Vec<TagInfo> {
    let db = ws.ws.analysis.compilation.get_db();
    let tree = match db.get_vfs().get_syntax_tree(&id) {
        Some(t) => t,
        None => return vec![],
    };
    let chunk = tree.get_chunk_node();
    let mut out = Vec::new();
    for tag in chunk.descendants::<LuaDocTagDiagnostic>() {
        let comment = match tag.ancestors::<LuaComment>().next() {
            Some(c) => c,
            None => continue,
        };
        let action = match tag.get_action_token() {
            Some(t) => t.get_text().to_string(),
            None => continue, // analyze_diagnostic returns early
        };
        let kind = match action.as_str() {
            "disable" => 0,
            "disable-next-line" => 1,
            "disable-line" => 2,
            "enable" => 3,
            _ => 4,
        };
        let block = comment.ancestors::<LuaBlock>().next();
        let r = comment.get_range();
        out.push(TagInfo {
            kind,
            comment: (r.start().into(), r.end().into()),
            block: block.as_ref().map(|b| (b.get_range().start().into(), b.get_range().end().into())),
            top: block.as_ref().map(|b| b.get_parent::<LuaChunk>().is_some()).unwrap_or(false),
            codes: tag
                .get_code_list()
                .map(|l| l.get_codes().map(|c| DiagnosticCode::from_str(c.get_name_text()).unwrap_or(DiagnosticCode::None)).collect()),
        });
    }
    out
}

fn neutralise(text: &str) -> String {
    text.replace("@diagnostic", " diagnostic")
}

// ------------------------------------------------------------------------------------ reference positions

/// independent line table: LSP lines end at "\n", "\r\n", lone "\r"; columns are UTF-16
struct Lines {
    pos: Vec<(u32, u32)>, // by byte offset (non-boundaries repeat the previous boundary)
    eof: (u32, u32),
}

fn lines_of(text: &str) -> Lines {
    let mut pos = vec![(0u32, 0u32); text.len() + 1];
    let (mut line, mut col) = (0u32, 0u32);
    let chars: Vec<(usize, char)> = text.char_indices().collect();
    for (i, &(o, c)) in chars.iter().enumerate() {
        for k in 0..c.len_utf8() {
            pos[o + k] = (line, col);
        }
        let next_is_lf = chars.get(i + 1).map(|x| x.1 == '\n').unwrap_or(false);
        if c == '\n' || (c == '\r' && !next_is_lf) {
            line += 1;
            col = 0;
        } else {
            col += c.len_utf16() as u32;
        }
    }
    pos[text.len()] = (line, col);
    Lines { pos, eof: (line, col) }
}

// ------------------------------------------------------------------------------------------- the oracle

#[derive(Clone, Copy, PartialEq, Debug)]
enum Verdict {
    Must,     // the property demands that the diagnostic is suppressed
    NoEffect, // this comment must not affect the diagnostic
    DontCare, // the property text does not decide (straddles the scope, before the comment in its block, …)
}

fn tag_code_names(t: &TagInfo) -> Option<Vec<String>> {
    t.codes.as_ref().map(|v| v.iter().map(|c| c.get_name().to_string()).collect())
}

fn classify(t: &TagInfo, d: &Diag, ln: &Lines, enabled: &BTreeSet<String>) -> (Verdict, &'static str) {
    let lists = match tag_code_names(t) {
        None => true,
        Some(v) => v.iter().any(|c| *c == d.code),
    };
    if t.kind >= 3 || !lists {
        return (Verdict::NoEffect, "other-code");
    }
    let ds = (d.sl, d.sc);
    let de = (d.el, d.ec);
    let empty = ds == de;
    if empty && ds == ln.eof {
        return (Verdict::DontCare, "");
    }
    let cs = ln.pos[t.comment.0 as usize];
    let ce = ln.pos[t.comment.1 as usize];
    match t.kind {
        1 => {
            let last = ce.0 + 1; // the line directly after the comment's last line
            if ds >= cs && de.0 <= last {
                (Verdict::Must, "next-line-miss")
            } else if (if empty { ds < cs } else { de <= cs }) || ds.0 > last {
                (Verdict::NoEffect, "next-line-leak")
            } else {
                (Verdict::DontCare, "")
            }
        }
        2 => {
            let l = ce.0;
            if ds.0 == l && de.0 == l {
                (Verdict::Must, "line-miss")
            } else if de.0 < l || (!empty && de == (l, 0)) || ds.0 > l {
                (Verdict::NoEffect, "line-leak")
            } else {
                (Verdict::DontCare, "")
            }
        }
        _ => {
            let b = match t.block {
                Some(b) => b,
                None => return (Verdict::NoEffect, "block-leak"),
            };
            if t.top && t.codes.is_some() {
                // file level set: the whole file; an `enable` of the same code is not described by the property
                if enabled.contains(&d.code) {
                    return (Verdict::DontCare, "");
                }
                // "`disable: X` suppresses it … within the enclosing block (the whole file at top level)"
                return (Verdict::Must, "file-miss");
            }
            let bs = ln.pos[b.0 as usize];
            let be = ln.pos[b.1 as usize];
            let _ = ce;
            if ds >= bs && de <= be && (!empty || ds < be) {
                (Verdict::Must, "block-miss")
            } else if (if empty { ds < bs } else { de <= bs }) || (if empty { ds > be } else { ds >= be }) {
                (Verdict::NoEffect, "block-leak")
            } else {
                (Verdict::DontCare, "")
            }
        }
    }
}

#[derive(Default)]
struct Stats {
    programs: usize,
    with_tag_and_diag: usize,
    tags: [usize; 5],
    tags_multi_code: usize,
    tags_no_list: usize,
    diags: usize,
    must: usize,
    no_effect: usize,
    dont_care: usize,
    col0_after_scope: usize,
    empty_range_diags: usize,
    multi_line_comments: usize,
    eol: [usize; 4],
    nested_block_tags: usize,
    line_then_disable: usize,
    must_before_comment: usize,
    by_code: BTreeMap<String, usize>,
}

/// run the oracle on one program; returns violations
fn search_one(ws: &mut Ws, text: &str, st: &mut Stats, out: &mut Vec<Value>) {
    ws.fresh();
    let cps: Vec<u32> = text.chars().map(|c| c as u32).collect();
    let mut report = |sig: &str, what: String| {
        out.push(json!({"signature": sig, "what": what, "text": text, "cps": cps.clone()}));
    };
    let neutral = neutralise(text);
    let r = guarded(|| {
        let (_, d0) = diagnose(ws, &neutral)?;
        let (id, d1) = diagnose(ws, text)?;
        let tags = tags_of(ws, id);
        Ok::<_, String>((d0, d1, tags))
    });
    let (d0, d1, tags) = match r {
        Ok(Ok(x)) => x,
        Ok(Err(e)) => {
            report("no-result", e);
            return;
        }
        Err(e) => {
            *ws = Ws::new();
            report("crash", format!("analysis panicked: {e}"));
            return;
        }
    };
    let ln = lines_of(text);
    st.programs += 1;
    if !tags.is_empty() && !d0.is_empty() {
        st.with_tag_and_diag += 1;
    }
    let mut enabled = BTreeSet::new();
    for t in &tags {
        st.tags[t.kind] += 1;
        match &t.codes {
            None => st.tags_no_list += 1,
            Some(v) if v.len() > 1 => st.tags_multi_code += 1,
            _ => {}
        }
        if t.kind == 0 && !t.top {
            st.nested_block_tags += 1;
        }
        if t.kind == 3 {
            for c in tag_code_names(t).unwrap_or_default() {
                enabled.insert(c);
            }
        }
        if ln.pos[t.comment.0 as usize].0 != ln.pos[t.comment.1 as usize].0 {
            st.multi_line_comments += 1;
        }
    }
    if tags.iter().enumerate().any(|(i, t)| (t.kind == 1 || t.kind == 2) && tags[i + 1..].iter().any(|u| u.kind == 0)) {
        st.line_then_disable += 1;
    }
    let mut c1: BTreeMap<&Diag, usize> = BTreeMap::new();
    for d in &d1 {
        *c1.entry(d).or_default() += 1;
    }
    let mut c0: BTreeMap<&Diag, usize> = BTreeMap::new();
    for d in &d0 {
        *c0.entry(d).or_default() += 1;
    }
    for (d, n0) in &c0 {
        st.diags += 1;
        *st.by_code.entry(d.code.clone()).or_default() += 1;
        if (d.sl, d.sc) == (d.el, d.ec) {
            st.empty_range_diags += 1;
        }
        let mut must: Option<&'static str> = None;
        let mut dont = false;
        let mut leak_sig = "leak";
        for t in &tags {
            let (v, sig) = classify(t, d, &ln, &enabled);
            match v {
                Verdict::Must => {
                    must = Some(sig);
                    if t.kind == 0 && (d.el, d.ec) <= ln.pos[t.comment.0 as usize] {
                        st.must_before_comment += 1;
                    }
                }
                Verdict::DontCare => dont = true,
                Verdict::NoEffect => {
                    // nearest candidate explanation if it turns out to be missing
                    if sig != "other-code" {
                        let after = match t.kind {
                            1 => d.sl == ln.pos[t.comment.1 as usize].0 + 2,
                            2 => d.sl == ln.pos[t.comment.1 as usize].0 + 1,
                            _ => false,
                        };
                        if after {
                            leak_sig = sig;
                            if d.sc == 0 {
                                st.col0_after_scope += 1;
                            }
                        } else if leak_sig == "leak" {
                            leak_sig = sig;
                        }
                    } else if leak_sig == "leak" {
                        leak_sig = "other-code";
                    }
                }
            }
        }
        let n1 = c1.get(d).copied().unwrap_or(0);
        if let Some(sig) = must {
            st.must += 1;
            if n1 != 0 {
                report(sig, format!("{} at {}:{}-{}:{} lies in the scope of a suppression comment that lists it but is still reported", d.code, d.sl, d.sc, d.el, d.ec));
            }
        } else if dont {
            st.dont_care += 1;
        } else {
            st.no_effect += 1;
            if n1 != *n0 {
                report(leak_sig, format!("{} at {}:{}-{}:{} is outside every suppression scope that lists it but is reported {} time(s) instead of {}", d.code, d.sl, d.sc, d.el, d.ec, n1, n0));
            }
        }
    }
    for (d, n1) in &c1 {
        if !c0.contains_key(d) && !enabled.contains(&d.code) {
            report("new-diagnostic", format!("{} at {}:{}-{}:{} appears {} time(s) only when the suppression comments are present", d.code, d.sl, d.sc, d.el, d.ec, n1));
        }
    }
}

// ------------------------------------------------------------------------------- probe: variants and shrinking

fn split_lines(text: &str) -> Vec<String> {
    let mut v = Vec::new();
    let mut cur = String::new();
    let cs: Vec<char> = text.chars().collect();
    let mut i = 0;
    while i < cs.len() {
        cur.push(cs[i]);
        if cs[i] == '\n' || (cs[i] == '\r' && cs.get(i + 1) != Some(&'\n')) {
            v.push(std::mem::take(&mut cur));
        }
        i += 1;
    }
    if !cur.is_empty() {
        v.push(cur);
    }
    v
}

fn violations_of(ws: &mut Ws, text: &str) -> Vec<Value> {
    let mut out = Vec::new();
    let mut st = Stats::default();
    search_one(ws, text, &mut st, &mut out);
    out
}

/// the program itself, then variants with probe statements (four diagnostic codes on one line) inserted before
/// every line at once and before each single line
fn variants(text: &str) -> Vec<String> {
    let lines = split_lines(text);
    let probe = |i: usize| format!("zz{i}(); dep(); need2(1); local zu{i} = 1\n");
    let mut v = vec![text.to_string()];
    let mut all = String::new();
    for (i, l) in lines.iter().enumerate() {
        all.push_str(&probe(i));
        all.push_str(l);
    }
    if !all.ends_with('\n') && !all.ends_with('\r') {
        all.push('\n');
    }
    all.push_str(&probe(lines.len()));
    v.push(all);
    for i in 0..=lines.len().min(60) {
        let mut s = String::new();
        for (j, l) in lines.iter().enumerate() {
            if j == i {
                s.push_str(&probe(i));
            }
            s.push_str(l);
        }
        if i == lines.len() {
            if !s.ends_with('\n') && !s.ends_with('\r') {
                s.push('\n');
            }
            s.push_str(&probe(i));
        }
        v.push(s);
    }
    v
}

/// greedy chunk removal (halving chunk sizes) keeping a violation with the same signature
fn shrink(ws: &mut Ws, text: &str, sig: &str) -> String {
    let mut lines = split_lines(text);
    let mut budget = 400usize;
    let mut chunk = (lines.len() / 2).max(1);
    loop {
        let mut i = 0;
        let mut progressed = false;
        while i < lines.len() && budget > 0 {
            let end = (i + chunk).min(lines.len());
            let cand: String = lines[..i].iter().chain(lines[end..].iter()).cloned().collect();
            budget -= 1;
            if violations_of(ws, &cand).iter().any(|v| v["signature"] == sig) {
                lines.drain(i..end);
                progressed = true;
            } else {
                i += chunk;
            }
        }
        if budget == 0 || (chunk == 1 && !progressed) {
            break;
        }
        if !progressed || chunk > 1 {
            chunk = (chunk / 2).max(1);
        }
    }
    lines.concat()
}

/// used when the correspondence disagrees on a program: look for a property violation on it or near it
fn probe(ws: &mut Ws, text: &str) -> Vec<Value> {
    for (k, cand) in variants(text).into_iter().enumerate() {
        let vs = violations_of(ws, &cand);
        if let Some(first) = vs.first() {
            let sig = first["signature"].as_str().unwrap_or("").to_string();
            let small = shrink(ws, &cand, &sig);
            let mut out: Vec<Value> = violations_of(ws, &small).into_iter().filter(|v| v["signature"] == sig.as_str()).collect();
            for v in out.iter_mut() {
                v["derived_from"] = json!(if k == 0 { "the disagreeing program, shrunk" } else { "a probe-statement variant of the disagreeing program, shrunk" });
                v["original"] = json!(text);
            }
            if !out.is_empty() {
                return out;
            }
            return vs;
        }
    }
    Vec::new()
}

// --------------------------------------------------------------------------------------- correspondence

fn observe(ws: &mut Ws, text: &str) -> Value {
    ws.fresh();
    let cps: Vec<u32> = text.chars().map(|c| c as u32).collect();
    let neutral = neutralise(text);
    let r = guarded(|| {
        let (id0, d0) = diagnose(ws, &neutral)?;
        let (id, d1) = diagnose(ws, text)?;
        Ok::<_, String>((id0, d0, id, d1))
    });
    let (id0, d0, id, d1) = match r {
        Ok(Ok(x)) => x,
        Ok(Err(e)) => return json!({"t": cps, "error": e}),
        Err(e) => {
            *ws = Ws::new();
            return json!({"t": cps, "error": format!("panic: {e}")});
        }
    };
    let tags = tags_of(ws, id);
    let db = ws.ws.analysis.compilation.get_db();
    let idx = db.get_diagnostic_index();
    let len = text.len() as u32;
    // actions as recorded
    let mut acts = Vec::new();
    if let Some(v) = idx.get_diagnostics_actions(id) {
        for a in v {
            let r = a.get_range();
            let code: i64 = match a.get_code() {
                Some(c) => code_index(c) as i64,
                None => -1,
            };
            acts.push(json!([u32::from(r.start()), u32::from(r.end()), code, a.is_disable()]));
        }
    }
    // code universe
    let mut univ: BTreeSet<usize> = BTreeSet::new();
    for t in &tags {
        for c in t.codes.iter().flatten() {
            univ.insert(code_index(*c));
        }
    }
    let to_code = |name: &str| code_index(DiagnosticCode::from_str(name).unwrap_or(DiagnosticCode::None));
    for d in d0.iter().chain(d1.iter()) {
        univ.insert(to_code(&d.code));
    }
    univ.insert(code_index(DiagnosticCode::UnreachableCode));
    let all = DiagnosticCode::all();
    let fdis: Vec<usize> = univ.iter().copied().filter(|c| idx.is_file_disabled(&id, &all[*c])).collect();
    let fen: Vec<usize> = univ.iter().copied().filter(|c| idx.is_file_enabled(&id, &all[*c])).collect();
    // offsets of interest
    let ln = lines_of(text);
    let mut offs: BTreeSet<u32> = BTreeSet::new();
    offs.insert(0);
    offs.insert(len);
    let mut cand: Vec<u32> = Vec::new();
    for o in 1..=len {
        if ln.pos[o as usize].1 == 0 && ln.pos[o as usize].0 != ln.pos[(o - 1) as usize].0 {
            cand.push(o); // line start
        }
    }
    for t in &tags {
        cand.extend_from_slice(&[t.comment.0, t.comment.1]);
        if let Some(b) = t.block {
            cand.extend_from_slice(&[b.0, b.1]);
        }
    }
    // keep the grid small: offsets around the tags first, then line starts near them
    let mut near: Vec<u32> = Vec::new();
    for t in &tags {
        near.extend_from_slice(&[t.comment.0, t.comment.1]);
    }
    cand.sort_by_key(|o| near.iter().map(|n| n.abs_diff(*o)).min().unwrap_or(0));
    for o in cand {
        if offs.len() >= 16 {
            break;
        }
        for d in [0i64, -1, 1] {
            let x = o as i64 + d;
            if x >= 0 && x <= len as i64 + 1 {
                offs.insert(x as u32);
            }
        }
    }
    let offs: Vec<u32> = offs.into_iter().collect();
    let qcodes: Vec<usize> = univ.iter().copied().take(4).collect();
    let mut q = Vec::new();
    for (i, &a) in offs.iter().enumerate() {
        for &b in offs.iter().skip(i) {
            let range = TextRange::new(TextSize::from(a), TextSize::from(b));
            for &c in &qcodes {
                let r = idx.is_file_diagnostic_code_disabled(&id, &all[c], &range);
                q.push(json!([a, b, c, r]));
            }
        }
    }
    // diagnostics as byte ranges
    let conv = |fid: FileId, ds: &Vec<Diag>| -> Option<Vec<Value>> {
        let doc = db.get_vfs().get_document(&fid)?;
        let mut v = Vec::new();
        for d in ds {
            let r = doc.to_rowan_range(lsp_types::Range {
                start: lsp_types::Position { line: d.sl, character: d.sc },
                end: lsp_types::Position { line: d.el, character: d.ec },
            })?;
            v.push((u32::from(r.start()), u32::from(r.end()), to_code(&d.code)));
        }
        v.sort();
        Some(v.into_iter().map(|(a, b, c)| json!([a, b, c])).collect())
    };
    let d0b = conv(id0, &d0);
    let d1b = conv(id, &d1);
    let has_enable = tags.iter().any(|t| t.kind == 3);
    let e2e = d0b.is_some() && d1b.is_some() && !has_enable;
    let tagv: Vec<Value> = tags
        .iter()
        .map(|t| {
            json!({"k": t.kind, "c": [t.comment.0, t.comment.1], "b": t.block.map(|b| vec![b.0, b.1]), "top": t.top,
                   "codes": t.codes.as_ref().map(|v| v.iter().map(|c| code_index(*c)).collect::<Vec<_>>())})
        })
        .collect();
    json!({"t": cps, "text": text, "tags": tagv, "acts": acts, "univ": univ.iter().collect::<Vec<_>>(), "fdis": fdis, "fen": fen,
           "q": q, "d0": d0b.unwrap_or_default(), "d1": d1b.unwrap_or_default(), "e2e": e2e})
}

// ------------------------------------------------------------------------------------------------- main

fn corpus(dir: &str) -> Vec<String> {
    let mut v = Vec::new();
    if let Ok(rd) = std::fs::read_dir(dir) {
        let mut paths: Vec<_> = rd.filter_map(|e| e.ok()).map(|e| e.path()).filter(|p| p.extension().map(|x| x == "json").unwrap_or(false)).collect();
        paths.sort();
        for p in paths {
            if let Ok(s) = std::fs::read_to_string(&p) {
                if let Ok(Value::Array(items)) = serde_json::from_str::<Value>(&s) {
                    for it in items {
                        if let Some(t) = it.get("text").and_then(|t| t.as_str()) {
                            v.push(t.to_string());
                        }
                    }
                }
            }
        }
    }
    v
}

fn main() {
    let args = Args::parse();
    let seed = args.u64("seed", 1);
    let n = args.usize("n", 100);
    let dir = args.str("corpus", "/verif/corpus/C19");
    let mut rng = Rng::new(seed ^ 0xC19);
    let mut ws = Ws::new();
    match args.cmd.as_str() {
        "corr" => {
            for t in corpus(&dir) {
                println!("{}", observe(&mut ws, &t));
            }
            for _ in 0..n {
                let (t, _) = gen_program(&mut rng);
                println!("{}", observe(&mut ws, &t));
            }
        }
        "search" => {
            let mut out = Vec::new();
            let mut st = Stats::default();
            let mut distinct: HashSet<String> = HashSet::new();
            let fixed = corpus(&dir);
            let nfixed = fixed.len();
            let mut cases = 0usize;
            for (i, (t, eol)) in fixed.into_iter().map(|t| (t, Eol::Lf)).chain((0..n).map(|_| gen_program(&mut rng))).enumerate() {
                let before = st.with_tag_and_diag;
                search_one(&mut ws, &t, &mut st, &mut out);
                cases += 1;
                if st.with_tag_and_diag > before {
                    distinct.insert(t.clone());
                }
                if i >= nfixed {
                    st.eol[eol as usize] += 1;
                }
                if out.len() > 60 {
                    break;
                }
            }
            for v in &out {
                println!("{}", v);
            }
            println!(
                "{}",
                json!({"summary": {"cases": cases, "analysed": st.programs, "distinct_nontrivial": distinct.len(), "corpus": nfixed,
                    "tags": {"disable": st.tags[0], "disable-next-line": st.tags[1], "disable-line": st.tags[2], "enable": st.tags[3], "other": st.tags[4],
                             "without_code_list": st.tags_no_list, "several_codes": st.tags_multi_code, "disable_in_nested_block": st.nested_block_tags, "programs_line_level_then_later_disable": st.line_then_disable,
                             "multi_line_comment": st.multi_line_comments},
                    "diagnostics_without_comments": st.diags, "demanded_suppressed": st.must, "demanded_suppressed_before_its_disable_comment": st.must_before_comment, "demanded_unaffected": st.no_effect, "undecided_by_property": st.dont_care,
                    "column0_on_first_line_after_scope": st.col0_after_scope, "empty_range_diagnostics": st.empty_range_diags,
                    "eol": {"lf": st.eol[0], "crlf": st.eol[1], "cr": st.eol[2], "mixed": st.eol[3]}, "by_code": st.by_code}})
            );
        }
        "one" => {
            let t: String = serde_json::from_str(&args.str("text-json", "\"\"")).unwrap_or_default();
            println!("{}", observe(&mut ws, &t));
            let mut out = Vec::new();
            let mut st = Stats::default();
            search_one(&mut ws, &t, &mut st, &mut out);
            for v in &out {
                println!("{}", v);
            }
        }
        "probe" => {
            let t: String = serde_json::from_str(&args.str("text-json", "\"\"")).unwrap_or_default();
            for v in probe(&mut ws, &t) {
                println!("{}", v);
            }
        }
        _ => {
            eprintln!("usage: c19 corr|search|one|probe");
            std::process::exit(2);
        }
    }
}
