//! probe (temporary first version)
use emmylua_code_analysis::{DiagnosticCode, VirtualWorkspace};
use emmylua_parser::{LuaAstNode, LuaAstToken, LuaBlock, LuaChunk, LuaComment, LuaDocTagDiagnostic};
use serde_json::{Value, json};
use std::str::FromStr;
use tokio_util::sync::CancellationToken;
use vh_common::Args;

fn main() {
    let args = Args::parse();
    let t: String = serde_json::from_str(&args.str("text-json", "\"\"")).unwrap();
    let mut ws = VirtualWorkspace::new();
    ws.def("---@deprecated\nfunction dep() end\n---@param a number\n---@param b number\nfunction need2(a, b) end\n");
    let id = ws.def(&t);
    let ds = ws.analysis.diagnose_file(id, CancellationToken::new());
    let db = ws.analysis.compilation.get_db();
    let doc = db.get_vfs().get_document(&id).unwrap();
    for d in ds.unwrap_or_default() {
        let r = doc.to_rowan_range(d.range);
        println!("{:?} {:?} {:?} {}", d.code, d.range, r, d.message);
    }
    let idx = db.get_diagnostic_index();
    if let Some(acts) = idx.get_diagnostics_actions(id) {
        for a in acts {
            println!("action {:?} {:?} disable={}", a.get_range(), a.get_code(), a.is_disable());
        }
    }
    let tree = db.get_vfs().get_syntax_tree(&id).unwrap();
    let chunk = tree.get_chunk_node();
    for tag in chunk.descendants::<LuaDocTagDiagnostic>() {
        let comment = tag.ancestors::<LuaComment>().next().unwrap();
        let block = comment.ancestors::<LuaBlock>().next();
        let v: Value = json!({
            "action": tag.get_action_token().map(|t| t.get_text().to_string()),
            "comment": format!("{:?}", comment.get_range()),
            "block": block.as_ref().map(|b| format!("{:?}", b.get_range())),
            "file": block.as_ref().map(|b| b.get_parent::<LuaChunk>().is_some()),
            "codes": tag.get_code_list().map(|l| l.get_codes().map(|c| DiagnosticCode::from_str(c.get_name_text()).unwrap().get_name().to_string()).collect::<Vec<_>>()),
        });
        println!("tag {}", v);
    }
}
