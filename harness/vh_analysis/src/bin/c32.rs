//! C32 harness: configuration merging is deterministic and later files win.
//!   c32 search --seed S --n N [--procs P]   -> JSON lines: violations of the property oracle + {"summary":…}
//!   c32 eval                                 -> stdin: one case per line; stdout: load_configs_raw + load_configs per line (fresh-process runs)
//!   c32 one --case-json '{…}'                -> replay one case ({"settings":[[[path,value]…]…], "spellings":[…]} or {"files":[…]})
//! The oracle is computed from the *settings* each generated file is meant to carry (c31_common.rs: expected_merge), never from
//! the Coq model.
#[path = "../c31_common.rs"]
mod common;
use common::*;
use serde_json::{Value, json};
use std::io::{BufRead, Write};
use vh_common::{Args, Rng};

fn settings_to_json(fs: &[Vec<Setting>]) -> Value {
    Value::Array(fs.iter().map(|f| Value::Array(f.iter().map(|s| json!([s.path.join("."), s.val])).collect())).collect())
}

fn settings_from_json(v: &Value) -> Vec<Vec<Setting>> {
    v.as_array()
        .map(|fs| {
            fs.iter()
                .map(|f| {
                    f.as_array()
                        .map(|ss| ss.iter().map(|s| Setting { path: s[0].as_str().unwrap_or("").split('.').map(|x| x.to_string()).collect(), val: s[1].clone() }).collect())
                        .unwrap_or_default()
                })
                .collect()
        })
        .unwrap_or_default()
}

fn load_case(files: &[Value]) -> Value {
    json!({"kind":"load","files": files.iter().cloned().map(json_file).collect::<Vec<_>>()})
}

fn dup_in(a: &[Value]) -> bool {
    a.iter().enumerate().any(|(i, x)| a[..i].contains(x))
}

/// oracle for one list of files given by their settings and one choice of spellings
fn check_settings(sc: &mut Scratch, settings: &[Vec<Setting>], rendered: &[Value], out: &mut Vec<Value>) -> Option<Value> {
    let case_json = json!({"settings": settings_to_json(settings), "files": rendered});
    let mut report = |sig: &str, what: String| out.push(json!({"signature": sig, "what": what, "case": case_json}));
    let case = load_case(rendered);
    let raw = match eval_raw(sc, &case) {
        Ok(v) => v,
        Err(e) => {
            report("panic", format!("load_configs_raw panicked: {e}"));
            return None;
        }
    };
    let expected = expected_merge(settings);
    let mixed = {
        // do two files spell one setting differently?
        let flat: Vec<bool> = rendered.iter().map(has_dotted_key).collect();
        flat.iter().any(|x| *x) && (flat.iter().any(|x| !*x) || rendered.len() > 1)
    };
    let mut bad = false;
    for s in &expected {
        let got = lookup(&raw, &s.path);
        let setters = settings.iter().filter(|f| f.iter().any(|x| x.path == s.path)).count();
        match (&s.val, got) {
            (Value::Array(exp), Some(Value::Array(g))) => {
                if g != exp {
                    bad = true;
                    if dup_in(g) && !dup_in(exp) {
                        report("array-duplicates", format!("{}: merged array {} contains duplicates (expected {})", s.path.join("."), Value::Array(g.clone()), Value::Array(exp.clone())));
                    } else {
                        report(if mixed { "array-merge-mixed-spelling" } else { "array-merge-wrong" },
                               format!("{}: merged array {} but the files in order give {}", s.path.join("."), Value::Array(g.clone()), Value::Array(exp.clone())));
                    }
                }
            }
            (exp, Some(g)) if g == exp => {}
            (exp, g) => {
                bad = true;
                let sig = if setters >= 2 && mixed { "mixed-spelling-later-file-loses" } else if setters >= 2 { "later-file-loses" } else { "setting-lost" };
                report(sig, format!("{} = {} but the last file that sets it says {}", s.path.join("."), g.map(|x| x.to_string()).unwrap_or("<absent>".into()), exp));
            }
        }
    }
    if !bad && raw != nested_of(&expected) {
        report("result-differs-from-settings", format!("load_configs_raw = {raw} but the settings denote {}", nested_of(&expected)));
    }
    // typed level: all generated values are well-typed, so the typed configuration carries the same values
    if let Ok(t) = eval_typed(sc, &case) {
        for s in &expected {
            if s.path[0] == "x" || s.path[0] == "p" || s.path[0] == "Lua" {
                continue;
            }
            if lookup(&t, &s.path) != Some(&s.val) {
                report("typed-setting-wrong", format!("typed configuration has {} = {:?}, expected {}", s.path.join("."), lookup(&t, &s.path), s.val));
                break;
            }
        }
    }
    Some(raw)
}

fn search_case(sc: &mut Scratch, rng: &mut Rng, settings: &[Vec<Setting>], out: &mut Vec<Value>) -> Vec<Value> {
    // three renderings: random chunking, all flat / all nested alternating per file, the opposite alternation
    let r0: Vec<Value> = settings.iter().map(|f| render(rng, f, 2)).collect();
    let r1: Vec<Value> = settings.iter().enumerate().map(|(i, f)| render(rng, f, i % 2)).collect();
    let r2: Vec<Value> = settings.iter().enumerate().map(|(i, f)| render(rng, f, (i + 1) % 2)).collect();
    let a = check_settings(sc, settings, &r0, out);
    let b = check_settings(sc, settings, &r1, out);
    let c = check_settings(sc, settings, &r2, out);
    if let (Some(a), Some(b), Some(c)) = (&a, &b, &c) {
        if a != b || b != c {
            out.push(json!({"signature": "spelling-changes-meaning", "what": format!("the same settings spelled differently load differently: {a} / {b} / {c}"),
                "case": {"settings": settings_to_json(settings), "files": r1, "files2": r2}}));
        }
    }
    // same files, same order, again (fresh hash maps)
    if let Some(a) = &a {
        for _ in 0..2 {
            if let Ok(a2) = eval_raw(sc, &load_case(&r0)) {
                if &a2 != a {
                    out.push(json!({"signature": "nondeterministic", "what": format!("two loads of the same files differ: {a} / {a2}"),
                        "case": {"settings": settings_to_json(settings), "files": r0}}));
                    break;
                }
            }
        }
    }
    vec![load_case(&r0), load_case(&r1)]
}

fn eval_line(sc: &mut Scratch, case: &Value) -> Value {
    let raw = match eval_raw(sc, case) {
        Ok(v) => json!({"V": v}),
        Err(e) => json!({"P": classify_panic(&e)}),
    };
    let typed = match eval_typed(sc, case) {
        Ok(v) => json!({"V": v}),
        Err(e) => json!({"P": classify_panic(&e)}),
    };
    json!([raw, typed])
}

fn fixed_settings() -> Vec<Vec<Vec<Setting>>> {
    let s = |p: &str, v: Value| Setting { path: p.split('.').map(|x| x.to_string()).collect(), val: v };
    vec![
        vec![vec![s("diagnostics.enable", json!(false))], vec![s("diagnostics.enable", json!(true))]],
        vec![vec![s("diagnostics.enable", json!(true))], vec![s("diagnostics.enable", json!(false))]],
        vec![vec![s("diagnostics.globals", json!(["a"]))], vec![s("diagnostics.globals", json!(["a"]))]],
        vec![vec![s("diagnostics.globals", json!(["a", "b"]))], vec![s("diagnostics.globals", json!(["b", "c"]))], vec![s("diagnostics.globals", json!(["c", "a", "d"]))]],
        vec![vec![s("x.y.z", json!(1)), s("x.y.w", json!(["a"]))], vec![s("x.y.z", json!(2))], vec![s("x.y.w", json!(["a", "b"])), s("x.q", json!("s"))]],
        vec![vec![s("completion.enable", json!(false)), s("completion.autoRequire", json!(false))]],
    ]
}

/// hostile single/multi file cases for the determinism oracle (prefix collisions, duplicates through two spellings)
fn gen_hostile(rng: &mut Rng) -> Value {
    let n = 1 + rng.below(3);
    let files: Vec<Value> = (0..n).map(|_| gen_junk_object(rng, 2)).collect();
    load_case(&files)
}

fn main() {
    let args = Args::parse();
    let seed = args.u64("seed", 1);
    let n = args.usize("n", 100);
    let procs = args.usize("procs", 2);
    let mut rng = Rng::new(seed ^ 0xC32);
    setup_env();
    let mut sc = Scratch::new("c32");
    match args.cmd.as_str() {
        "eval" => {
            let stdin = std::io::stdin();
            let stdout = std::io::stdout();
            let mut o = stdout.lock();
            for l in stdin.lock().lines() {
                let l = l.unwrap();
                if l.trim().is_empty() {
                    continue;
                }
                let c: Value = serde_json::from_str(&l).unwrap();
                writeln!(o, "{}", eval_line(&mut sc, &c)).unwrap();
            }
        }
        "search" => {
            let mut out = Vec::new();
            let mut distinct = std::collections::HashSet::new();
            let mut det_cases: Vec<Value> = vec![
                load_case(&[json!({"a":1,"a.b":2})]),
                load_case(&[json!({"a":null,"a.b":2})]),
                load_case(&[json!({"b":[1],"b.a":{"c":2}}), json!({"b.a.c":3,"b":{"a.c":4}})]),
            ];
            let (mut cases, mut multi, mut arrays, mut hostile) = (0usize, 0usize, 0usize, 0usize);
            let mut all: Vec<Vec<Vec<Setting>>> = fixed_settings();
            for _ in 0..n {
                let nf = 1 + rng.below(3);
                all.push((0..nf).map(|_| gen_settings(&mut rng, 6)).collect());
            }
            for settings in &all {
                let cs = search_case(&mut sc, &mut rng, settings, &mut out);
                cases += 1;
                if settings.len() >= 2 { multi += 1; }
                if settings.iter().flatten().any(|s| s.val.is_array()) { arrays += 1; }
                distinct.insert(hash_of(&settings_to_json(settings)));
                det_cases.extend(cs);
                if out.len() > 40 {
                    break;
                }
            }
            for _ in 0..n {
                det_cases.push(gen_hostile(&mut rng));
                hostile += 1;
            }
            // determinism across fresh processes: this process and `procs` children evaluate every case
            let mine: Vec<String> = det_cases.iter().map(|c| eval_line(&mut sc, c).to_string()).collect();
            let exe = std::env::current_exe().unwrap();
            let input: String = det_cases.iter().map(|c| format!("{}\n", c)).collect();
            let mut nondet = 0usize;
            for p in 0..procs {
                let mut child = std::process::Command::new(&exe)
                    .arg("eval")
                    .stdin(std::process::Stdio::piped())
                    .stdout(std::process::Stdio::piped())
                    .stderr(std::process::Stdio::null())
                    .spawn()
                    .expect("spawn self");
                let mut si = child.stdin.take().unwrap();
                let inp = input.clone();
                let th = std::thread::spawn(move || {
                    let _ = si.write_all(inp.as_bytes());
                });
                let o = child.wait_with_output().expect("child");
                let _ = th.join();
                let theirs: Vec<&str> = std::str::from_utf8(&o.stdout).unwrap_or("").lines().collect();
                if theirs.len() != mine.len() {
                    out.push(json!({"signature": "fresh-process-crashed", "what": format!("fresh process {p} evaluated {} of {} cases", theirs.len(), mine.len()), "case": {}}));
                    continue;
                }
                for (i, (a, b)) in mine.iter().zip(theirs.iter()).enumerate() {
                    if a != b && nondet < 5 {
                        nondet += 1;
                        out.push(json!({"signature": "nondeterministic", "what": format!("the same files in the same order load differently in a fresh process: {a} / {b}"), "case": det_cases[i]}));
                    }
                }
            }
            for v in &out {
                println!("{}", v);
            }
            println!("{}", json!({"summary": {"cases": cases, "distinct_nontrivial": distinct.len(), "fixed_nontrivial": fixed_settings().len(), "multi_file": multi, "with_arrays": arrays,
                "renderings_per_case": 3, "determinism_cases": det_cases.len(), "hostile_determinism_cases": hostile, "fresh_processes": procs}}));
        }
        "one" => {
            let c: Value = serde_json::from_str(&args.str("case-json", "{}")).unwrap();
            let mut out = Vec::new();
            if c.get("settings").is_some() {
                let st = settings_from_json(&c["settings"]);
                if let Some(files) = c.get("files").and_then(|f| f.as_array()) {
                    let r = check_settings(&mut sc, &st, files, &mut out);
                    println!("{}", json!({"raw": r}));
                }
                search_case(&mut sc, &mut rng, &st, &mut out);
            } else {
                let a = eval_line(&mut sc, &c);
                println!("{}", a);
                for _ in 0..8 {
                    let b = eval_line(&mut sc, &c);
                    if a != b {
                        out.push(json!({"signature": "nondeterministic", "what": format!("two loads differ: {a} / {b}"), "case": c}));
                        break;
                    }
                }
            }
            for v in &out {
                println!("{}", v);
            }
        }
        _ => {
            eprintln!("usage: c32 search|eval|one");
            std::process::exit(2);
        }
    }
}
