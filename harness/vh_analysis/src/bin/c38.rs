//! C38 harness (dynamic half, exploration): N threads query one shared `&EmmyLuaAnalysis` concurrently
//! (diagnose_file, semantic info of every identifier token, infer_expr of every expression — what the server does under
//! a read lock and what emmylua_check does) and every result is compared with the result computed sequentially.
//!   c38 search --seed S --n WORKLOADS [--threads T] [--reps R] [--std 0|1]
//!       -> JSON lines {"signature","what",..} for mismatches / panics, final {"summary":..}
//!   c38 one --seed S --threads T --reps R     (replay of one workload seed; schedules are not reproducible, so it repeats)
//! The static half of the property is checked elsewhere: rustc compiles the H3 assertions (crates/emmylua_code_analysis/src/
//! verif_sync.rs) whenever this crate is built, and the Coq obligation runs on the regenerated type graph.
use emmylua_code_analysis::{EmmyLuaAnalysis, FileId, RenderLevel, VirtualWorkspace, humanize_type};
use emmylua_parser::{LuaAstNode, LuaExpr, LuaKind, LuaTokenKind};
use rowan::NodeOrToken;
use serde_json::{Value, json};
use std::collections::HashSet;
use std::sync::atomic::{AtomicUsize, Ordering};
use tokio_util::sync::CancellationToken;
use vh_common::{Args, Rng, guarded};

// the H3 assertions are private to emmylua_code_analysis; this one is the harness's own need:
const _: fn() = || {
    fn assert_sync<T: Sync + Send>() {}
    assert_sync::<EmmyLuaAnalysis>();
};

const NAMES: &[&str] = &["alpha", "beta", "gamma", "delta", "omega", "count", "name", "items", "value", "node"];
const TYPES: &[&str] = &["string", "integer", "number", "boolean", "string[]", "table<string, integer>", "fun(x: integer): string", "string?", "integer|string"];

fn gen_file(rng: &mut Rng, idx: usize, nfiles: usize) -> String {
    let mut s = String::new();
    let cls = format!("Cls{}", idx);
    s.push_str(&format!("---@class {}\n", cls));
    if idx > 0 && rng.chance(1, 2) {
        s = format!("---@class {}: Cls{}\n", cls, rng.below(idx));
    }
    let nf = 1 + rng.below(4);
    let mut fields = Vec::new();
    for _ in 0..nf {
        let f = *rng.pick(NAMES);
        let t = *rng.pick(TYPES);
        s.push_str(&format!("---@field {} {}\n", f, t));
        fields.push(f);
    }
    s.push_str(&format!("local {} = {{}}\n\n", cls));
    // requires of other modules
    let nreq = rng.below(3);
    let mut reqs = Vec::new();
    for _ in 0..nreq {
        let j = rng.below(nfiles);
        if j != idx {
            s.push_str(&format!("local m{} = require(\"mod{}\")\n", j, j));
            reqs.push(j);
        }
    }
    // methods
    let nm = 1 + rng.below(3);
    for k in 0..nm {
        let p = *rng.pick(NAMES);
        let t = *rng.pick(TYPES);
        let r = *rng.pick(TYPES);
        s.push_str(&format!("---@param {} {}\n---@return {}\nfunction {}:m{}({})\n", p, t, r, cls, k, p));
        match rng.below(5) {
            0 => s.push_str(&format!("  if type({}) == \"string\" then\n    return {}\n  end\n  return self.{}\n", p, p, fields[0])),
            1 => s.push_str(&format!("  local t = {{}}\n  for i = 1, 3 do t[i] = {} end\n  return t\n", p)),
            2 => s.push_str(&format!("  local u = undefined_global_{}\n  return u\n", k)),
            3 => s.push_str(&format!("  local v = self.{}\n  if v then return v end\n  return nil\n", fields[rng.below(fields.len())])),
            _ => s.push_str(&format!("  return {}\n", p)),
        }
        s.push_str("end\n\n");
    }
    // generic function + uses
    if rng.chance(1, 2) {
        s.push_str("---@generic T\n---@param x T\n---@return T[]\nlocal function wrap(x) return { x } end\n");
        s.push_str(&format!("local w1 = wrap(1)\nlocal w2 = wrap(\"s\")\nlocal w3 = wrap({})\n", cls));
    }
    // uses of other modules
    for j in &reqs {
        s.push_str(&format!("local o{} = m{}.new()\nlocal r{} = o{}:m0(1)\n", j, j, j, j));
        if rng.chance(1, 2) {
            s.push_str(&format!("local bad{} = o{}.no_such_field\n", j, j));
        }
    }
    // flow narrowing and a few diagnostics
    s.push_str(&format!("---@type {}?\nlocal maybe = nil\nif maybe then\n  local a = maybe.{}\nend\n", cls, fields[0]));
    if rng.chance(1, 2) {
        s.push_str("local unused_local = 1\n");
    }
    if rng.chance(1, 3) {
        s.push_str(&format!("---@type string\nlocal wrong = 1\n{}:m0()\n", cls));
    }
    if rng.chance(1, 3) {
        s.push_str("local k = nil\nwhile not k do k = 'x' end\nlocal up = k:upper()\n");
    }
    s.push_str(&format!("function {}.new()\n  ---@type {}\n  local o = setmetatable({{}}, {{ __index = {} }})\n  return o\nend\n", cls, cls, cls));
    s.push_str(&format!("return {}\n", cls));
    s
}

fn canon_diag(d: &lsp_types::Diagnostic) -> String {
    let code = match &d.code {
        Some(lsp_types::NumberOrString::String(s)) => s.clone(),
        Some(lsp_types::NumberOrString::Number(n)) => n.to_string(),
        None => String::new(),
    };
    format!(
        "{}:{}-{}:{} [{}] {:?} {}",
        d.range.start.line, d.range.start.character, d.range.end.line, d.range.end.character, code, d.severity, d.message
    )
}

/// everything one reader computes for one file, as canonical strings; (kind, key, value)
fn query_file(analysis: &EmmyLuaAnalysis, file_id: FileId) -> Vec<(String, String)> {
    let mut out = Vec::new();
    let mut diags: Vec<String> = analysis
        .diagnose_file(file_id, CancellationToken::new())
        .unwrap_or_default()
        .iter()
        .map(canon_diag)
        .collect();
    diags.sort();
    out.push(("diagnostics".to_string(), diags.join("\n")));
    if let Some(model) = analysis.compilation.get_semantic_model(file_id) {
        let db = model.get_db();
        let root = model.get_root().clone();
        let mut ntok = 0;
        for el in root.syntax().descendants_with_tokens() {
            if let NodeOrToken::Token(tok) = &el {
                if tok.kind() == LuaKind::Token(LuaTokenKind::TkName) && ntok < 400 {
                    ntok += 1;
                    let off = u32::from(tok.text_range().start());
                    let v = match model.get_semantic_info(NodeOrToken::Token(tok.clone())) {
                        Some(info) => format!("{} / {:?}", humanize_type(db, &info.typ, RenderLevel::Detailed), info.semantic_decl),
                        None => "none".to_string(),
                    };
                    out.push((format!("semantic@{}", off), v));
                }
            }
        }
        let mut nexpr = 0;
        for expr in root.descendants::<LuaExpr>() {
            if nexpr >= 400 {
                break;
            }
            nexpr += 1;
            let off = u32::from(expr.syntax().text_range().start());
            let end = u32::from(expr.syntax().text_range().end());
            let v = match model.infer_expr(expr) {
                Ok(t) => humanize_type(db, &t, RenderLevel::Detailed),
                Err(e) => format!("err {:?}", e),
            };
            out.push((format!("infer@{}..{}", off, end), v));
        }
    }
    out
}

struct Workload {
    ws: VirtualWorkspace,
    files: Vec<FileId>,
    sources: Vec<String>,
}

fn build_workload(rng: &mut Rng, with_std: bool) -> Workload {
    let mut ws = if with_std { VirtualWorkspace::new_with_init_std_lib() } else { VirtualWorkspace::new() };
    ws.enable_full_diagnostic();
    let nfiles = 4 + rng.below(9);
    let mut files = Vec::new();
    let mut sources = Vec::new();
    for i in 0..nfiles {
        let src = gen_file(rng, i, nfiles);
        let id = ws.def_file(&format!("mod{}.lua", i), &src);
        files.push(id);
        sources.push(src);
    }
    Workload { ws, files, sources }
}

struct RunStats {
    queries: usize,
    violations: Vec<Value>,
}

fn run_workload(seed: u64, wl: &Workload, threads: usize, reps: usize) -> RunStats {
    let analysis: &EmmyLuaAnalysis = &wl.ws.analysis;
    // sequential reference
    let mut violations = Vec::new();
    let reference: Vec<Vec<(String, String)>> = match guarded(|| wl.files.iter().map(|f| query_file(analysis, *f)).collect()) {
        Ok(r) => r,
        Err(m) => {
            return RunStats { queries: 0, violations: vec![json!({"signature": "panic-sequential", "what": format!("sequential query panicked: {}", m), "seed": seed})] };
        }
    };
    let nq: usize = reference.iter().map(|r| r.len()).sum();
    let counter = AtomicUsize::new(0);
    let results: Vec<Vec<Value>> = std::thread::scope(|sc| {
        let mut handles = Vec::new();
        for t in 0..threads {
            let reference = &reference;
            let files = &wl.files;
            let counter = &counter;
            let h = std::thread::Builder::new()
                .stack_size(64 << 20)
                .spawn_scoped(sc, move || {
                    let mut v = Vec::new();
                    let mut rng = Rng::new(seed ^ (t as u64 + 1).wrapping_mul(0x9E37));
                    for rep in 0..reps {
                        // every thread walks the files in its own order so that different files are queried at the same time
                        let mut order: Vec<usize> = (0..files.len()).collect();
                        for i in (1..order.len()).rev() {
                            order.swap(i, rng.below(i + 1));
                        }
                        for &fi in &order {
                            let got = guarded(|| query_file(analysis, files[fi]));
                            counter.fetch_add(1, Ordering::Relaxed);
                            match got {
                                Err(m) => v.push(json!({"signature": "panic-concurrent", "what": format!("query of file {} panicked in thread {} (rep {}): {}", fi, t, rep, m), "file": fi})),
                                Ok(got) => {
                                    let want = &reference[fi];
                                    if &got != want {
                                        let mut what = format!("{} results vs {} sequentially", got.len(), want.len());
                                        let mut kind = "shape".to_string();
                                        for (g, w) in got.iter().zip(want.iter()) {
                                            if g != w {
                                                kind = g.0.split('@').next().unwrap_or("").to_string();
                                                what = format!("{}: concurrent {:?} vs sequential {:?}", g.0, g.1, w.1);
                                                break;
                                            }
                                        }
                                        v.push(json!({"signature": format!("concurrent-mismatch:{}", kind), "what": format!("file {} thread {} rep {}: {}", fi, t, rep, what), "file": fi}));
                                    }
                                }
                            }
                        }
                    }
                    v
                })
                .unwrap();
            handles.push(h);
        }
        handles.into_iter().map(|h| h.join().unwrap_or_else(|_| vec![json!({"signature": "panic-concurrent", "what": "reader thread died"})])).collect()
    });
    for v in results {
        violations.extend(v);
    }
    // the shared analysis must be unchanged by the readers: same answers afterwards
    match guarded(|| wl.files.iter().map(|f| query_file(analysis, *f)).collect::<Vec<_>>()) {
        Ok(after) => {
            if after != reference {
                violations.push(json!({"signature": "state-changed-by-readers", "what": "sequential results after the concurrent phase differ from those before it"}));
            }
        }
        Err(m) => violations.push(json!({"signature": "panic-sequential", "what": format!("sequential re-query panicked: {}", m)})),
    }
    for v in violations.iter_mut() {
        v["seed"] = json!(seed);
        v["threads"] = json!(threads);
        v["reps"] = json!(reps);
    }
    RunStats { queries: nq * (threads * reps + 2), violations }
}

fn main() {
    let args = Args::parse();
    let seed = args.u64("seed", 1);
    let n = args.usize("n", 3);
    let threads = args.usize("threads", 8);
    let reps = args.usize("reps", 3);
    let std_every = args.usize("std-every", 3);
    match args.cmd.as_str() {
        "search" => {
            let (mut files, mut queries, mut nviol, mut with_std, mut diags) = (0usize, 0usize, 0usize, 0usize, 0usize);
            let mut distinct: HashSet<String> = HashSet::new();
            let mut seen: HashSet<String> = HashSet::new();
            for w in 0..n {
                let wseed = seed.wrapping_mul(1_000_003).wrapping_add(w as u64);
                let mut rng = Rng::new(wseed ^ 0xC38);
                let use_std = std_every > 0 && w % std_every == std_every - 1;
                with_std += use_std as usize;
                let wl = build_workload(&mut rng, use_std);
                files += wl.files.len();
                let st = run_workload(wseed, &wl, threads, reps);
                queries += st.queries;
                for f in &wl.files {
                    diags += wl.ws.analysis.diagnose_file(*f, CancellationToken::new()).map(|d| d.len()).unwrap_or(0);
                }
                distinct.insert(wl.sources.join("\u{1}"));
                for v in st.violations {
                    nviol += 1;
                    let sig = v["signature"].as_str().unwrap_or("").to_string();
                    if seen.insert(sig) {
                        let mut v = v;
                        v["use_std"] = json!(use_std);
                        println!("{}", v);
                    }
                }
            }
            println!(
                "{}",
                json!({"summary": {"cases": n, "files": files, "threads": threads, "reps": reps, "queries": queries,
                    "distinct_nontrivial": distinct.len(), "workloads_with_std": with_std, "diagnostics_in_workloads": diags, "violations": nviol}})
            );
        }
        "one" => {
            let mut rng = Rng::new(seed ^ 0xC38);
            let wl = build_workload(&mut rng, args.usize("std", 0) == 1);
            let st = run_workload(seed, &wl, threads, reps);
            for v in st.violations {
                println!("{}", v);
            }
            println!("{}", json!({"summary": {"files": wl.files.len(), "queries": st.queries}}));
        }
        _ => {
            eprintln!("usage: c38 search|one");
            std::process::exit(2);
        }
    }
}
