//! C03 harness: valid Lua is never reported as a syntax error.
//!   c03 corr   --seed S --n N     -> JSON lines of implementation observations for the Coq models:
//!        {"k":"prog", level, toks, errs, tree, depth}   grammar-generated programs (valid by construction)
//!        {"k":"mut",  level, toks, errs}                single-token mutants of them (acceptance only)
//!        {"k":"lex",  text, is_string, kind, len, lex_err, chk_err}   literals (valid and mutated)
//!   c03 search --seed S --n N     -> JSON lines {"signature","what",case} for valid programs that get a parser
//!                                    error or a `syntax-error` diagnostic from the real diagnose_file, + a summary
//!   c03 one --level L --text-json '"..."'  -> observations of one text (replay)
//! The generator mirrors coq/theories/C03/Spec.v (all statement and expression forms of Lua 5.1-5.4) and adds the
//! lexical variety of the manual §3.1: every numeral form, every escape, long brackets of all levels, comments.
use emmylua_code_analysis::{EmmyLuaAnalysis, Emmyrc, FileId, file_path_to_uri};
use emmylua_parser::{
    LuaAstNode, LuaKind, LuaLanguageLevel, LuaLexer, LuaParseErrorKind, LuaParser, LuaSyntaxKind, LuaSyntaxNode, LuaTokenKind,
    ParserConfig, Reader, float_token_value, int_token_value,
};
use lsp_types::NumberOrString;
use serde_json::{Value, json};
use std::collections::{HashMap, HashSet};
use std::path::PathBuf;
use std::sync::Arc;
use tokio_util::sync::CancellationToken;
use vh_common::{Args, Rng, guarded};

const LEVELS: &[(&str, &str)] = &[("5.1", "Lua5.1"), ("5.2", "Lua5.2"), ("5.3", "Lua5.3"), ("5.4", "Lua5.4")];

fn level_of(s: &str) -> LuaLanguageLevel {
    match s {
        "5.1" => LuaLanguageLevel::Lua51,
        "5.2" => LuaLanguageLevel::Lua52,
        "5.3" => LuaLanguageLevel::Lua53,
        _ => LuaLanguageLevel::Lua54,
    }
}
fn lvnum(s: &str) -> u32 {
    match s {
        "5.1" => 51,
        "5.2" => 52,
        "5.3" => 53,
        _ => 54,
    }
}

// ------------------------------------------------------------------------------------------------
// generator (valid by construction)
// ------------------------------------------------------------------------------------------------
struct Gen<'a> {
    rng: &'a mut Rng,
    lv: u32,
    out: String,
    label_id: usize,
    const_id: usize,
    /// last emitted token text (to decide about separators) and whether it ended an expression
    need_sep: bool,
}

const NAMES: &[&str] = &["a", "b", "x", "y", "t", "f", "g", "print", "require", "assert", "type", "self", "_", "_G", "v1", "goto_", "Än"];

impl<'a> Gen<'a> {
    fn new(rng: &'a mut Rng, lv: u32) -> Self {
        Gen { rng, lv, out: String::new(), label_id: 0, const_id: 0, need_sep: false }
    }
    fn sp(&mut self) {
        // trivia between tokens: spaces, newlines, comments (all forms)
        match self.rng.below(40) {
            0 => self.out.push_str("\n"),
            1 => self.out.push_str("\r\n"),
            2 => self.out.push_str("  \t"),
            3 => self.out.push_str(" -- c\n"),
            4 => self.out.push_str(" --[[ long\ncomment ]] "),
            5 => self.out.push_str(" --[==[ ]] ]=] ]==] "),
            6 => self.out.push_str(" --[ not long\n"),
            7 => self.out.push_str("\n\n"),
            8 => {
                let c = long_bracket(self.rng);
                self.out.push_str(" --");
                self.out.push_str(&c);
                self.out.push(' ');
            }
            _ => self.out.push(' '),
        }
    }
    fn tk(&mut self, s: &str) {
        self.sp();
        self.out.push_str(s);
    }
    fn name(&mut self) -> String {
        let n = *self.rng.pick(NAMES);
        if n == "goto_" {
            // `goto` is an ordinary name at 5.1
            return if self.lv == 51 { "goto".to_string() } else { "gx".to_string() };
        }
        if n == "Än" {
            return "n2".to_string();
        }
        n.to_string()
    }
    fn number(&mut self) -> String {
        let lv = self.lv;
        let r = &mut *self.rng;
        fn digs(r: &mut Rng, n: usize) -> String {
            (0..n).map(|_| (b'0' + r.below(10) as u8) as char).collect()
        }
        fn hex(r: &mut Rng, n: usize) -> String {
            (0..n).map(|_| *r.pick(&['0', '1', '9', 'a', 'f', 'A', 'F', 'e', 'E', '7'])).collect()
        }
        fn exp(r: &mut Rng, c: char) -> String {
            let c = if r.chance(1, 2) { c } else { c.to_ascii_uppercase() };
            let sign = *r.pick(&["", "+", "-"]);
            let n = 1 + r.below(3);
            format!("{}{}{}", c, sign, digs(r, n))
        }
        let (n1, n2, n3) = (1 + r.below(3), r.below(3), 1 + r.below(6));
        match r.below(14) {
            0 => digs(r, n3),
            1 => format!("{}.", digs(r, n1)),
            2 => {
                let a = digs(r, n1);
                let b = digs(r, 1 + n2);
                format!("{}.{}", a, b)
            }
            3 => format!(".{}", digs(r, n1)),
            4 => {
                let a = digs(r, n1);
                let e = exp(r, 'e');
                format!("{}{}", a, e)
            }
            5 => {
                let a = digs(r, n1);
                let b = digs(r, n2);
                let e = exp(r, 'e');
                format!("{}.{}{}", a, b, e)
            }
            6 => {
                let a = digs(r, n1);
                let e = exp(r, 'e');
                format!(".{}{}", a, e)
            }
            7 => {
                let x = if r.chance(1, 2) { "x" } else { "X" };
                format!("0{}{}", x, hex(r, n3))
            }
            8 => "9223372036854775807".into(),
            9 => "9223372036854775808".into(), // beyond 2^63: a float in Lua
            10 => format!("123456789012345678901234567890{}", digs(r, n2)),
            11 => "0xffffffffffffffffffffff".into(), // wraps around in Lua 5.3+, a float before
            _ => {
                if lv >= 52 {
                    // hexadecimal floats (5.2+)
                    let a = hex(r, n1);
                    let b = hex(r, n2);
                    let e = exp(r, 'p');
                    match r.below(5) {
                        0 => format!("0x{}.", a),
                        1 => format!("0x.{}", a),
                        2 => format!("0x{}.{}{}", a, b, e),
                        3 => format!("0x{}{}", a, e),
                        _ => format!("0X.{}{}", a, e),
                    }
                } else {
                    format!("0x{}", hex(r, n3))
                }
            }
        }
    }
    fn short_string(&mut self) -> String {
        let q = if self.rng.chance(1, 2) { '"' } else { '\'' };
        let mut s = String::new();
        s.push(q);
        let n = self.rng.below(6);
        for _ in 0..n {
            let k = self.rng.below(if self.lv >= 53 { 16 } else if self.lv == 52 { 14 } else { 11 });
            match k {
                0 => s.push_str("abc"),
                1 => s.push_str(if q == '"' { "'" } else { "\"" }),
                2 => s.push_str(*self.rng.pick(&["\\a", "\\b", "\\f", "\\n", "\\r", "\\t", "\\v", "\\\\", "\\\"", "\\'"])),
                3 => s.push_str("\\\n"),
                4 => s.push_str("\\\r\n"),
                5 => s.push_str("\\\r"),
                6 => s.push_str(*self.rng.pick(&["\\0", "\\9x", "\\65", "\\065", "\\255", "\\0001", "\\10 "])),
                7 => s.push_str("é😀"),
                8 => s.push_str("--[[ ]] "),
                9 => s.push_str(" \t"),
                10 => s.push_str("\\\n\\\n"),
                // 5.2+
                11 => s.push_str(*self.rng.pick(&["\\z", "\\z  \n\t  ", "\\z\r\n\r\n", "\\z\x0B\x0C \n x", "\\z\n\x0B\n"])),
                12 => s.push_str(*self.rng.pick(&["\\x41", "\\xfF", "\\x00", "\\x7f9"])),
                13 => s.push_str("\\z"),
                // 5.3+
                14 => s.push_str(*self.rng.pick(&["\\u{41}", "\\u{0}", "\\u{10FFFF}", "\\u{D800}", "\\u{DFFF}", "\\u{00000041}"])),
                _ => {
                    if self.lv >= 54 {
                        s.push_str(*self.rng.pick(&["\\u{110000}", "\\u{7FFFFFFF}", "\\u{7fffffff}", "\\u{1234567}"]))
                    } else {
                        s.push_str("\\u{7F}")
                    }
                }
            }
        }
        s.push(q);
        s
    }
    fn long_string(&mut self) -> String {
        long_bracket(self.rng)
    }
    fn expr(&mut self, d: usize, vararg: bool) {
        // binary / unary operators with the manual's precedence are exercised by NOT parenthesising
        let bin: Vec<&str> = if self.lv >= 53 {
            vec!["+", "-", "*", "/", "//", "%", "^", "..", "<", "<=", ">", ">=", "==", "~=", "and", "or", "&", "|", "~", "<<", ">>"]
        } else {
            vec!["+", "-", "*", "/", "%", "^", "..", "<", "<=", ">", ">=", "==", "~=", "and", "or"]
        };
        let un: Vec<&str> = if self.lv >= 53 { vec!["-", "not", "#", "~"] } else { vec!["-", "not", "#"] };
        if d == 0 {
            return self.atom(vararg);
        }
        match self.rng.below(10) {
            0 | 1 | 2 => {
                self.expr(d - 1, vararg);
                let n = 1 + self.rng.below(3);
                for _ in 0..n {
                    let o = *self.rng.pick(&bin);
                    self.tk(o);
                    self.expr(d - 1, vararg);
                }
            }
            3 => {
                let o = *self.rng.pick(&un);
                self.tk(o);
                // `- -x` must not become a comment
                self.out.push(' ');
                self.expr(d - 1, vararg);
            }
            4 => self.simple(d, vararg),
            5 => {
                // 2 ^ - x ^ 2 and friends
                self.atom(vararg);
                self.tk("^");
                self.tk("-");
                self.out.push(' ');
                self.expr(d - 1, vararg);
            }
            _ => self.simple(d, vararg),
        }
    }
    fn atom(&mut self, vararg: bool) {
        match self.rng.below(9) {
            0 => {
                let n = self.number();
                self.tk(&n);
                // a number must not be glued to a following name / dot: tokens are separated by sp()
            }
            1 => {
                let s = self.short_string();
                self.tk(&s);
            }
            2 => {
                let s = self.long_string();
                self.tk(&s);
            }
            3 => {
                let w = *self.rng.pick(&["nil", "true", "false"]);
                self.tk(w)
            }
            4 if vararg => self.tk("..."),
            _ => {
                let n = self.name();
                self.tk(&n);
            }
        }
    }
    fn simple(&mut self, d: usize, vararg: bool) {
        match self.rng.below(8) {
            0 => self.atom(vararg),
            1 => self.table(d, vararg),
            2 => self.function_body(d, true),
            _ => self.suffixed(d, vararg, 0),
        }
    }
    /// kind: 0 any, 1 must end as a variable (Name / index), 2 must end as a call
    fn suffixed(&mut self, d: usize, vararg: bool, kind: u8) {
        if self.rng.chance(1, 4) && d > 0 {
            self.tk("(");
            self.expr(d - 1, vararg);
            self.tk(")");
            // `(e)` alone is neither a variable nor a call
            if kind != 0 || self.rng.chance(1, 2) {
                self.suffix(d, vararg, if kind == 2 { 2 } else { 1 });
            }
        } else {
            let n = self.name();
            self.tk(&n);
            if kind == 2 {
                self.suffix(d, vararg, 2);
            }
        }
        let n = self.rng.below(3);
        for _ in 0..n {
            let k = if kind == 0 { 0 } else { kind };
            self.suffix(d, vararg, k);
        }
    }
    fn suffix(&mut self, d: usize, vararg: bool, kind: u8) {
        let choice = match kind {
            1 => self.rng.below(2),
            2 => 2 + self.rng.below(2),
            _ => self.rng.below(4),
        };
        match choice {
            0 => {
                self.tk(".");
                let n = self.name();
                self.tk(&n);
            }
            1 => {
                self.tk("[");
                self.expr(d.saturating_sub(1), vararg);
                self.tk("]");
            }
            2 => self.args(d, vararg),
            _ => {
                self.tk(":");
                let n = self.name();
                self.tk(&n);
                self.args(d, vararg);
            }
        }
    }
    fn args(&mut self, d: usize, vararg: bool) {
        match self.rng.below(6) {
            0 => {
                let s = self.short_string();
                self.tk(&s);
            }
            1 => {
                let s = self.long_string();
                // `f[[x]]`: keep a space so that `[` `[[` is not read as an index
                self.tk(&s);
            }
            2 => self.table(d, vararg),
            3 => {
                self.tk("(");
                self.tk(")");
            }
            _ => {
                self.tk("(");
                self.exprlist(d.saturating_sub(1), vararg);
                self.tk(")");
            }
        }
    }
    fn exprlist(&mut self, d: usize, vararg: bool) {
        self.expr(d, vararg);
        let n = self.rng.below(3);
        for _ in 0..n {
            self.tk(",");
            self.expr(d, vararg);
        }
    }
    fn table(&mut self, d: usize, vararg: bool) {
        self.tk("{");
        let n = self.rng.below(4);
        for i in 0..n {
            match self.rng.below(3) {
                0 => {
                    self.tk("[");
                    self.expr(d.saturating_sub(1), vararg);
                    self.tk("]");
                    self.tk("=");
                    self.expr(d.saturating_sub(1), vararg);
                }
                1 => {
                    let nm = self.name();
                    self.tk(&nm);
                    self.tk("=");
                    self.expr(d.saturating_sub(1), vararg);
                }
                _ => self.expr(d.saturating_sub(1), vararg),
            }
            if i + 1 < n || self.rng.chance(1, 3) {
                let sep = if self.rng.chance(1, 2) { "," } else { ";" };
                self.tk(sep);
            }
        }
        self.tk("}");
    }
    fn function_body(&mut self, d: usize, with_kw: bool) {
        if with_kw {
            self.tk("function");
        }
        self.tk("(");
        let mut vararg = false;
        match self.rng.below(5) {
            0 => {}
            1 => {
                self.tk("...");
                vararg = true;
            }
            2 => {
                self.tk("a");
                self.tk(",");
                self.tk("b");
                self.tk(",");
                self.tk("...");
                vararg = true;
            }
            3 => self.tk("self"),
            _ => {
                self.tk("x");
                self.tk(",");
                self.tk("y");
            }
        }
        self.tk(")");
        self.block(d.saturating_sub(1), vararg, false);
        self.tk("end");
    }
    /// statements; `in_loop`: break is allowed
    fn block(&mut self, d: usize, vararg: bool, in_loop: bool) {
        let n = self.rng.below(if d == 0 { 2 } else { 4 });
        let mut prev_expr_end = false;
        for _ in 0..n {
            // a statement that starts with '(' after one that ends with an expression needs a ';'
            let start = self.out.len();
            self.stat(d, vararg, in_loop, &mut prev_expr_end);
            let _ = start;
        }
        if self.rng.chance(1, 4) {
            if prev_expr_end && self.rng.chance(1, 2) {
                self.tk(";");
            }
            self.tk("return");
            if self.rng.chance(2, 3) {
                self.out.push(' ');
                self.exprlist(d.min(2), vararg);
            }
            if self.rng.chance(1, 3) {
                self.tk(";");
            }
        }
    }
    fn semi_opt(&mut self, prev_expr_end: &mut bool, ends_with_expr: bool) {
        if self.rng.chance(1, 4) && self.lv >= 52 {
            self.tk(";");
            *prev_expr_end = false;
        } else if self.rng.chance(1, 8) {
            // 5.1 allows one ';' after a statement
            self.tk(";");
            *prev_expr_end = false;
        } else {
            *prev_expr_end = ends_with_expr;
        }
    }
    fn stat(&mut self, d: usize, vararg: bool, in_loop: bool, prev_expr_end: &mut bool) {
        let d1 = d.saturating_sub(1);
        let choice = self.rng.below(if d == 0 { 6 } else { 17 });
        match choice {
            0 => {
                // local attnamelist [= explist]
                self.tk("local");
                let n = 1 + self.rng.below(3);
                let mut closed = false;
                for i in 0..n {
                    if i > 0 {
                        self.tk(",");
                    }
                    self.const_id += 1;
                    let nm = format!("l{}", self.const_id);
                    self.tk(&nm);
                    if self.lv >= 54 && self.rng.chance(1, 3) {
                        self.tk("<");
                        if !closed && self.rng.chance(1, 3) {
                            self.tk("close");
                            closed = true;
                        } else {
                            self.tk("const");
                        }
                        self.tk(">");
                    }
                }
                if self.rng.chance(2, 3) {
                    self.tk("=");
                    self.exprlist(d1.min(3), vararg);
                    self.semi_opt(prev_expr_end, true);
                } else {
                    self.semi_opt(prev_expr_end, false);
                }
            }
            1 => {
                // varlist = explist
                if *prev_expr_end {
                    self.tk(";");
                }
                let n = 1 + self.rng.below(2);
                for i in 0..n {
                    if i > 0 {
                        self.tk(",");
                    }
                    self.suffixed(d1.min(2), vararg, 1);
                }
                self.tk("=");
                self.exprlist(d1.min(3), vararg);
                self.semi_opt(prev_expr_end, true);
            }
            2 => {
                if *prev_expr_end {
                    self.tk(";");
                }
                self.suffixed(d1.min(2), vararg, 2);
                self.semi_opt(prev_expr_end, true);
            }
            3 => {
                // `break` in the middle of a block only where the grammar allows it (5.2+, inside a loop)
                if in_loop {
                    self.tk("break");
                    self.semi_opt(prev_expr_end, false);
                } else {
                    self.tk("do");
                    self.tk("end");
                    self.semi_opt(prev_expr_end, false);
                }
            }
            4 => {
                if self.lv >= 52 {
                    self.tk(";");
                    *prev_expr_end = false;
                } else {
                    self.tk("do");
                    self.tk("end");
                    *prev_expr_end = false;
                }
            }
            5 => {
                self.tk("local");
                self.tk("function");
                let nm = self.name();
                self.tk(&nm);
                self.function_body(d1.min(2), false);
                self.semi_opt(prev_expr_end, false);
            }
            6 => {
                self.tk("do");
                self.block(d1, vararg, in_loop);
                self.tk("end");
                self.semi_opt(prev_expr_end, false);
            }
            7 => {
                self.tk("while");
                self.out.push(' ');
                self.expr(d1.min(2), vararg);
                self.tk("do");
                self.block(d1, vararg, self.lv != 51);
                self.tk("end");
                self.semi_opt(prev_expr_end, false);
            }
            8 => {
                self.tk("repeat");
                self.block(d1, vararg, self.lv != 51);
                self.tk("until");
                self.out.push(' ');
                self.expr(d1.min(2), vararg);
                self.semi_opt(prev_expr_end, true);
            }
            9 | 10 => {
                self.tk("if");
                self.out.push(' ');
                self.expr(d1.min(2), vararg);
                self.tk("then");
                self.block(d1, vararg, in_loop);
                let n = self.rng.below(3);
                for _ in 0..n {
                    self.tk("elseif");
                    self.out.push(' ');
                    self.expr(d1.min(2), vararg);
                    self.tk("then");
                    self.block(d1, vararg, in_loop);
                }
                if self.rng.chance(1, 2) {
                    self.tk("else");
                    self.block(d1, vararg, in_loop);
                }
                self.tk("end");
                self.semi_opt(prev_expr_end, false);
            }
            11 => {
                self.tk("for");
                self.tk("i");
                self.tk("=");
                self.expr(d1.min(2), vararg);
                self.tk(",");
                self.expr(d1.min(2), vararg);
                if self.rng.chance(1, 2) {
                    self.tk(",");
                    self.expr(d1.min(2), vararg);
                }
                self.tk("do");
                self.block(d1, vararg, self.lv != 51);
                self.tk("end");
                self.semi_opt(prev_expr_end, false);
            }
            12 => {
                self.tk("for");
                self.tk("k");
                let n = self.rng.below(3);
                for _ in 0..n {
                    self.tk(",");
                    self.tk("v");
                }
                self.tk("in");
                self.out.push(' ');
                self.exprlist(d1.min(2), vararg);
                self.tk("do");
                self.block(d1, vararg, self.lv != 51);
                self.tk("end");
                self.semi_opt(prev_expr_end, false);
            }
            13 => {
                self.tk("function");
                let nm = self.name();
                self.tk(&nm);
                let n = self.rng.below(3);
                for _ in 0..n {
                    self.tk(".");
                    let m = self.name();
                    self.tk(&m);
                }
                if self.rng.chance(1, 3) {
                    self.tk(":");
                    let m = self.name();
                    self.tk(&m);
                }
                self.function_body(d1.min(2), false);
                self.semi_opt(prev_expr_end, false);
            }
            14 if self.lv >= 52 => {
                // a label and a goto to it, both in a fresh do-block so that the label is visible and unique
                self.label_id += 1;
                let l = format!("L{}", self.label_id);
                self.tk("do");
                if self.rng.chance(1, 2) {
                    self.tk("goto");
                    self.tk(&l);
                    if self.rng.chance(1, 2) {
                        self.tk(";");
                    }
                    self.tk("::");
                    self.tk(&l);
                    self.tk("::");
                } else {
                    self.tk("::");
                    self.tk(&l);
                    self.tk("::");
                    self.tk("if");
                    self.tk("x");
                    self.tk("then");
                    self.tk("goto");
                    self.tk(&l);
                    self.tk("end");
                }
                self.tk("end");
                self.semi_opt(prev_expr_end, false);
            }
            15 => {
                // a loop that really ends in `break` (valid at every level)
                self.tk("while");
                self.tk("true");
                self.tk("do");
                let mut pe = false;
                self.stat(0, vararg, false, &mut pe);
                if pe {
                    self.tk(";");
                }
                self.tk("break");
                if self.rng.chance(1, 2) {
                    self.tk(";");
                }
                self.tk("end");
                self.semi_opt(prev_expr_end, false);
            }
            _ => {
                self.tk("local");
                self.const_id += 1;
                let nm = format!("q{}", self.const_id);
                self.tk(&nm);
                self.tk("=");
                self.expr(d1.min(3), vararg);
                self.semi_opt(prev_expr_end, true);
            }
        }
    }
}


/// a long bracket `[=*[ body ]=*]` of level 0..3, valid by construction: the body is assembled from fragments that
/// look like brackets of other levels (`]`, `]]`, `]=`, `]==`, `]=]`, `[=[`, newlines right after the opener, ...) and is
/// kept only if the closing bracket of ITS level first occurs at the very end (manual 3.1: a long bracket ends at the
/// first closing long bracket of the same level).  Bodies often END with such a fragment right before the closer.
fn long_bracket(rng: &mut Rng) -> String {
    const FRAGS: &[&str] = &["]", "]]", "]=", "]==", "]===", "]=]", "]==]", "[[", "[=[", "[==[", "=", "==", "a", "t[i]", "t[u[1]]", " x = ", "\n", "\r\n",
        "\\n", "\"", "--", "--[[", "\u{e9}", "]]]", "]=]=", "=]"];
    loop {
        let lvl = rng.below(4);
        let eq = "=".repeat(lvl);
        let closer = format!("]{}]", eq);
        let mut body = String::new();
        if rng.chance(1, 5) {
            body.push_str(*rng.pick(&["\n", "\r\n", "\r", "\n\n"]));
        }
        let n = rng.below(5);
        for _ in 0..n {
            body.push_str(*rng.pick(FRAGS));
        }
        if rng.chance(1, 2) {
            // end with something that looks like (part of) a closer of another level
            body.push_str(*rng.pick(&["]", "]=", "]==", "]===", "]]", "t[u[1]]", "]=]", "]==]"]));
        }
        let whole = format!("{}{}", body, closer);
        if whole.find(&closer) == Some(body.len()) {
            return format!("[{}[{}{}", eq, body, closer);
        }
    }
}

fn gen_program(rng: &mut Rng, lv: u32, depth: usize) -> String {
    let mut g = Gen::new(rng, lv);
    if g.rng.chance(1, 12) {
        g.out.push_str("#!/usr/bin/lua\n");
    }
    let n = 1 + g.rng.below(4);
    let mut pe = false;
    for _ in 0..n {
        g.stat(depth, true, false, &mut pe);
    }
    if g.rng.chance(1, 3) {
        if pe && g.rng.chance(1, 2) {
            g.tk(";");
        }
        g.tk("return");
        if g.rng.chance(1, 2) {
            g.out.push(' ');
            g.exprlist(depth.min(2), true);
        }
    }
    if g.rng.chance(1, 2) {
        g.out.push('\n');
    }
    g.out
}

fn gen_expr_program(rng: &mut Rng, lv: u32, depth: usize) -> String {
    let mut g = Gen::new(rng, lv);
    g.out.push_str("return ");
    g.expr(depth, true);
    g.out
}

// ------------------------------------------------------------------------------------------------
// observation
// ------------------------------------------------------------------------------------------------
fn tok_name(k: LuaTokenKind) -> &'static str {
    use LuaTokenKind::*;
    match k {
        TkName => "TName", TkInt => "TInt", TkFloat => "TFloat", TkString => "TString", TkLongString => "TLongString",
        TkNil => "TNil", TkTrue => "TTrue", TkFalse => "TFalse", TkDots => "TDots", TkAnd => "TAnd", TkOr => "TOr",
        TkNot => "TNot", TkBreak => "TBreak", TkDo => "TDo", TkElse => "TElse", TkElseIf => "TElseIf", TkEnd => "TEnd",
        TkFor => "TFor", TkFunction => "TFunction", TkGoto => "TGoto", TkIf => "TIf", TkIn => "TIn", TkLocal => "TLocal",
        TkRepeat => "TRepeat", TkReturn => "TReturn", TkThen => "TThen", TkUntil => "TUntil", TkWhile => "TWhile",
        TkPlus => "TPlus", TkMinus => "TMinus", TkMul => "TMul", TkDiv => "TDiv", TkIDiv => "TIDiv", TkMod => "TMod",
        TkPow => "TPow", TkLen => "TLen", TkBitAnd => "TBitAnd", TkBitOr => "TBitOr", TkBitXor => "TBitXor",
        TkShl => "TShl", TkShr => "TShr", TkConcat => "TConcat", TkLt => "TLt", TkLe => "TLe", TkGt => "TGt",
        TkGe => "TGe", TkEq => "TEq", TkNe => "TNe", TkAssign => "TAssign", TkLeftParen => "TLParen",
        TkRightParen => "TRParen", TkLeftBrace => "TLBrace", TkRightBrace => "TRBrace", TkLeftBracket => "TLBracket",
        TkRightBracket => "TRBracket", TkSemicolon => "TSemi", TkComma => "TComma", TkDot => "TDot", TkColon => "TColon",
        TkDbColon => "TDbColon",
        _ => "TOther",
    }
}
fn is_trivia(k: LuaTokenKind) -> bool {
    matches!(k, LuaTokenKind::TkWhitespace | LuaTokenKind::TkEndOfLine | LuaTokenKind::TkShortComment | LuaTokenKind::TkLongComment | LuaTokenKind::TkShebang)
}
fn kind_name(k: LuaSyntaxKind) -> Option<&'static str> {
    use LuaSyntaxKind::*;
    Some(match k {
        Chunk => "KChunk", Block => "KBlock", LocalStat => "KLocal", LocalFuncStat => "KLocalFunc", AssignStat => "KAssign",
        CallExprStat => "KCallStat", DoStat => "KDo", WhileStat => "KWhile", RepeatStat => "KRepeat", IfStat => "KIf",
        ElseIfClauseStat => "KElseIf", ElseClauseStat => "KElse", ForStat => "KFor", ForRangeStat => "KForRange",
        FuncStat => "KFunc", ReturnStat => "KReturn", BreakStat => "KBreak", GotoStat => "KGoto", LabelStat => "KLabel",
        EmptyStat => "KEmpty", LocalName => "KLocalName", Attribute => "KAttrib", ParamList => "KParamList", ParamName => "KParamName",
        BinaryExpr => "KBinary", UnaryExpr => "KUnary", ParenExpr => "KParen", LiteralExpr => "KLiteral", NameExpr => "KName",
        IndexExpr => "KIndex", CallExpr | RequireCallExpr | AssertCallExpr | ErrorCallExpr | TypeCallExpr | SetmetatableCallExpr => "KCall",
        CallArgList => "KArgs", TableEmptyExpr | TableArrayExpr | TableObjectExpr => "KTable", TableFieldAssign => "KFieldAssign",
        TableFieldValue => "KFieldValue", ClosureExpr => "KClosure",
        _ => return Option::None,
    })
}

/// Coq term of the tree (trivia and comments dropped, empty Block nodes dropped); None when a node kind is unknown
fn dump_tree(node: &LuaSyntaxNode) -> Option<String> {
    let k: LuaSyntaxKind = node.kind().into();
    let name = kind_name(k)?;
    let mut cs: Vec<String> = Vec::new();
    for c in node.children_with_tokens() {
        match c {
            rowan::NodeOrToken::Token(t) => {
                let tk: LuaTokenKind = t.kind().into();
                if !is_trivia(tk) {
                    cs.push(format!("L {}", tok_name(tk)));
                }
            }
            rowan::NodeOrToken::Node(n) => {
                let nk: LuaSyntaxKind = n.kind().into();
                if nk == LuaSyntaxKind::Comment {
                    continue;
                }
                let sub = dump_tree(&n)?;
                if nk == LuaSyntaxKind::Block && sub == "N KBlock []" {
                    continue;
                }
                cs.push(sub);
            }
        }
    }
    Some(format!("N {} [{}]", name, cs.join("; ")))
}

struct Obs {
    toks: Vec<&'static str>,
    parser_errs: usize,
    lex_feature_errs: usize,
    lex_other_errs: usize,
    doc_errs: usize,
    tree: Option<String>,
    depth: usize,
    first_msg: String,
}

fn observe(text: &str, level: &str) -> Obs {
    let cfg = ParserConfig::with_level(level_of(level));
    let mut lex_errs = Vec::new();
    let tokens = LuaLexer::new(Reader::new(text), cfg.lexer_config(), Some(&mut lex_errs)).tokenize();
    let toks: Vec<&'static str> = tokens.iter().filter(|t| !is_trivia(t.kind)).map(|t| tok_name(t.kind)).collect();
    let feat = lex_errs.iter().filter(|e| e.message.contains("bitwise operation is not supported") || e.message.contains("integer division is not supported")).count();
    let lex_other = lex_errs.len() - feat;
    emmylua_parser::verif_depth::reset();
    let tree = LuaParser::parse(text, cfg);
    let depth = emmylua_parser::verif_depth::high_water();
    let all: Vec<_> = tree.get_errors().iter().collect();
    let syn = all.iter().filter(|e| e.kind == LuaParseErrorKind::SyntaxError).count();
    let doc = all.len() - syn;
    let parser_errs = syn.saturating_sub(lex_errs.len());
    let first_msg = all.iter().find(|e| e.kind == LuaParseErrorKind::SyntaxError).map(|e| e.message.to_string()).unwrap_or_default();
    let dump = if syn == 0 { dump_tree(&tree.get_red_root()) } else { None };
    Obs { toks, parser_errs, lex_feature_errs: feat, lex_other_errs: lex_other, doc_errs: doc, tree: dump, depth, first_msg }
}

struct Ws {
    analysis: EmmyLuaAnalysis,
    uri: lsp_types::Uri,
}
fn workspace(level: &str) -> Ws {
    let version = LEVELS.iter().find(|l| l.0 == level).map(|l| l.1).unwrap_or("Lua5.4");
    let v = json!({"runtime": {"version": version}});
    let emmyrc = serde_json::from_value::<Emmyrc>(v).expect("emmyrc");
    let mut analysis = EmmyLuaAnalysis::new();
    analysis.update_config(Arc::new(emmyrc));
    analysis.add_main_workspace(PathBuf::from("/vws/main"));
    let uri = file_path_to_uri(&PathBuf::from("/vws/main/c03_case.lua")).expect("uri");
    Ws { analysis, uri }
}
/// messages of the `syntax-error` diagnostics of the real diagnose_file
fn syntax_diags(ws: &mut Ws, text: &str) -> Result<Vec<String>, String> {
    let upd = guarded(|| ws.analysis.update_file_by_uri(&ws.uri, Some(text.to_string())));
    let id: FileId = match upd {
        Ok(Some(id)) => id,
        Ok(None) => return Err("no file id".into()),
        Err(p) => return Err(format!("panic in update_file_by_uri: {}", p)),
    };
    let r = guarded(|| ws.analysis.diagnose_file(id, CancellationToken::new()));
    match r {
        Err(p) => Err(format!("panic: {}", p)),
        Ok(None) => Ok(vec![]),
        Ok(Some(ds)) => Ok(ds
            .into_iter()
            .filter(|d| matches!(&d.code, Some(NumberOrString::String(s)) if s == "syntax-error"))
            .map(|d| d.message)
            .collect()),
    }
}

/// enum-ise a message: keep letters and spaces of the first 50 chars, drop quoted specifics
fn msg_class(m: &str) -> String {
    let mut out = String::new();
    let mut in_q = false;
    for c in m.chars() {
        if c == '\'' || c == '`' {
            in_q = !in_q;
            continue;
        }
        if in_q {
            continue;
        }
        if c.is_ascii_alphabetic() || c == ' ' {
            out.push(c.to_ascii_lowercase());
        }
        if out.len() >= 50 {
            break;
        }
    }
    out.split_whitespace().collect::<Vec<_>>().join(" ")
}

// ------------------------------------------------------------------------------------------------
// literals for the lexical tie
// ------------------------------------------------------------------------------------------------
fn gen_literal(rng: &mut Rng, lv: u32) -> (String, bool) {
    let mut g = Gen::new(rng, lv);
    if g.rng.chance(1, 2) {
        let mut n = g.number();
        // invalid neighbours too
        match g.rng.below(12) {
            0 => n.push('x'),
            1 => n.push_str("e"),
            2 => n.push_str(".."),
            3 => n = format!("0x{}", "g"),
            4 => n.push_str("_1"),
            5 => n = "0x".into(),
            6 => n.push_str("p1"),
            _ => {}
        }
        (n, false)
    } else {
        let mut s = g.short_string();
        match g.rng.below(14) {
            0 => {
                s.pop();
            }
            1 => s.insert_str(1, "\\q"),
            2 => s.insert_str(1, "\\xZ1"),
            3 => s.insert_str(1, "\\u{110000}"),
            4 => s.insert_str(1, "\\u{80000000}"),
            5 => s.insert_str(1, "\\u{FFFFFFFFFF}"),
            6 => s.insert_str(1, "\\256"),
            7 => s.insert_str(1, "\n"),
            8 => s.insert_str(1, "\\u{}"),
            9 => s.insert_str(1, "\\u{D800}"),
            10 => s.insert_str(1, "\\z\x0B\n"),
            _ => {}
        }
        (s, true)
    }
}

/// long brackets for the lexical tie: valid ones, and broken ones (wrong closer level, missing closer, `[=` without `[`, ...)
fn gen_long_literal(rng: &mut Rng) -> String {
    let mut s = long_bracket(rng);
    match rng.below(10) {
        0 => {
            s.pop();
        }
        1 => s.push(']'),
        2 => s = s.replacen('[', "[=", 1),
        3 => s = format!("[{}", "=".repeat(rng.below(3))),
        4 => s = format!("[{}x", "=".repeat(rng.below(3))),
        5 => s.insert(1, '='),
        _ => {}
    }
    if rng.chance(1, 2) {
        s = format!("--{}", s);
    } else if rng.chance(1, 10) {
        s = format!("-{}", s);
    }
    s.push_str(*rng.pick(&["", " ", "\n", "]", "]]", "=]", " x", "\nlocal y"]));
    s
}

fn observe_long(text: &str, level: &str) -> Value {
    let cfg = ParserConfig::with_level(level_of(level));
    let mut lex_errs = Vec::new();
    let tokens = LuaLexer::new(Reader::new(text), cfg.lexer_config(), Some(&mut lex_errs)).tokenize();
    let (kind, len, err) = match tokens.first() {
        Some(t) => {
            let k = match t.kind {
                LuaTokenKind::TkLongString => 0,
                LuaTokenKind::TkLongComment => 1,
                LuaTokenKind::TkLeftBracket => 2,
                LuaTokenKind::TkShortComment => 3,
                LuaTokenKind::TkMinus => 4,
                _ => 5,
            };
            let end = t.range.end_offset();
            let e = lex_errs.iter().any(|e| usize::from(e.range.start()) < end.max(1));
            (k, end, e)
        }
        None => (5, 0, false),
    };
    let cps: Vec<u32> = text.chars().map(|c| c as u32).collect();
    json!({"k": "long", "text": cps, "kind": kind, "len": len, "err": err})
}

fn observe_literal(ws: &mut Ws, lit: &str, rest: &str, is_string: bool, level: &str) -> Value {
    let text = format!("{}{}", lit, rest);
    let cfg = ParserConfig::with_level(level_of(level));
    let mut lex_errs = Vec::new();
    let tokens = LuaLexer::new(Reader::new(&text), cfg.lexer_config(), Some(&mut lex_errs)).tokenize();
    let (kind, len, lex_err) = match tokens.first() {
        Some(t) => {
            let k = match t.kind {
                LuaTokenKind::TkInt => 0,
                LuaTokenKind::TkFloat => 1,
                LuaTokenKind::TkString => 2,
                LuaTokenKind::TkComplex => 3,
                _ => 4,
            };
            let end = t.range.end_offset();
            let le = lex_errs.iter().any(|e| usize::from(e.range.start()) < end.max(1));
            (k, end, le)
        }
        None => (4, 0, false),
    };
    // checker side: numbers through the pub functions on the real token, strings through diagnose_file
    let chk_err = if is_string {
        let prog = format!("local s = {}", lit);
        let tree = LuaParser::parse(&prog, ParserConfig::with_level(level_of(level)));
        let perr = tree.get_errors().iter().filter(|e| e.kind == LuaParseErrorKind::SyntaxError).count();
        match syntax_diags(ws, &prog) {
            Ok(ds) => ds.len() > perr,
            Err(_) => true,
        }
    } else {
        let tree = LuaParser::parse(&text, ParserConfig::with_level(level_of(level)));
        let root = tree.get_red_root();
        let mut r = false;
        if let Some(tok) = root.first_token() {
            match tok.kind() {
                LuaKind::Token(LuaTokenKind::TkInt) => r = int_token_value(&tok).is_err(),
                LuaKind::Token(LuaTokenKind::TkFloat) => r = float_token_value(&tok).is_err(),
                _ => {}
            }
        }
        r
    };
    let cps: Vec<u32> = text.chars().map(|c| c as u32).collect();
    json!({"k": "lex", "text": cps, "is_string": is_string, "kind": kind, "len": len, "lex_err": lex_err, "chk_err": chk_err})
}

// ------------------------------------------------------------------------------------------------
// mutants
// ------------------------------------------------------------------------------------------------
const INSERT: &[&str] = &["(", ")", "{", "}", "[", "]", "=", ",", ";", "end", "do", "then", "local", "function", "return", "x", "1", "+", "not",
    "..", "...", "::", ":", ".", "if", "else", "elseif", "until", "repeat", "for", "in", "while", "break", "goto", "<", ">", "\"s\"", "//", "&", "~", "#", "and"];

fn token_texts(text: &str, level: &str) -> Vec<String> {
    let cfg = ParserConfig::with_level(level_of(level));
    let tokens = LuaLexer::new(Reader::new(text), cfg.lexer_config(), None).tokenize();
    tokens.iter().filter(|t| !is_trivia(t.kind)).map(|t| text[t.range.start_offset..t.range.end_offset()].to_string()).collect()
}
fn mutate(rng: &mut Rng, toks: &[String]) -> String {
    let mut v: Vec<String> = toks.to_vec();
    if v.is_empty() {
        return (*rng.pick(INSERT)).to_string();
    }
    let i = rng.below(v.len());
    match rng.below(4) {
        0 => {
            v.remove(i);
        }
        1 => v.insert(i, (*rng.pick(INSERT)).to_string()),
        2 => v[i] = (*rng.pick(INSERT)).to_string(),
        _ => {
            let j = rng.below(v.len());
            v.swap(i, j);
        }
    }
    // one token per line or space separated; a line break after a short comment cannot occur (no comments left)
    v.join(if rng.chance(1, 4) { "\n" } else { " " })
}

fn case_json(kind: &str, level: &str, text: &str, o: &Obs, with_tree: bool) -> Value {
    let errs = o.parser_errs + o.lex_feature_errs > 0;
    let mut v = json!({"k": kind, "level": level, "toks": o.toks, "errs": errs, "depth": o.depth, "text": text});
    if with_tree {
        v["tree"] = json!(o.tree);
    }
    v
}

fn main() {
    let a = Args::parse();
    match a.cmd.as_str() {
        "corr" => {
            let mut rng = Rng::new(a.u64("seed", 1) ^ 0xC03);
            let n = a.usize("n", 300);
            let nmut = a.usize("mutants", n);
            let nlex = a.usize("lex", n);
            let mut wss: HashMap<&str, Ws> = LEVELS.iter().map(|l| (l.0, workspace(l.0))).collect();
            // corpus first
            if let Ok(rd) = std::fs::read_dir(a.str("corpus", "/verif/corpus/C03")) {
                let mut ps: Vec<_> = rd.filter_map(|e| e.ok()).map(|e| e.path()).collect();
                ps.sort();
                for p in ps {
                    if let Ok(txt) = std::fs::read_to_string(&p) {
                        if let Ok(v) = serde_json::from_str::<Value>(&txt) {
                            if let (Some(t), Some(l)) = (v["text"].as_str(), v["level"].as_str()) {
                                let o = observe(t, l);
                                if o.lex_other_errs == 0 {
                                    println!("{}", case_json("prog", l, t, &o, true));
                                }
                            }
                        }
                    }
                }
            }
            for i in 0..n {
                let level = LEVELS[i % LEVELS.len()].0;
                let depth = 1 + rng.below(4);
                let text = if i % 5 == 0 { gen_expr_program(&mut rng, lvnum(level), depth + 1) } else { gen_program(&mut rng, lvnum(level), depth) };
                let o = observe(&text, level);
                if o.lex_other_errs == 0 {
                    println!("{}", case_json("prog", level, &text, &o, true));
                }
                if i < nmut {
                    let toks = token_texts(&text, level);
                    let m = mutate(&mut rng, &toks);
                    let om = observe(&m, level);
                    if om.lex_other_errs == 0 {
                        println!("{}", case_json("mut", level, &m, &om, false));
                    }
                }
            }
            // the demonstration literals of the seeded long-bracket change first, then generated ones
            for t in ["[=[a]]=]", "[==[t[i]]==]", "--[=[ x = t[u[1]]=]\n", "[[a]=]]", "[=[a]==]=]", "[[x]=]]]", "--[[ s = [=[x]=]]]\n", "[[\nline]]", "[=", "--[==x\ny", "[", "-[[x]]"] {
                println!("{}", observe_long(t, "5.4"));
            }
            for i in 0..nlex {
                let level = LEVELS[i % LEVELS.len()].0;
                let t = gen_long_literal(&mut rng);
                println!("{}", observe_long(&t, level));
            }
            for i in 0..nlex {
                let level = LEVELS[i % LEVELS.len()].0;
                let (lit, is_string) = gen_literal(&mut rng, lvnum(level));
                let rest = *rng.pick(&["", " ", ")", "\n", "+1", ";", ",", " x", "]", "}", "=="]);
                let ws = wss.get_mut(level).unwrap();
                println!("{}", observe_literal(ws, &lit, rest, is_string, level));
            }
        }
        "search" => {
            let mut rng = Rng::new(a.u64("seed", 1) ^ 0x5EA2C4);
            let n = a.usize("n", 2000);
            let mut wss: HashMap<&str, Ws> = LEVELS.iter().map(|l| (l.0, workspace(l.0))).collect();
            let mut distinct: HashSet<u64> = HashSet::new();
            let mut dist: HashMap<String, u64> = HashMap::new();
            let mut viol: Vec<Value> = Vec::new();
            let mut seen_sig: HashMap<String, usize> = HashMap::new();
            let mut ntok = 0usize;
            for i in 0..n {
                let level = LEVELS[i % LEVELS.len()].0;
                let depth = 1 + rng.below(5);
                let text = if i % 7 == 0 { gen_expr_program(&mut rng, lvnum(level), depth + 1) } else { gen_program(&mut rng, lvnum(level), depth) };
                let o = observe(&text, level);
                ntok += o.toks.len();
                *dist.entry(format!("level {}", level)).or_insert(0) += 1;
                *dist.entry(format!("tokens {}", match o.toks.len() { 0..=9 => "<10", 10..=49 => "10-49", 50..=199 => "50-199", _ => ">=200" })).or_insert(0) += 1;
                {
                    use std::hash::{Hash, Hasher};
                    let mut h = std::collections::hash_map::DefaultHasher::new();
                    o.toks.hash(&mut h);
                    level.hash(&mut h);
                    if o.toks.len() >= 4 {
                        distinct.insert(h.finish());
                    }
                }
                let mut report = |sig: String, what: String| {
                    let c = seen_sig.entry(sig.clone()).or_insert(0);
                    *c += 1;
                    if *c <= 3 {
                        viol.push(json!({"signature": sig, "what": what, "case": {"level": level, "text": text}}));
                    }
                };
                let total = o.parser_errs + o.lex_feature_errs + o.lex_other_errs;
                if total > 0 {
                    report(format!("parser-rejects-valid:{}", msg_class(&o.first_msg)), format!("valid Lua {} program gets the parser error '{}'", level, o.first_msg));
                    continue;
                }
                let ws = wss.get_mut(level).unwrap();
                match syntax_diags(ws, &text) {
                    Ok(ds) => {
                        if let Some(m) = ds.first() {
                            report(format!("checker-rejects-valid:{}", msg_class(m)), format!("valid Lua {} program gets the syntax-error diagnostic '{}'", level, m));
                        }
                    }
                    Err(p) => {
                        report(format!("analysis-panics:{}", msg_class(&p)), p);
                        wss.insert(level, workspace(level));
                    }
                }
            }
            for v in &viol {
                println!("{}", v);
            }
            println!("{}", json!({"summary": {"programs": n, "distinct_nontrivial": distinct.len(), "tokens": ntok, "distribution": dist,
                "signatures": seen_sig}}));
        }
        "one" => {
            let level = a.str("level", "5.4");
            let text: String = serde_json::from_str(&a.str("text-json", "\"\"")).unwrap_or_default();
            let o = observe(&text, &level);
            let mut ws = workspace(&level);
            let ds = syntax_diags(&mut ws, &text);
            println!("{}", json!({"toks": o.toks, "parser_errs": o.parser_errs, "lex_feature_errs": o.lex_feature_errs, "lex_other_errs": o.lex_other_errs,
                "doc_errs": o.doc_errs, "first_msg": o.first_msg, "tree": o.tree, "depth": o.depth, "syntax_diags": ds.unwrap_or_else(|e| vec![e])}));
        }
        _ => {
            eprintln!("usage: c03 corr|search|one ...");
            std::process::exit(2);
        }
    }
}
