//! C11 harness: analysis results must not depend on hash seeds / internal iteration order.
//!   c11 one  [--spec-json J | --spec-file F | specs on stdin, one JSON per line]
//!              spec = {"files":[["a.lua","x = 1"],["b.lua",null],…],"mode":"uri|path|single|reindex|reload","std":false,"repeat":1,
//!                      "libs":["lib1","lib2"]}   (with libs: main workspace = /c11ws/main, each lib = its own library workspace)
//!              analyses every spec in THIS process and prints one canonical dump per spec (one JSON line each).
//!              std's RandomState is re-seeded per process, so the python plugin spawns this sub-command M times
//!              (fresh hash seeds) and compares the dumps: that is the `search` of this property.
//!   c11 corr --seed S --n N
//!              JSON lines for the correspondence with the Coq model (EV.C11.Corr):
//!              {"k":"drv",…}  generated update batches (duplicates, removals) through every update entry point with the
//!                             file-id order handed to `update_index` (hook recorder verif_c11);
//!              {"k":"bo",…}   generated dependency relations (chains, cycles, self-requires, metas) and shuffled id lists
//!                             through FileDependencyRelation::get_best_analysis_order.
//! Registration order = order of "files" in the spec.
use emmylua_code_analysis::{EmmyLuaAnalysis, FileId, LuaDependencyIndex, LuaType, RenderLevel, VirtualUrlGenerator, WorkspaceFolder, humanize_type};
use emmylua_parser::{LuaAstNode, LuaExpr, LuaSyntaxKind, LuaTokenKind};
use serde_json::{Value, json};
use std::collections::{BTreeMap, BTreeSet};
use std::io::Read;
use std::path::PathBuf;
use tokio_util::sync::CancellationToken;
use vh_common::{Args, Rng, guarded};

// ------------------------------------------------------------------------------------------ canonical forms

/// Rendered types are compared "modulo the listing order of members": inside every `{ … }` group the
/// top-level items (separated by `,` or newlines) are sorted.  Everything else is kept verbatim.
fn canon_members(s: &str) -> String {
    fn go(chars: &[char], i: &mut usize, close: Option<char>) -> String {
        // returns the canonical text up to (not including) the matching close
        let mut items: Vec<String> = vec![String::new()];
        let sort = close == Some('}');
        while *i < chars.len() {
            let c = chars[*i];
            if Some(c) == close {
                break;
            }
            *i += 1;
            match c {
                '{' | '(' | '[' => {
                    let cl = match c {
                        '{' => '}',
                        '(' => ')',
                        _ => ']',
                    };
                    let inner = go(chars, i, Some(cl));
                    let cur = items.last_mut().unwrap();
                    cur.push(c);
                    cur.push_str(&inner);
                    if *i < chars.len() {
                        cur.push(cl);
                        *i += 1;
                    }
                }
                ',' | '\n' if sort => items.push(String::new()),
                _ => items.last_mut().unwrap().push(c),
            }
        }
        if sort {
            let mut v: Vec<String> = items.iter().map(|x| x.trim().to_string()).filter(|x| !x.is_empty()).collect();
            v.sort();
            format!(" {} ", v.join(", "))
        } else {
            items.concat()
        }
    }
    let chars: Vec<char> = s.chars().collect();
    let mut i = 0;
    let mut out = String::new();
    while i < chars.len() {
        out.push_str(&go(&chars, &mut i, None));
        if i < chars.len() {
            // stray closer
            out.push(chars[i]);
            i += 1;
        }
    }
    out
}

/// replace `FileId { id: N }` / `file_id: N` in Debug output by the file's name (ids are not observable results)
fn name_file_ids(s: &str, names: &BTreeMap<u32, String>) -> String {
    let re = regex::Regex::new(r"FileId \{ id: (\d+) \}").unwrap();
    re.replace_all(s, |c: &regex::Captures| {
        let id: u32 = c[1].parse().unwrap_or(u32::MAX);
        format!("File<{}>", names.get(&id).cloned().unwrap_or_else(|| format!("#{id}")))
    })
    .to_string()
}

// ------------------------------------------------------------------------------------------ one analysis

struct Spec {
    files: Vec<(String, Option<String>)>,
    mode: String,
    std: bool,
    repeat: usize,
    /// library workspace roots, relative to /c11ws (files whose name starts with such a prefix belong to that library)
    libs: Vec<String>,
}

fn parse_spec(v: &Value) -> Spec {
    let files = v["files"]
        .as_array()
        .map(|a| {
            a.iter()
                .map(|e| (e[0].as_str().unwrap_or("").to_string(), e[1].as_str().map(|t| t.to_string())))
                .collect()
        })
        .unwrap_or_default();
    Spec {
        files,
        mode: v["mode"].as_str().unwrap_or("uri").to_string(),
        std: v["std"].as_bool().unwrap_or(false),
        repeat: v["repeat"].as_u64().unwrap_or(1) as usize,
        libs: v["libs"].as_array().map(|a| a.iter().filter_map(|x| x.as_str().map(|t| t.to_string())).collect()).unwrap_or_default(),
    }
}

#[cfg(emmyluals_emmylua_analyzer_rust_verif)]
fn take_recorded_orders() -> Option<Vec<Vec<u32>>> {
    Some(emmylua_code_analysis::verif_c11::take_update_orders())
}
#[cfg(not(emmyluals_emmylua_analyzer_rust_verif))]
fn take_recorded_orders() -> Option<Vec<Vec<u32>>> {
    None
}

fn analyse_once(spec: &Spec) -> Value {
    let vg = VirtualUrlGenerator { base: PathBuf::from("/c11ws") };
    let mut analysis = EmmyLuaAnalysis::new();
    if spec.std {
        analysis.init_std_lib(None);
    }
    if spec.libs.is_empty() {
        analysis.add_main_workspace(vg.base.clone());
    } else {
        // main workspace /c11ws/main, every library its own workspace /c11ws/<lib>
        analysis.add_main_workspace(vg.base.join("main"));
        for l in &spec.libs {
            analysis.add_library_workspace(&WorkspaceFolder::new(vg.base.join(l), true));
        }
    }
    let _ = take_recorded_orders();
    let uris: Vec<_> = spec.files.iter().map(|(n, _)| vg.new_uri(n)).collect();
    let mut returned: Vec<FileId> = Vec::new();
    match spec.mode.as_str() {
        "single" => {
            for (i, (_, t)) in spec.files.iter().enumerate() {
                analysis.update_file_by_uri(&uris[i], t.clone());
            }
        }
        "path" => {
            let fs = spec.files.iter().map(|(n, t)| (vg.new_path(n), t.clone())).collect();
            returned = analysis.update_files_by_path(fs);
        }
        "reindex" => {
            let fs = spec.files.iter().enumerate().map(|(i, (_, t))| (uris[i].clone(), t.clone())).collect();
            analysis.update_files_by_uri(fs);
            analysis.reindex();
        }
        "reload" => {
            let fs: Vec<_> = spec.files.iter().map(|(n, t)| (vg.new_path(n), t.clone())).collect();
            analysis.reload_workspace_files(fs.clone(), vec![]);
            analysis.reload_workspace_files(fs, vec![]);
        }
        _ => {
            let fs = spec.files.iter().enumerate().map(|(i, (_, t))| (uris[i].clone(), t.clone())).collect();
            returned = analysis.update_files_by_uri(fs);
        }
    }
    let recorded = take_recorded_orders();

    let mut names: BTreeMap<u32, String> = BTreeMap::new();
    let mut ids: Vec<(String, FileId)> = Vec::new();
    for (i, (n, _)) in spec.files.iter().enumerate() {
        if let Some(fid) = analysis.get_file_id(&uris[i]) {
            names.insert(fid.id, n.clone());
            ids.push((n.clone(), fid));
        }
    }
    let db = analysis.compilation.get_db();

    // diagnostics per path, sorted
    let mut diag = BTreeMap::new();
    for (n, fid) in &ids {
        let mut v: Vec<Value> = Vec::new();
        if let Some(ds) = analysis.diagnose_file(*fid, CancellationToken::new()) {
            for d in ds {
                let code = match &d.code {
                    Some(lsp_types::NumberOrString::String(s)) => s.clone(),
                    Some(lsp_types::NumberOrString::Number(n)) => n.to_string(),
                    None => String::new(),
                };
                v.push(json!([
                    d.range.start.line,
                    d.range.start.character,
                    d.range.end.line,
                    d.range.end.character,
                    code,
                    canon_members(&d.message)
                ]));
            }
        }
        v.sort_by_key(|x| x.to_string());
        diag.insert(n.clone(), v);
    }

    // inferred type of every expression and semantic info of every name token, per path
    let mut types = BTreeMap::new();
    for (n, fid) in &ids {
        let mut v: Vec<Value> = Vec::new();
        if let Some(model) = analysis.compilation.get_semantic_model(*fid) {
            let root = model.get_root().clone();
            for e in root.descendants::<LuaExpr>() {
                let r = e.syntax().text_range();
                let t = match model.infer_expr(e.clone()) {
                    Ok(t) => canon_members(&humanize_type(db, &t, RenderLevel::Detailed)),
                    Err(err) => name_file_ids(&format!("!{:?}", err), &names),
                };
                v.push(json!([u32::from(r.start()), u32::from(r.end()), "e", t]));
            }
            for tk in root.syntax().descendants_with_tokens().filter_map(|x| x.into_token()) {
                if tk.kind() != LuaTokenKind::TkName.into() {
                    continue;
                }
                let in_comment = tk.parent_ancestors().any(|p| p.kind() == LuaSyntaxKind::Comment.into());
                if in_comment {
                    continue;
                }
                let r = tk.text_range();
                if let Some(info) = model.get_semantic_info(tk.clone().into()) {
                    let t = canon_members(&humanize_type(db, &info.typ, RenderLevel::Detailed));
                    let d = info.semantic_decl.map(|d| name_file_ids(&format!("{:?}", d), &names)).unwrap_or_default();
                    v.push(json!([u32::from(r.start()), u32::from(r.end()), "t", t, d]));
                }
            }
        }
        types.insert(n.clone(), v);
    }

    // members of every declared type, as a set
    let mut members = BTreeMap::new();
    let mut decls: Vec<_> = db.get_type_index().get_all_types().iter().map(|d| d.get_id()).collect();
    decls.sort_by_key(|d| d.get_name().to_string());
    if let Some((_, fid)) = ids.first() {
        if let Some(model) = analysis.compilation.get_semantic_model(*fid) {
            for d in decls {
                if spec.std && db.get_type_index().get_type_decl(&d).map(|x| x.get_locations().iter().all(|l| !names.contains_key(&l.file_id.id))).unwrap_or(true) {
                    continue;
                }
                let ty = LuaType::Ref(d.clone());
                let mut set = BTreeSet::new();
                if let Some(ms) = model.get_member_infos(&ty) {
                    for m in ms {
                        let k = name_file_ids(&format!("{:?}", m.key), &names);
                        let t = canon_members(&humanize_type(db, &m.typ, RenderLevel::Detailed));
                        set.insert(format!("{k} : {t}"));
                    }
                }
                let mut supers: Vec<String> = db
                    .get_type_index()
                    .get_super_types(&d)
                    .unwrap_or_default()
                    .iter()
                    .map(|t| humanize_type(db, t, RenderLevel::Simple))
                    .collect();
                supers.sort();
                members.insert(d.get_name().to_string(), json!({"members": set.into_iter().collect::<Vec<_>>(), "supers": supers}));
            }
        }
    }

    let rec = recorded.map(|orders| {
        orders
            .iter()
            .map(|o| o.iter().map(|i| names.get(i).cloned().unwrap_or_else(|| format!("#{i}"))).collect::<Vec<_>>())
            .filter(|o: &Vec<String>| o.iter().any(|n| !n.starts_with('#')))
            .collect::<Vec<_>>()
    });
    let returned: Vec<String> = returned.iter().map(|f| names.get(&f.id).cloned().unwrap_or_else(|| format!("#{}", f.id))).collect();
    json!({"diag": diag, "types": types, "members": members, "orders": rec, "returned": returned})
}

fn analyse(spec: &Spec) -> Value {
    // K analyses in this one process (fresh EmmyLuaAnalysis each: new RandomState keys per HashSet)
    let mut runs = Vec::new();
    for _ in 0..spec.repeat.max(1) {
        let r = guarded(|| analyse_once(spec));
        runs.push(match r {
            Ok(v) => v,
            Err(e) => json!({"panic": e}),
        });
    }
    json!({"runs": runs})
}

// ------------------------------------------------------------------------------------------ correspondence cases

fn mk_set<S: Default + Extend<FileId>>(xs: &[u32]) -> S {
    let mut s = S::default();
    s.extend(xs.iter().map(|&i| FileId::new(i)));
    s
}

/// one generated dependency relation + id list through get_best_analysis_order
fn corr_best_order(rng: &mut Rng) -> Value {
    let universe = 2 + rng.below(9) as u32; // ids 0..universe
    let mut all: Vec<u32> = (0..universe).collect();
    // shuffled, possibly partial id list (no duplicates: the callers pass the ids of a set)
    for i in (1..all.len()).rev() {
        let j = rng.below(i + 1);
        all.swap(i, j);
    }
    let keep = match rng.below(4) {
        0 => all.len(),
        _ => rng.below(all.len() + 1),
    };
    let mut ids: Vec<u32> = all[..keep].to_vec();
    if rng.chance(1, 3) {
        ids.sort();
    }
    let shape = rng.below(6);
    let mut edges: Vec<(u32, u32)> = Vec::new(); // (file, dependency)
    match shape {
        0 => {} // no dependencies
        1 => {
            // chain through the shuffled list
            for w in all.windows(2) {
                edges.push((w[0], w[1]));
            }
        }
        2 => {
            // one cycle plus tails
            let k = 1 + rng.below(all.len().min(4));
            for i in 0..k {
                edges.push((all[i], all[(i + 1) % k]));
            }
            for i in k..all.len() {
                edges.push((all[i], all[rng.below(i)]));
            }
        }
        3 => {
            // DAG: only edges to smaller position
            for i in 1..all.len() {
                for j in 0..i {
                    if rng.chance(1, 3) {
                        edges.push((all[i], all[j]));
                    }
                }
            }
        }
        _ => {
            let m = rng.below((universe * 2) as usize + 1);
            for _ in 0..m {
                edges.push((rng.below(universe as usize) as u32, rng.below(universe as usize) as u32));
            }
        }
    }
    if rng.chance(1, 6) && !all.is_empty() {
        let f = all[rng.below(all.len())];
        edges.push((f, f)); // a file requiring itself
    }
    let metas: Vec<u32> = (0..universe).filter(|_| rng.chance(1, 4)).collect();
    let mut index = LuaDependencyIndex::new();
    for &(f, d) in &edges {
        index.add_required_file(FileId::new(f), FileId::new(d));
    }
    let fids: Vec<FileId> = ids.iter().map(|&i| FileId::new(i)).collect();
    let out = guarded(|| index.get_file_dependencies().get_best_analysis_order(&fids, &mk_set(&metas)));
    let outv = match out {
        Ok(v) => json!(v.iter().map(|f| f.id).collect::<Vec<_>>()),
        Err(e) => json!({"panic": e}),
    };
    json!({"k": "bo", "ids": ids, "deps": edges.iter().map(|&(f, d)| json!([f, d])).collect::<Vec<_>>(), "metas": metas, "out": outv, "shape": shape})
}

/// one generated update batch through an update entry point; the hook records what reaches update_index
fn corr_driver(rng: &mut Rng) -> Value {
    let nuri = 1 + rng.below(8);
    let len = rng.below(12);
    let batch: Vec<(usize, bool)> = (0..len).map(|_| (rng.below(nuri), !rng.chance(1, 5))).collect();
    let mode = rng.below(4); // 0 uri, 1 single, 2 reindex, 3 path (= 0 for the model)
    let vg = VirtualUrlGenerator { base: PathBuf::from("/c11ws") };
    let mut analysis = EmmyLuaAnalysis::new();
    analysis.add_main_workspace(vg.base.clone());
    let _ = take_recorded_orders();
    let text = |u: usize, b: bool| if b { Some(format!("g{} = {}\n", u, u)) } else { None };
    match mode {
        1 => {
            for &(u, b) in &batch {
                analysis.update_file_by_uri(&vg.new_uri(&format!("u{u}.lua")), text(u, b));
            }
        }
        3 => {
            analysis.update_files_by_path(batch.iter().map(|&(u, b)| (vg.new_path(&format!("u{u}.lua")), text(u, b))).collect());
        }
        _ => {
            analysis.update_files_by_uri(batch.iter().map(|&(u, b)| (vg.new_uri(&format!("u{u}.lua")), text(u, b))).collect());
            if mode == 2 {
                analysis.reindex();
            }
        }
    }
    let orders = take_recorded_orders();
    json!({"k": "drv", "mode": if mode == 3 { 0 } else { mode }, "entry": mode,
           "batch": batch.iter().map(|&(u, b)| json!([u, if b { 1 } else { 0 }])).collect::<Vec<_>>(),
           "orders": orders})
}

fn parse_specs(txt: &str) -> Vec<Value> {
    if let Ok(v) = serde_json::from_str::<Value>(txt) {
        return vec![v];
    }
    txt.lines().filter(|l| !l.trim().is_empty()).map(|l| serde_json::from_str(l).unwrap_or(json!({}))).collect()
}

fn main() {
    let args = Args::parse();
    match args.cmd.as_str() {
        "one" => {
            let txt = if args.flag("spec-file") {
                std::fs::read_to_string(args.str("spec-file", "")).unwrap_or_default()
            } else if args.flag("spec-json") {
                args.str("spec-json", "{}")
            } else {
                let mut s = String::new();
                let _ = std::io::stdin().read_to_string(&mut s);
                s
            };
            for v in parse_specs(&txt) {
                let spec = parse_spec(&v);
                println!("{}", analyse(&spec));
            }
        }
        "corr" => {
            let seed = args.u64("seed", 1);
            let n = args.usize("n", 100);
            let mut rng = Rng::new(seed ^ 0xC11);
            for i in 0..n {
                let mut r = rng.fork();
                if i % 3 == 0 {
                    println!("{}", corr_driver(&mut r));
                } else {
                    println!("{}", corr_best_order(&mut r));
                }
            }
        }
        _ => {
            eprintln!("usage: c11 one|corr");
            std::process::exit(2);
        }
    }
}
