//! C04 harness: parse results do not depend on earlier parses (shared rowan NodeCache of a Vfs).
//!   c04 search --seed S --n N   -> histories of texts through ONE Vfs; after every step the stored tree (dump + errors)
//!                                  of every file must equal a fresh standalone parse of the same text and configuration
//!   c04 corr   --seed S --n N   -> short histories with the parser's event lists, for the Coq cache model
//!   c04 one    --history-json '[{"uri":..,"text":..,"cfg":..},..]'
use emmylua_code_analysis::{Emmyrc, EmmyrcLuaVersion, FileId, Vfs, VirtualUrlGenerator};
use emmylua_parser::verif::{MarkEvent, parse_trace};
use emmylua_parser::{LuaParser, LuaSyntaxKind, LuaSyntaxNode, LuaSyntaxTree, LuaTokenKind};
use rowan::NodeCache;
use serde_json::{Value, json};
use std::collections::{HashMap, HashSet};
use std::sync::Arc;
use vh_common::{Args, Rng, guarded};

const VERSIONS: [EmmyrcLuaVersion; 9] = [
    EmmyrcLuaVersion::Lua51,
    EmmyrcLuaVersion::LuaJIT,
    EmmyrcLuaVersion::LuaJIT2,
    EmmyrcLuaVersion::LuaJIT3,
    EmmyrcLuaVersion::Lua52,
    EmmyrcLuaVersion::Lua53,
    EmmyrcLuaVersion::Lua54,
    EmmyrcLuaVersion::Lua55,
    EmmyrcLuaVersion::LuaLatest,
];

/// configuration number -> Emmyrc (version x a few non-standard symbol sets)
fn emmyrc(cfg: usize) -> Emmyrc {
    // EmmyrcNonStdSymbol is not re-exported: go through the JSON form of the configuration
    let syms: Vec<&str> = match (cfg / 9) % 3 {
        1 => vec!["//", "+="],
        2 => vec!["/**/", "`"],
        _ => vec![],
    };
    let mut e: Emmyrc = serde_json::from_value(json!({"runtime": {"nonstandardSymbol": syms}})).expect("emmyrc json");
    e.runtime.version = VERSIONS[cfg % 9];
    if (cfg / 9) % 3 != 0 {
        assert!(!e.runtime.nonstandard_symbol.is_empty());
    }
    e
}

// ---------------------------------------------------------------------------------------- dumps

fn dump(node: &LuaSyntaxNode, out: &mut String) {
    let k: LuaSyntaxKind = node.kind().into();
    out.push_str(&format!("({}", k as u16));
    for el in node.children_with_tokens() {
        out.push(' ');
        match el {
            rowan::NodeOrToken::Node(n) => dump(&n, out),
            rowan::NodeOrToken::Token(t) => {
                let k: LuaTokenKind = t.kind().into();
                let r = t.text_range();
                out.push_str(&format!("[{} {}..{} {:?}]", k as u16, u32::from(r.start()), u32::from(r.end()), t.text()));
            }
        }
    }
    out.push(')');
}

/// the tree as a Coq term of type EV.C04.Model.dtree (kinds and token texts)
fn dterm(node: &LuaSyntaxNode, out: &mut String) {
    let k: LuaSyntaxKind = node.kind().into();
    out.push_str(&format!("DNode {} [", k as u16));
    let mut first = true;
    for el in node.children_with_tokens() {
        if !first {
            out.push(';');
        }
        first = false;
        match el {
            rowan::NodeOrToken::Node(n) => dterm(&n, out),
            rowan::NodeOrToken::Token(t) => {
                let k: LuaTokenKind = t.kind().into();
                let cps: Vec<String> = t.text().chars().map(|c| (c as u32).to_string()).collect();
                out.push_str(&format!("DTok {} [{}]", k as u16, cps.join(";")));
            }
        }
    }
    out.push(']');
}

fn errors_of(tree: &LuaSyntaxTree) -> Vec<String> {
    tree.get_errors()
        .iter()
        .map(|e| format!("{:?}|{}|{}..{}", e.kind, e.message, u32::from(e.range.start()), u32::from(e.range.end())))
        .collect()
}

fn tree_obs(tree: &LuaSyntaxTree) -> (String, Vec<String>) {
    let mut s = String::new();
    dump(&tree.get_red_root(), &mut s);
    (s, errors_of(tree))
}

fn fresh_parse(text: &str, cfg: usize) -> LuaSyntaxTree {
    let e = emmyrc(cfg);
    let mut cache = NodeCache::default();
    LuaParser::parse(text, e.get_parse_config(&mut cache))
}

/// green-node pointers of a tree (to measure how much the cache shares)
fn green_ptrs(node: &LuaSyntaxNode, out: &mut Vec<usize>) {
    for n in node.descendants() {
        let g = n.green();
        out.push(&*g as *const _ as *const () as usize);
    }
}

// ---------------------------------------------------------------------------------------- generators

const STATS: &[&str] = &[
    "local a = 1", "local b = a + 2", "print(a, b)", "local t = {1, 2, x = 3}", "function f(x) return x end", "if a then b = 1 end",
    "for i = 1, 10 do print(i) end", "return a", "a.b.c = nil", "local s = \"str\"", "---@type string", "---@class A\n---@field x number",
    "--- comment", "-- c", "while true do break end", "x = x // 2", "x += 1", "local y = `tpl`", "goto l", "::l::", "f{1}", "a = b ? c : d",
    "/* c */", "// c", "local function g() end", "t[1] = {{}}", "\0", "{,then", "end", "---@param x number\nfunction h(x) end", "",
];
const EDITS: &[&str] = &["1", "2", "a", "b", " ", "\n", "x", "(", ")", "end", "local", "--", "---@", "=", ",", "\"", "\u{feff}", "\0", "é"];

fn gen_base(rng: &mut Rng) -> String {
    let n = rng.range(1, 8);
    let mut s = String::new();
    for _ in 0..n {
        s.push_str(STATS[rng.below(STATS.len())]);
        s.push_str(if rng.chance(5, 6) { "\n" } else { " " });
    }
    s
}

fn floor_boundary(s: &str, mut i: usize) -> usize {
    i = i.min(s.len());
    while !s.is_char_boundary(i) {
        i -= 1;
    }
    i
}

fn edit(rng: &mut Rng, base: &str) -> String {
    let mut s = base.to_string();
    let p = floor_boundary(&s, rng.below(s.len() + 1));
    match rng.below(4) {
        0 => s.insert_str(p, EDITS[rng.below(EDITS.len())]),
        1 => {
            let q = floor_boundary(&s, p + rng.range(1, 4));
            s.replace_range(p..q, "");
        }
        2 => {
            let q = floor_boundary(&s, p + rng.range(1, 4));
            s.replace_range(p..q, EDITS[rng.below(EDITS.len())]);
        }
        _ => {
            s.push_str(STATS[rng.below(STATS.len())]);
            s.push('\n');
        }
    }
    s
}

#[derive(Clone)]
struct Step {
    uri: usize,
    text: Option<String>, // None = close the file
    cfg: usize,
    remote: bool,
}

/// a history: near-duplicates (maximal sharing), edits and reverts, re-opens under other uris, unrelated texts,
/// configuration switches in the middle
fn gen_history(rng: &mut Rng, maxsteps: usize) -> Vec<Step> {
    let n = rng.range(2, maxsteps);
    let mut steps = Vec::new();
    let mut cfg = rng.below(27);
    let mut pool: Vec<String> = vec![gen_base(rng)];
    for _ in 0..n {
        let uri = rng.below(4);
        let kind = rng.below(12);
        if kind == 0 {
            cfg = rng.below(27);
        }
        let text = match kind {
            1 => None,
            2..=4 => Some(pool[rng.below(pool.len())].clone()), // re-open / duplicate
            5..=8 => {
                let b = pool[rng.below(pool.len())].clone();
                Some(edit(rng, &b))
            }
            9 => Some(gen_base(rng)),
            _ => {
                // concatenation of two known texts: shares subtrees of both
                let a = pool[rng.below(pool.len())].clone();
                let b = pool[rng.below(pool.len())].clone();
                Some(format!("{}{}", a, b))
            }
        };
        if let Some(t) = &text {
            if pool.len() < 12 {
                pool.push(t.clone());
            }
        }
        steps.push(Step { uri, text, cfg, remote: rng.chance(1, 8) });
    }
    steps
}

fn steps_json(steps: &[Step]) -> Value {
    json!(steps.iter().map(|s| json!({"uri": s.uri, "text": s.text, "cfg": s.cfg, "remote": s.remote})).collect::<Vec<_>>())
}

struct RunResult {
    violations: Vec<(String, String)>, // (signature, what)
    parses: usize,
    shared_nodes: usize,
    total_nodes: usize,
    unobservable: usize,
}

/// drive one Vfs through the history, checking after every step
fn run_history(steps: &[Step]) -> RunResult {
    let mut res = RunResult { violations: vec![], parses: 0, shared_nodes: 0, total_nodes: 0, unobservable: 0 };
    let vg = VirtualUrlGenerator::new();
    let mut vfs = Vfs::new();
    let mut cur_cfg = usize::MAX;
    // what every open file should contain: (text, cfg at the time it was parsed)
    let mut expect: HashMap<(usize, bool), (FileId, String, usize)> = HashMap::new();
    let mut seen_ptrs: HashSet<usize> = HashSet::new();
    for (i, st) in steps.iter().enumerate() {
        if st.cfg != cur_cfg {
            vfs.update_config(Arc::new(emmyrc(st.cfg)));
            cur_cfg = st.cfg;
        }
        let uri = vg.new_uri(&format!("c04_{}{}.lua", st.uri, if st.remote { "_r" } else { "" }));
        let fid = if st.remote { vfs.set_remote_file_content(&uri, st.text.clone()) } else { vfs.set_file_content(&uri, st.text.clone()) };
        match &st.text {
            Some(t) => {
                expect.insert((st.uri, st.remote), (fid, t.clone(), st.cfg));
                res.parses += 1;
                if let Some(tree) = vfs.get_syntax_tree(&fid) {
                    let mut ps = Vec::new();
                    green_ptrs(&tree.get_red_root(), &mut ps);
                    res.total_nodes += ps.len();
                    res.shared_nodes += ps.iter().filter(|p| seen_ptrs.contains(p)).count();
                    seen_ptrs.extend(ps);
                }
            }
            None => {
                expect.remove(&(st.uri, st.remote));
            }
        }
        // every open file: stored tree and errors == fresh standalone parse
        for ((u, r), (fid, text, cfg)) in expect.iter() {
            let got = match vfs.get_syntax_tree(fid) {
                Some(t) => tree_obs(t),
                None => {
                    // nothing to compare (not a statement of this property); counted so that it cannot go unnoticed
                    let _ = (u, r);
                    res.unobservable += 1;
                    continue;
                }
            };
            let want = tree_obs(&fresh_parse(text, *cfg));
            if got.0 != want.0 {
                let common = got.0.bytes().zip(want.0.bytes()).take_while(|(a, b)| a == b).count();
                res.violations.push((
                    "tree-differs".into(),
                    format!("step {i}: tree of file {u} parsed through the shared cache differs from a fresh parse of the same text {:?} (cfg {cfg}); dumps diverge at char {common}: cached …{:?} fresh …{:?}",
                        text, &got.0[floor_boundary(&got.0, common)..floor_boundary(&got.0, common + 60)], &want.0[floor_boundary(&want.0, common)..floor_boundary(&want.0, common + 60)]),
                ));
            }
            if got.1 != want.1 {
                res.violations.push(("errors-differ".into(), format!("step {i}: error list of file {u} differs from a fresh parse of {:?} (cfg {cfg}): cached {:?} fresh {:?}", text, got.1, want.1)));
            }
            if let Some(errs) = vfs.get_file_parse_error(fid) {
                let e2: Vec<String> = errs.iter().map(|e| format!("{:?}|{}|{}..{}", e.kind, e.message, u32::from(e.range.start()), u32::from(e.range.end()))).collect();
                if e2 != want.1 {
                    res.violations.push(("errors-differ".into(), format!("step {i}: get_file_parse_error of file {u} differs from a fresh parse of {:?}", text)));
                }
            }
        }
    }
    res
}

fn events_json(events: &[MarkEvent]) -> Vec<Value> {
    events
        .iter()
        .map(|e| match e {
            MarkEvent::NodeStart { kind, parent } => json!([0, *kind as u16, parent]),
            MarkEvent::EatToken { kind, range } => json!([1, *kind as u16, range.start_offset, range.length]),
            MarkEvent::NodeEnd => json!([2]),
            MarkEvent::Trivia => json!([3]),
        })
        .collect()
}

fn shrink_history(steps: &[Step], sig: &str) -> Vec<Step> {
    let fails = |s: &[Step]| guarded(|| run_history(s)).map(|r| r.violations.iter().any(|v| v.0 == sig)).unwrap_or(false);
    let mut cur = steps.to_vec();
    let mut progressed = true;
    while progressed {
        progressed = false;
        let mut i = 0;
        while i < cur.len() {
            let mut cand = cur.clone();
            cand.remove(i);
            if !cand.is_empty() && fails(&cand) {
                cur = cand;
                progressed = true;
            } else {
                i += 1;
            }
        }
    }
    cur
}

fn fixed_histories() -> Vec<Vec<Step>> {
    let mk = |v: Vec<(usize, &str, usize)>| v.into_iter().map(|(u, t, c)| Step { uri: u, text: Some(t.to_string()), cfg: c, remote: false }).collect::<Vec<_>>();
    let mut hs = vec![
        mk(vec![(0, "local a = 1\n", 7), (1, "local a = 1\n", 7), (0, "local a = 2\n", 7), (0, "local a = 1\n", 7)]),
        mk(vec![(0, "x = x // 2\n", 0), (1, "x = x // 2\n", 5), (2, "x = x // 2\n", 9)]),
        mk(vec![(0, "{,then", 7), (1, "{,then\n{,then", 7), (0, "local a = 1\0 local b = 2\n", 7)]),
        mk(vec![(0, "---@class A\n---@field x number\nlocal A = {}\n", 7), (1, "---@class A\n---@field x string\nlocal A = {}\n", 7), (2, "---@class A\n---@field x number\nlocal A = {}\n", 2)]),
        mk(vec![(0, "", 7), (1, "\n", 7), (2, " ", 7), (0, "\n", 7)]),
        mk(vec![(0, "goto l\n::l::\n", 0), (1, "goto l\n::l::\n", 4), (2, "local y = `tpl`\n", 3), (3, "local y = `tpl`\n", 7)]),
    ];
    let dir = std::env::var("VERIF_CORPUS").unwrap_or_else(|_| "/verif/corpus/C04".to_string());
    if let Ok(rd) = std::fs::read_dir(&dir) {
        let mut ps: Vec<_> = rd.filter_map(|e| e.ok()).map(|e| e.path()).collect();
        ps.sort();
        for p in ps {
            if let Ok(t) = std::fs::read_to_string(&p) {
                if let Ok(v) = serde_json::from_str::<Value>(&t) {
                    if let Some(a) = v.get("histories").and_then(|x| x.as_array()) {
                        for h in a {
                            if let Some(s) = parse_history(h) {
                                hs.push(s);
                            }
                        }
                    }
                }
            }
        }
    }
    hs
}

fn parse_history(v: &Value) -> Option<Vec<Step>> {
    let a = v.as_array()?;
    let mut out = Vec::new();
    for s in a {
        out.push(Step {
            uri: s.get("uri")?.as_u64()? as usize,
            text: s.get("text").and_then(|t| t.as_str()).map(|t| t.to_string()),
            cfg: s.get("cfg")?.as_u64()? as usize,
            remote: s.get("remote").and_then(|b| b.as_bool()).unwrap_or(false),
        });
    }
    Some(out)
}

fn main() {
    let args = Args::parse();
    let seed = args.u64("seed", 1);
    let n = args.usize("n", 200);
    let maxsteps = args.usize("maxsteps", 14);
    let mut rng = Rng::new(seed ^ 0xC04);
    match args.cmd.as_str() {
        "search" => {
            let mut hs = fixed_histories();
            for _ in 0..n {
                hs.push(gen_history(&mut rng, maxsteps));
            }
            let (mut parses, mut shared, mut total, mut nontrivial) = (0usize, 0usize, 0usize, 0usize);
            let mut unobservable = 0usize;
            let mut distinct: HashSet<u64> = HashSet::new();
            let mut sigs: HashSet<String> = HashSet::new();
            let mut steps_total = 0usize;
            let mut cfg_switches = 0usize;
            for h in &hs {
                let r = match guarded(|| run_history(h)) {
                    Ok(r) => r,
                    Err(_) => continue, // a panic is C02's business
                };
                parses += r.parses;
                unobservable += r.unobservable;
                shared += r.shared_nodes;
                total += r.total_nodes;
                steps_total += h.len();
                cfg_switches += h.windows(2).filter(|w| w[0].cfg != w[1].cfg).count();
                if r.shared_nodes > 0 {
                    nontrivial += 1;
                    use std::hash::{Hash, Hasher};
                    let mut hh = std::collections::hash_map::DefaultHasher::new();
                    for s in h {
                        (s.uri, &s.text, s.cfg, s.remote).hash(&mut hh);
                    }
                    distinct.insert(hh.finish());
                }
                for (sig, what) in r.violations {
                    if sigs.insert(sig.clone()) {
                        let small = shrink_history(h, &sig);
                        println!("{}", json!({"signature": sig, "what": what, "history": steps_json(&small), "original_steps": h.len()}));
                    }
                }
            }
            println!(
                "{}",
                json!({"summary": {"cases": hs.len(), "steps": steps_total, "parses_through_cache": parses, "distinct_nontrivial": distinct.len(),
                       "histories_with_shared_green_nodes": nontrivial, "green_nodes": total, "green_nodes_shared_with_earlier_trees": shared,
                       "config_switches_inside_histories": cfg_switches, "open_files_without_a_stored_tree": unobservable}})
            );
        }
        "corr" => {
            // short histories of short texts: per step the text, the event list of a standalone parse, and the content of the
            // tree the Vfs (shared cache) returned
            for _ in 0..n {
                let h = gen_history(&mut rng, 5);
                let vg = VirtualUrlGenerator::new();
                let mut vfs = Vfs::new();
                let mut cur_cfg = usize::MAX;
                let mut out = Vec::new();
                let mut ok = true;
                for st in &h {
                    let Some(text) = &st.text else { continue };
                    if text.len() > 120 {
                        ok = false;
                        break;
                    }
                    if st.cfg != cur_cfg {
                        vfs.update_config(Arc::new(emmyrc(st.cfg)));
                        cur_cfg = st.cfg;
                    }
                    let uri = vg.new_uri(&format!("c04_{}.lua", st.uri));
                    let fid = match guarded(|| vfs.set_file_content(&uri, Some(text.clone()))) {
                        Ok(f) => f,
                        Err(_) => {
                            ok = false;
                            break;
                        }
                    };
                    let e = emmyrc(st.cfg);
                    let mut cache = NodeCache::default();
                    let tr = match guarded(|| parse_trace(text, e.get_parse_config(&mut cache))) {
                        Ok(t) => t,
                        Err(_) => {
                            ok = false;
                            break;
                        }
                    };
                    let tree = vfs.get_syntax_tree(&fid).unwrap();
                    let mut term = String::new();
                    dterm(&tree.get_red_root(), &mut term);
                    let cps: Vec<u32> = text.chars().map(|c| c as u32).collect();
                    out.push(json!({"t": cps, "events": events_json(&tr.events), "dump": term, "cfg": st.cfg}));
                }
                if ok && !out.is_empty() {
                    println!("{}", json!({"steps": out}));
                }
            }
        }
        "one" => {
            let v: Value = serde_json::from_str(&args.str("history-json", "[]")).unwrap();
            if let Some(h) = parse_history(&v) {
                let r = run_history(&h);
                for (sig, what) in r.violations {
                    println!("{}", json!({"signature": sig, "what": what, "history": steps_json(&h), "original_steps": h.len()}));
                }
            }
        }
        _ => {
            eprintln!("usage: c04 search|corr|one");
            std::process::exit(2);
        }
    }
}
