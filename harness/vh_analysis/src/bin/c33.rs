//! C33 harness: `LuaModuleIndex` (require-path resolution).
//!   c33 corr   --seed S --n N [--corpus DIR]  -> JSON lines: one case per line = configuration + op sequence with the
//!                                                real index's canonical dump / return value after every op
//!   c33 search --seed S --n N                 -> JSON lines: violations of the property oracle evaluated end-to-end
//!                                                through EmmyLuaAnalysis (independent of the model) + summary
//!   c33 one    --case-json '{..}'             -> replay one search case
use emmylua_code_analysis::{
    EmmyLuaAnalysis, Emmyrc, EmmyrcWorkspaceModuleMap, FileId, LuaIndex, LuaModuleIndex, LuaSemanticDeclId, LuaType,
    ModuleVisibility, SemanticDeclLevel, WorkspaceFolder, WorkspaceId, WorkspaceImport, file_path_to_uri,
};
use emmylua_parser::{LuaAstNode, LuaExpr, LuaLocalStat};
use serde_json::{Value, json};
use std::collections::{BTreeMap, BTreeSet, HashSet};
use std::path::PathBuf;
use std::sync::Arc;
use vh_common::{Args, Rng, guarded};

const ATOMS: &[&str] = &[
    "a", "b", "c", "lib", "src", "init", "m", "x.y", "util", "log", "vendor_packages", "treesitter_context_ext", "ü", "数据", "naïve_mod", "zz",
    "q", "plugin_manager_core_x",
];
/// short and long directory names (1 .. ~22 characters, some multi-byte: byte length != char length)
const SHORT_DIRS: &[&str] = &["a", "b", "c", "x", "q", "ü", "zz"];
const LONG_DIRS: &[&str] = &["vendor_packages", "treesitter_context_ext", "plugin_manager_core_x", "数据数据数据数据", "naïve_module_directory", "third_party_long"];
const LEAVES: &[&str] = &["log", "util", "m", "core", "init_x", "日志"];
const PATTERN_SETS: &[&[&str]] = &[
    &["?.lua", "?/init.lua"],
    &["?.lua", "?/init.lua"],
    &["?.lua", "?/init.lua", "src/?.lua"],
    &["?.lua", "lib/?/m.lua"],
    &["?.lua.txt", "?.lua", "?/init.lua"],
    &["?.lua", "?.lua", "?/init.lua", "?.lua"],
    &["m.lua", "?.lua"],
    &["?/init.lua", "src/?/init.lua", "?.lua"],
];
const MAPS: &[&[(&str, &str)]] = &[
    &[],
    &[],
    &[],
    &[("^lib\\.(.*)$", "$1")],
    &[("^a\\.", "z.")],
    &[("^src\\.", ""), ("^b$", "a.b")],
    &[("^@/", "")],
];

#[derive(Clone, Debug)]
struct Root {
    comps: Vec<String>,
    ws: u32,
    pkg: Option<Vec<String>>,
}

#[derive(Clone, Debug)]
struct Cfg {
    patterns: Vec<String>,
    roots: Vec<Root>,
    fuzzy: bool,
    map: Vec<(String, String)>,
}

fn cfg_json(c: &Cfg) -> Value {
    json!({
        "patterns": c.patterns,
        "roots": c.roots.iter().map(|r| json!({"comps": r.comps, "ws": r.ws, "pkg": r.pkg})).collect::<Vec<_>>(),
        "fuzzy": c.fuzzy,
        "map": c.map.iter().map(|(a, b)| json!([a, b])).collect::<Vec<_>>(),
    })
}

fn cfg_from_json(v: &Value) -> Cfg {
    let strs = |x: &Value| -> Vec<String> { x.as_array().map(|a| a.iter().map(|s| s.as_str().unwrap_or("").to_string()).collect()).unwrap_or_default() };
    Cfg {
        patterns: strs(&v["patterns"]),
        roots: v["roots"]
            .as_array()
            .map(|a| {
                a.iter()
                    .map(|r| Root { comps: strs(&r["comps"]), ws: r["ws"].as_u64().unwrap_or(1) as u32, pkg: if r["pkg"].is_null() { None } else { Some(strs(&r["pkg"])) } })
                    .collect()
            })
            .unwrap_or_default(),
        fuzzy: v["fuzzy"].as_bool().unwrap_or(false),
        map: v["map"].as_array().map(|a| a.iter().map(|p| (p[0].as_str().unwrap_or("").to_string(), p[1].as_str().unwrap_or("").to_string())).collect()).unwrap_or_default(),
    }
}

fn abs_path(comps: &[String]) -> String {
    format!("/{}", comps.join("/"))
}

fn gen_cfg(rng: &mut Rng) -> Cfg {
    let patterns: Vec<String> = rng.pick(PATTERN_SETS).iter().map(|s| s.to_string()).collect();
    let map: Vec<(String, String)> = rng.pick(MAPS).iter().map(|(a, b)| (a.to_string(), b.to_string())).collect();
    let mut roots = vec![Root { comps: vec!["w".into()], ws: 1, pkg: None }];
    match rng.below(8) {
        0 | 1 => roots.push(Root { comps: vec!["w".into(), "lib".into()], ws: 3, pkg: None }),
        2 => roots.insert(0, Root { comps: vec!["w".into(), "lib".into()], ws: 3, pkg: None }),
        3 => roots.push(Root { comps: vec!["v".into()], ws: 3, pkg: None }),
        4 => {
            roots.push(Root { comps: vec!["v".into()], ws: 3, pkg: Some(vec!["a".into()]) });
            roots.push(Root { comps: vec!["v".into()], ws: 4, pkg: Some(vec!["b".into()]) });
        }
        5 => {
            roots.push(Root { comps: vec!["w".into(), "src".into()], ws: 1, pkg: None });
            roots.push(Root { comps: vec!["v".into(), "m.lua".into()], ws: 3, pkg: None });
        }
        _ => {}
    }
    Cfg { patterns, roots, fuzzy: rng.chance(2, 3), map }
}

fn gen_file_comps(rng: &mut Rng, cfg: &Cfg) -> Vec<String> {
    let root = rng.pick(&cfg.roots).clone();
    let mut comps = if rng.chance(1, 12) { vec!["elsewhere".to_string()] } else { root.comps.clone() };
    if comps.last().map(|s| s.ends_with(".lua")).unwrap_or(false) && rng.chance(3, 4) {
        return comps; // the root itself is a file
    }
    if let Some(p) = &root.pkg {
        if rng.chance(3, 4) {
            comps.extend(p.iter().cloned());
        }
    }
    let depth = rng.below(3);
    for _ in 0..depth {
        comps.push(rng.pick(ATOMS).to_string());
    }
    let stem = rng.pick(ATOMS).to_string();
    match rng.below(10) {
        0 => comps.push(format!("{stem}.txt")),
        1 => comps.push(format!("{stem}.lua.txt")),
        2 | 3 => {
            comps.push(stem);
            comps.push("init.lua".to_string());
        }
        _ => comps.push(format!("{stem}.lua")),
    }
    comps
}

fn build_index(cfg: &Cfg) -> LuaModuleIndex {
    let mut idx = LuaModuleIndex::new();
    let mut rc = Emmyrc::default();
    rc.strict.require_path = !cfg.fuzzy;
    rc.workspace.module_map = cfg.map.iter().map(|(p, r)| EmmyrcWorkspaceModuleMap { pattern: p.clone(), replace: r.clone() }).collect();
    idx.update_config(Arc::new(rc));
    idx.set_module_extract_patterns(cfg.patterns.clone());
    for r in &cfg.roots {
        let import = match &r.pkg {
            None => WorkspaceImport::All,
            Some(p) => WorkspaceImport::Package(PathBuf::from(p.join("/"))),
        };
        idx.add_workspace_root_with_import(PathBuf::from(abs_path(&r.comps)), import, WorkspaceId { id: r.ws });
    }
    idx
}

/// one case: run the ops on the real index, recording the dump after every mutating op and the answer of every query;
/// also record the rewrite function on every string it is applied to, and match_pattern on every relative path
fn run_corr_case(cfg: &Cfg, ops: &[Value]) -> Value {
    let mut idx = build_index(cfg);
    let mut steps = Vec::new();
    // one rewrite table per configuration epoch (the moduleMap changes with the configuration)
    let mut rws: Vec<BTreeMap<String, String>> = vec![BTreeMap::new()];
    let mut cfg_steps: Vec<usize> = Vec::new();
    let mut cur_patterns = cfg.patterns.clone();
    let mut mp: Vec<(String, String, Option<String>)> = Vec::new();
    macro_rules! note_rw {
        ($idx:expr, $s:expr) => {{
            let v = $idx.verif_replace_module_path($s);
            if let Some(last) = rws.last_mut() {
                last.insert($s.to_string(), v);
            }
        }};
    }
    for op in ops {
        let kind = op[0].as_str().unwrap_or("");
        match kind {
            "addpath" => {
                let f = op[1].as_u64().unwrap_or(0) as u32;
                let comps: Vec<String> = op[2].as_array().map(|a| a.iter().map(|s| s.as_str().unwrap_or("").to_string()).collect()).unwrap_or_default();
                let path = abs_path(&comps);
                // the strings the rewrite / pattern functions will see
                for r in &cfg.roots {
                    if comps.len() >= r.comps.len() && comps[..r.comps.len()] == r.comps[..] {
                        let rel = comps[r.comps.len()..].join("/");
                        mp.push((cur_patterns.join("\u{1}"), rel.clone(), idx.match_pattern(&rel)));
                    }
                }
                if let Some((m, _)) = idx.extract_module_path(&path) {
                    note_rw!(idx, &m.replace(['\\', '/'], "."));
                }
                let ex = idx.extract_module_path(&path).map(|(m, w)| json!([m, w.id]));
                let ret = idx.add_module_by_path(FileId { id: f }, &path).map(|w| w.id);
                steps.push(json!({"op": op, "ret": ret, "extract": ex, "dump": idx.verif_dump()}));
            }
            "addmod" => {
                let f = op[1].as_u64().unwrap_or(0) as u32;
                let m = op[2].as_str().unwrap_or("").to_string();
                let ws = op[3].as_u64().unwrap_or(1) as u32;
                let ret = idx.add_module_by_module_path(FileId { id: f }, m, WorkspaceId { id: ws }).is_some();
                steps.push(json!({"op": op, "ret": ret, "dump": idx.verif_dump()}));
            }
            "remove" => {
                let f = op[1].as_u64().unwrap_or(0) as u32;
                idx.remove(FileId { id: f });
                steps.push(json!({"op": op, "dump": idx.verif_dump()}));
            }
            "hide" => {
                let f = op[1].as_u64().unwrap_or(0) as u32;
                idx.set_module_visibility(FileId { id: f }, ModuleVisibility::Hide);
                steps.push(json!({"op": op, "dump": idx.verif_dump()}));
            }
            "clear" => {
                idx.clear();
                steps.push(json!({"op": op, "dump": idx.verif_dump()}));
            }
            "config" => {
                // a configuration change: moduleMap, strict require path and the module patterns are re-installed
                let nc = cfg_from_json(&op[1]);
                let mut rc = Emmyrc::default();
                rc.strict.require_path = !nc.fuzzy;
                rc.workspace.module_map = nc.map.iter().map(|(p, r)| EmmyrcWorkspaceModuleMap { pattern: p.clone(), replace: r.clone() }).collect();
                idx.update_config(Arc::new(rc));
                idx.set_module_extract_patterns(nc.patterns.clone());
                cur_patterns = nc.patterns.clone();
                rws.push(BTreeMap::new());
                cfg_steps.push(steps.len());
                steps.push(json!({"op": op, "dump": idx.verif_dump()}));
            }
            "find" => {
                let q = op[1].as_str().unwrap_or("");
                note_rw!(idx, &q.replace(['\\', '/'], "."));
                let ret = idx.find_module(q).map(|i| i.file_id.id);
                steps.push(json!({"op": op, "ret": ret}));
            }
            _ => {}
        }
    }
    let table = |m: &BTreeMap<String, String>| -> Value { Value::Array(m.iter().map(|(a, b)| json!([a, b])).collect()) };
    for (k, si) in cfg_steps.iter().enumerate() {
        steps[*si]["rw"] = table(&rws[k + 1]);
    }
    json!({
        "cfg": cfg_json(cfg),
        "rw": table(&rws[0]),
        "mp": mp.into_iter().map(|(p, a, b)| json!([p.split('\u{1}').collect::<Vec<_>>(), a, b])).collect::<Vec<_>>(),
        "sizes": idx.verif_sizes().into_iter().map(|(k, v)| json!([k, v])).collect::<Vec<_>>(),
        "steps": steps,
    })
}

fn gen_query(rng: &mut Rng, names: &[String]) -> String {
    if names.is_empty() || rng.chance(1, 6) {
        let n = rng.range(1, 3);
        let parts: Vec<&str> = (0..n).map(|_| *rng.pick(ATOMS)).collect();
        return parts.join(".");
    }
    let full = rng.pick(names).clone();
    let parts: Vec<&str> = full.split('.').collect();
    match rng.below(8) {
        0 | 1 | 2 => full,
        3 | 4 => {
            let k = rng.below(parts.len());
            parts[k..].join(".")
        }
        5 => full.replace('.', "/"),
        6 => format!("{}.{}", rng.pick(ATOMS), full),
        _ => format!("lib.{}", full),
    }
}


/// several suffix candidates for one required path at different depths, with the depth order and the text-length
/// order deliberately decorrelated (a shallow candidate under a LONG directory name, deep candidates under SHORT
/// ones), with or without an exact match.  Returns (file component lists under root "w", require strings).
fn gen_fuzzy_layout(rng: &mut Rng) -> (Vec<Vec<String>>, Vec<String>) {
    let nseg = rng.range(1, 2);
    let mut suffix: Vec<String> = Vec::new();
    for i in 0..nseg {
        suffix.push(if i + 1 == nseg { rng.pick(LEAVES).to_string() } else { rng.pick(&["util", "core", "ü", "net"]).to_string() });
    }
    let file_of = |prefix: Vec<String>| -> Vec<String> {
        let mut c = vec!["w".to_string()];
        c.extend(prefix);
        c.extend(suffix[..suffix.len() - 1].iter().cloned());
        c.push(format!("{}.lua", suffix[suffix.len() - 1]));
        c
    };
    let mut files = Vec::new();
    // shallow, long text
    files.push(file_of(vec![rng.pick(LONG_DIRS).to_string()]));
    // deep, short text (depth 2 or 3)
    let depth = rng.range(2, 3);
    files.push(file_of((0..depth).map(|_| rng.pick(SHORT_DIRS).to_string()).collect()));
    if rng.chance(1, 2) {
        // a second shallow candidate: the lexicographic tie-break among equal depths
        files.push(file_of(vec![if rng.chance(1, 2) { rng.pick(LONG_DIRS).to_string() } else { rng.pick(SHORT_DIRS).to_string() }]));
    }
    if rng.chance(1, 3) {
        files.push(file_of((0..rng.range(2, 4)).map(|_| rng.pick(SHORT_DIRS).to_string()).collect()));
    }
    if rng.chance(1, 3) {
        files.push(file_of(vec![])); // the exact match
    }
    files.sort();
    files.dedup();
    // registration order must not matter: shuffle
    for i in (1..files.len()).rev() {
        files.swap(i, rng.below(i + 1));
    }
    let q = suffix.join(".");
    let mut queries = vec![q.clone(), q.replace('.', "/")];
    queries.push(suffix[suffix.len() - 1].clone());
    (files, queries)
}

fn gen_ops(rng: &mut Rng, cfg: &Cfg, nops: usize) -> Vec<Value> {
    let mut ops = Vec::new();
    let nfiles = rng.range(2, 6) as u32;
    // fixed path per file id (so that re-adding a file re-adds the same path most of the time)
    let paths: Vec<Vec<String>> = (0..=nfiles).map(|_| gen_file_comps(rng, cfg)).collect();
    // a scratch index only to learn module names for the query generator
    let mut scratch = build_index(cfg);
    for _ in 0..nops {
        let f = rng.range(1, nfiles as usize) as u32;
        let names: Vec<String> = scratch.get_module_infos().iter().map(|i| i.full_module_name.clone()).collect();
        match rng.below(20) {
            0..=7 => {
                let comps = if rng.chance(1, 8) { gen_file_comps(rng, cfg) } else { paths[f as usize].clone() };
                scratch.add_module_by_path(FileId { id: f }, &abs_path(&comps));
                ops.push(json!(["addpath", f, comps]));
            }
            8 | 9 => {
                let m = match rng.below(6) {
                    0 => "".to_string(),
                    1 => "a..b".to_string(),
                    2 => format!("{}.", rng.pick(ATOMS)),
                    _ => gen_query(rng, &names),
                };
                scratch.add_module_by_module_path(FileId { id: f }, m.clone(), WorkspaceId { id: 1 });
                ops.push(json!(["addmod", f, m, 1]));
            }
            10..=13 => {
                scratch.remove(FileId { id: f });
                ops.push(json!(["remove", f]));
            }
            14 | 15 => {
                if rng.chance(1, 3) {
                    ops.push(json!(["hide", f]));
                } else {
                    // switch the module map / strictness / patterns (roots stay)
                    let mut nc = gen_cfg(rng);
                    nc.roots = cfg.roots.clone();
                    if rng.chance(1, 2) {
                        nc.map = Vec::new();
                    }
                    ops.push(json!(["config", cfg_json(&nc)]));
                }
            }
            16 => {
                if rng.chance(1, 3) {
                    scratch.clear();
                    ops.push(json!(["clear"]));
                } else {
                    ops.push(json!(["find", gen_query(rng, &names)]));
                }
            }
            _ => ops.push(json!(["find", gen_query(rng, &names)])),
        }
    }
    // always end with a few queries over what is there
    let names: Vec<String> = scratch.get_module_infos().iter().map(|i| i.full_module_name.clone()).collect();
    for _ in 0..3 {
        ops.push(json!(["find", gen_query(rng, &names)]));
    }
    ops
}


fn gen_layout_ops(rng: &mut Rng) -> Vec<Value> {
    let (files, queries) = gen_fuzzy_layout(rng);
    let mut ops = Vec::new();
    for (i, f) in files.iter().enumerate() {
        ops.push(json!(["addpath", i + 1, f]));
    }
    for q in &queries {
        ops.push(json!(["find", q]));
    }
    // remove the current winner's competitors one by one and ask again
    let k = rng.below(files.len()) + 1;
    ops.push(json!(["remove", k]));
    for q in &queries {
        ops.push(json!(["find", q]));
    }
    ops
}

fn layout_cfg(rng: &mut Rng) -> Cfg {
    Cfg {
        patterns: vec!["?.lua".into(), "?/init.lua".into()],
        roots: vec![Root { comps: vec!["w".into()], ws: 1, pkg: None }],
        fuzzy: !rng.chance(1, 8),
        map: vec![],
    }
}

// ------------------------------------------------------------------------------------------------ search (end to end)

/// independent statement of "path matches a configured pattern": every module name a file may legitimately have
fn candidate_names(cfg: &Cfg, comps: &[String], rewrite: &dyn Fn(&str) -> String) -> BTreeSet<String> {
    let mut out = BTreeSet::new();
    for r in &cfg.roots {
        if comps.len() < r.comps.len() || comps[..r.comps.len()] != r.comps[..] {
            continue;
        }
        let relc = &comps[r.comps.len()..];
        if let Some(p) = &r.pkg {
            if relc.len() < p.len() || relc[..p.len()] != p[..] {
                continue;
            }
        }
        let rel = relc.join("/");
        if relc.is_empty() {
            // the workspace root is the file itself: the module is named after the file stem
            if let Some(last) = r.comps.last() {
                let stem = match last[1..].find('.') {
                    Some(i) => &last[..i + 1],
                    None => &last[..],
                };
                out.insert(rewrite(&stem.replace(['\\', '/'], ".")));
            }
        }
        for pat in &cfg.patterns {
            let pat = pat.replace('\\', "/");
            if pat.matches('?').count() != 1 {
                continue;
            }
            let (pre, suf) = pat.split_once('?').unwrap_or(("", ""));
            if rel.len() >= pre.len() + suf.len() && rel.starts_with(pre) && rel.ends_with(suf) {
                let cap = &rel[pre.len()..rel.len() - suf.len()];
                let name = cap.replace(['\\', '/'], ".");
                out.insert(rewrite(&name));
            }
        }
    }
    out
}

struct World {
    analysis: EmmyLuaAnalysis,
}

fn build_world(cfg: &Cfg) -> World {
    let mut analysis = EmmyLuaAnalysis::new();
    let mut rc = Emmyrc::default();
    rc.strict.require_path = !cfg.fuzzy;
    rc.workspace.module_map = cfg.map.iter().map(|(p, r)| EmmyrcWorkspaceModuleMap { pattern: p.clone(), replace: r.clone() }).collect();
    // express the pattern set through the configuration: `?.ext` patterns become extensions, the rest requirePattern
    let mut exts = Vec::new();
    let mut req = Vec::new();
    for p in &cfg.patterns {
        if let Some(e) = p.strip_prefix("?.") {
            if !e.contains('/') && !e.contains('?') {
                exts.push(format!(".{e}"));
                continue;
            }
        }
        req.push(p.clone());
    }
    rc.runtime.extensions = exts;
    rc.runtime.require_pattern = req;
    analysis.update_config(Arc::new(rc));
    for r in &cfg.roots {
        let root = PathBuf::from(abs_path(&r.comps));
        if r.ws == 1 {
            analysis.add_main_workspace(root);
        } else {
            let folder = match &r.pkg {
                None => WorkspaceFolder::new(root, true),
                Some(p) => WorkspaceFolder::with_package(root, PathBuf::from(p.join("/"))),
            };
            analysis.add_library_workspace(&folder);
        }
    }
    World { analysis }
}

/// the effective pattern list of a world (update_config derives it from extensions + requirePattern)
fn effective_patterns(cfg: &Cfg) -> Vec<String> {
    let mut exts: Vec<String> = Vec::new();
    let mut req = Vec::new();
    for p in &cfg.patterns {
        if let Some(e) = p.strip_prefix("?.") {
            if !e.contains('/') && !e.contains('?') {
                exts.push(e.to_string());
                continue;
            }
        }
        req.push(p.clone());
    }
    if !exts.contains(&"lua".to_string()) {
        exts.push("lua".to_string());
    }
    let mut pats: Vec<String> = exts.iter().map(|e| format!("?.{e}")).collect();
    if req.is_empty() {
        pats.extend(exts.iter().map(|e| format!("?/init.{e}")));
    } else {
        pats.extend(req);
    }
    pats
}

fn module_text(tag: u32) -> String {
    format!("local M = {{ tag{tag} = {tag} }}\nreturn M\n")
}

fn main_text(queries: &[String]) -> String {
    let mut s = String::new();
    for (i, q) in queries.iter().enumerate() {
        s.push_str(&format!("local r{i} = require({})\nlocal u{i} = r{i}\n", serde_json::to_string(q).unwrap_or_default()));
    }
    s
}

/// for every require line of the main file: (inferred type's file, semantic decl's file, find_module's file)
fn observe_requires(w: &World, main_id: FileId, queries: &[String]) -> Vec<(Option<u32>, Option<u32>, Option<u32>, String)> {
    let mut out = Vec::new();
    let Some(sm) = w.analysis.compilation.get_semantic_model(main_id) else {
        return out;
    };
    let root = sm.get_root().clone();
    let stats: Vec<LuaLocalStat> = root.descendants::<LuaLocalStat>().collect();
    let mut i = 0usize;
    for (si, stat) in stats.iter().enumerate() {
        let Some(LuaExpr::CallExpr(call)) = stat.get_value_exprs().next() else {
            continue;
        };
        if !call.is_require() {
            continue;
        }
        let q = queries.get(i).cloned().unwrap_or_default();
        i += 1;
        // the use of the local in the next statement: `local u<i> = r<i>`
        let use_expr = stats.get(si + 1).and_then(|s| s.get_value_exprs().next());
        let ty = sm.infer_expr(LuaExpr::CallExpr(call.clone()));
        let ty_file = match &ty {
            Ok(LuaType::TableConst(inf)) => Some(inf.file_id.id),
            _ => None,
        };
        let ty_dbg = match &ty {
            Ok(t) => format!("{t:?}"),
            Err(e) => format!("ERR {e:?}"),
        };
        // go-to-definition view: the declaration behind the local bound to the require call
        let decl = use_expr.and_then(|e| sm.find_decl(rowan::NodeOrToken::Node(e.syntax().clone()), SemanticDeclLevel::default()));
        let decl_file = match decl {
            Some(LuaSemanticDeclId::LuaDecl(d)) if d.file_id != main_id => Some(d.file_id.id),
            _ => None,
        };
        let fm = w.analysis.compilation.get_db().get_module_index().find_module(&q).map(|m| m.file_id.id);
        out.push((ty_file, decl_file, fm, ty_dbg));
    }
    out
}

/// a search case: configuration, module files (id by position), queries, and a history of steps
/// step = ["add", i] | ["remove", i] | ["addall"]
fn run_search_case(case: &Value, out: &mut Vec<Value>) -> (usize, bool) {
    let cfg0 = cfg_from_json(&case["cfg"]);
    let mut cfg = cfg0.clone();
    cfg.patterns = effective_patterns(&cfg0);
    let files: Vec<Vec<String>> = case["files"]
        .as_array()
        .map(|a| a.iter().map(|c| c.as_array().map(|x| x.iter().map(|s| s.as_str().unwrap_or("").to_string()).collect()).unwrap_or_default()).collect())
        .unwrap_or_default();
    let queries: Vec<String> = case["queries"].as_array().map(|a| a.iter().map(|s| s.as_str().unwrap_or("").to_string()).collect()).unwrap_or_default();
    let steps: Vec<Value> = case["steps"].as_array().cloned().unwrap_or_default();
    let mut w = build_world(&cfg0);
    let mut checks = 0usize;
    let mut nontrivial = false;
    let mut report = |sig: &str, what: String| {
        out.push(json!({"signature": sig, "what": what, "case": case}));
    };
    let main_comps: Vec<String> = vec!["w".into(), "zz_main_requires.lua".into()];
    let main_uri = match file_path_to_uri(&PathBuf::from(abs_path(&main_comps))) {
        Some(u) => u,
        None => return (0, false),
    };
    let uri_of = |comps: &Vec<String>| file_path_to_uri(&PathBuf::from(abs_path(comps)));
    let mut live: BTreeMap<usize, FileId> = BTreeMap::new();
    let mut removed_ids: HashSet<u32> = HashSet::new();
    let mut prev_exact: BTreeMap<String, u32> = BTreeMap::new();
    for (si, step) in steps.iter().enumerate() {
        let kind = step[0].as_str().unwrap_or("");
        match kind {
            "add" => {
                let i = step[1].as_u64().unwrap_or(0) as usize;
                if let Some(comps) = files.get(i) {
                    if let Some(uri) = uri_of(comps) {
                        if let Some(id) = w.analysis.update_file_by_uri(&uri, Some(module_text(i as u32))) {
                            live.insert(i, id);
                            removed_ids.remove(&id.id);
                        }
                    }
                }
            }
            "addall" => {
                let mut batch = Vec::new();
                for (i, comps) in files.iter().enumerate() {
                    if let Some(uri) = uri_of(comps) {
                        batch.push((uri, Some(module_text(i as u32))));
                    }
                }
                w.analysis.update_files_by_uri(batch);
                for (i, comps) in files.iter().enumerate() {
                    if let Some(uri) = uri_of(comps) {
                        if let Some(id) = w.analysis.get_file_id(&uri) {
                            live.insert(i, id);
                            removed_ids.remove(&id.id);
                        }
                    }
                }
            }
            "remove" => {
                let i = step[1].as_u64().unwrap_or(0) as usize;
                if let Some(comps) = files.get(i) {
                    if let Some(uri) = uri_of(comps) {
                        if let Some(id) = w.analysis.remove_file_by_uri(&uri) {
                            live.remove(&i);
                            removed_ids.insert(id.id);
                        }
                    }
                }
            }
            "reindex" => w.analysis.reindex(),
            _ => {}
        }
        // (re)analyse the main file so that its requires are resolved against the current index
        let Some(main_id) = w.analysis.update_file_by_uri(&main_uri, Some(main_text(&queries))) else {
            continue;
        };
        let db = w.analysis.compilation.get_db();
        let midx = db.get_module_index();
        let rewrite = |s: &str| midx.verif_replace_module_path(s);
        // names the implementation gave to the live files, each checked to be a legitimate candidate
        let mut name_of: BTreeMap<u32, String> = BTreeMap::new();
        let mut names_count: BTreeMap<String, usize> = BTreeMap::new();
        for (i, id) in &live {
            let cands = candidate_names(&cfg, &files[*i], &rewrite);
            match midx.get_module(*id) {
                Some(info) => {
                    if !cands.contains(&info.full_module_name) {
                        report("name-not-from-pattern", format!("step {si}: file {} has module name {:?} but the configured patterns/roots only allow {:?}", abs_path(&files[*i]), info.full_module_name, cands));
                    }
                    name_of.insert(id.id, info.full_module_name.clone());
                    *names_count.entry(info.full_module_name.clone()).or_default() += 1;
                }
                None => {
                    if !cands.is_empty() {
                        report("matching-file-not-indexed", format!("step {si}: file {} matches a pattern ({:?}) but is not in the module index", abs_path(&files[*i]), cands));
                    }
                }
            }
        }
        let obs = observe_requires(&w, main_id, &queries);
        for (qi, (ty_file, decl_file, fm, ty_dbg)) in obs.iter().enumerate() {
            let q = &queries[qi];
            checks += 1;
            let qn = q.replace(['\\', '/'], ".");
            let qm = rewrite(&qn);
            // O5: nothing resolves to a removed file
            for (label, x) in [("find_module", fm), ("inferred type", ty_file), ("definition", decl_file)] {
                if let Some(x) = x {
                    if removed_ids.contains(x) {
                        report("resolves-to-removed-file", format!("step {si}: require({q:?}) {label} still points to removed file id {x}"));
                    }
                }
            }
            // O4: the three views agree
            if fm != ty_file || fm != decl_file {
                report("views-disagree", format!("step {si}: require({q:?}): find_module -> {fm:?}, inferred type -> {ty_file:?} ({ty_dbg}), definition -> {decl_file:?}"));
            }
            // O1: soundness of the answer
            if let Some(f) = fm {
                nontrivial = true;
                match name_of.get(f) {
                    None => {
                        if *f != main_id.id {
                            report("resolves-to-unknown-file", format!("step {si}: require({q:?}) resolves to file id {f} which is not a live module file"));
                        }
                    }
                    Some(name) => {
                        let exact = *name == qn || *name == qm;
                        let fuzzy_ok = cfg.fuzzy && (name.ends_with(&format!(".{qn}")) || name.ends_with(&format!(".{qm}")));
                        if !exact && !fuzzy_ok {
                            report("answer-not-a-match", format!("step {si}: require({q:?}) resolves to module {name:?} which is neither equal to the (mapped) path nor an allowed fuzzy suffix match (fuzzy={})", cfg.fuzzy));
                        }
                    }
                }
            }
            // O2: an exact match exists => the answer is an exact match (original path first, then mapped)
            let has_exact_orig = name_of.values().any(|n| *n == qn);
            let has_exact_mapped = name_of.values().any(|n| *n == qm);
            if has_exact_orig || has_exact_mapped {
                match fm.and_then(|f| name_of.get(&f)) {
                    Some(name) if (has_exact_orig && *name == qn) || (!has_exact_orig && *name == qm) => {}
                    other => report("exact-not-preferred", format!("step {si}: require({q:?}): a live file has exactly this module name but the answer is {other:?}")),
                }
            }
            // O6: the documented fuzzy rule: no exact match (original or mapped) => among the live modules whose name
            // ends with `.<path>`, the one with the FEWEST leading segments wins, ties by the smaller full name
            if cfg.fuzzy && !has_exact_orig && !has_exact_mapped {
                let pick = |path: &str| -> Option<String> {
                    let suf = format!(".{path}");
                    name_of
                        .values()
                        .filter(|n| n.ends_with(&suf))
                        .map(|n| (n[..n.len() - suf.len()].split('.').filter(|x| !x.is_empty()).count(), n.clone()))
                        .min()
                        .map(|x| x.1)
                };
                let expected = if qm != qn { pick(&qm).or_else(|| pick(&qn)) } else { pick(&qn) };
                let got = fm.and_then(|f| name_of.get(&f)).cloned();
                // candidates that share one full name are interchangeable for this oracle
                if expected.is_some() && got != expected && fm.map(|f| name_of.contains_key(&f)).unwrap_or(true) {
                    report("fuzzy-not-closest", format!("step {si}: require({q:?}) has no exact match; the closest suffix match (fewest leading segments, then smallest name) is {expected:?} but the answer is {got:?} (live modules: {:?})", name_of.values().collect::<Vec<_>>()));
                }
            }
            // O3: determinism when asked twice, and stability of exact answers while the file stays
            let again = midx.find_module(q).map(|m| m.file_id.id);
            if again != *fm {
                report("non-deterministic", format!("step {si}: require({q:?}) answered {fm:?} then {again:?}"));
            }
            if let Some(f) = fm {
                if name_of.get(f).map(|n| *n == qn).unwrap_or(false) && names_count.get(&qn) == Some(&1) {
                    prev_exact.insert(q.clone(), *f);
                }
            }
        }
        // "removing the file makes it unresolvable": queries that were uniquely and exactly answered by a removed file
        if kind == "remove" {
            for (q, f) in prev_exact.clone() {
                if removed_ids.contains(&f) {
                    let now = midx.find_module(&q).map(|m| m.file_id.id);
                    if now == Some(f) {
                        report("resolves-to-removed-file", format!("step {si}: require({q:?}) still resolves to removed file id {f}"));
                    }
                    prev_exact.remove(&q);
                }
            }
        }
    }
    (checks, nontrivial)
}

fn gen_layout_search_case(rng: &mut Rng) -> Value {
    let cfg = layout_cfg(rng);
    let (files, queries) = gen_fuzzy_layout(rng);
    let n = files.len();
    let mut steps = vec![if rng.chance(1, 2) { json!(["addall"]) } else { json!(["add", 0]) }];
    if steps[0][0] == "add" {
        for i in 1..n {
            steps.push(json!(["add", i]));
        }
    }
    for _ in 0..rng.range(1, 3) {
        let i = rng.below(n);
        steps.push(if rng.chance(2, 3) { json!(["remove", i]) } else { json!(["add", i]) });
    }
    json!({"cfg": cfg_json(&cfg), "files": files, "queries": queries, "steps": steps})
}

fn gen_search_case(rng: &mut Rng) -> Value {
    if rng.chance(1, 3) {
        return gen_layout_search_case(rng);
    }
    let cfg = gen_cfg(rng);
    let nfiles = rng.range(2, 6);
    let mut files: Vec<Vec<String>> = Vec::new();
    while files.len() < nfiles {
        let c = gen_file_comps(rng, &cfg);
        if !files.contains(&c) && c.last().map(|s| s != "zz_main_requires.lua").unwrap_or(true) {
            files.push(c);
        }
    }
    // learn the names through a scratch index, for the query generator only
    let mut cfg2 = cfg.clone();
    cfg2.patterns = effective_patterns(&cfg);
    let mut scratch = build_index(&cfg2);
    for (i, c) in files.iter().enumerate() {
        scratch.add_module_by_path(FileId { id: i as u32 + 1 }, &abs_path(c));
    }
    let names: Vec<String> = scratch.get_module_infos().iter().map(|i| i.full_module_name.clone()).collect();
    let nq = rng.range(3, 7);
    let queries: Vec<String> = (0..nq).map(|_| gen_query(rng, &names)).collect();
    let mut steps = Vec::new();
    if rng.chance(1, 2) {
        steps.push(json!(["addall"]));
    } else {
        let mut order: Vec<usize> = (0..nfiles).collect();
        for i in (1..order.len()).rev() {
            order.swap(i, rng.below(i + 1));
        }
        for i in order {
            steps.push(json!(["add", i]));
        }
    }
    let k = rng.range(1, 6);
    for _ in 0..k {
        let i = rng.below(nfiles);
        match rng.below(6) {
            0 | 1 | 2 => steps.push(json!(["remove", i])),
            3 | 4 => steps.push(json!(["add", i])),
            _ => steps.push(json!(["reindex"])),
        }
    }
    json!({"cfg": cfg_json(&cfg), "files": files, "queries": queries, "steps": steps})
}

fn fixed_corr_cases() -> Vec<(Cfg, Vec<Value>)> {
    let base = Cfg {
        patterns: vec!["?.lua".into(), "?/init.lua".into()],
        roots: vec![Root { comps: vec!["w".into()], ws: 1, pkg: None }],
        fuzzy: true,
        map: vec![],
    };
    let p = |s: &str| -> Vec<String> { s.split('/').map(|x| x.to_string()).collect() };
    let mut out = Vec::new();
    // add/remove cycles: the node count must not grow; the fuzzy entry must go away
    out.push((
        base.clone(),
        vec![
            json!(["addpath", 1, p("w/a/b/c.lua")]),
            json!(["remove", 1]),
            json!(["find", "c"]),
            json!(["addpath", 1, p("w/a/b/c.lua")]),
            json!(["remove", 1]),
            json!(["addpath", 1, p("w/a/b/c.lua")]),
            json!(["find", "b.c"]),
            json!(["find", "a.b.c"]),
        ],
    ));
    // shared node: two files, same module path; removing one keeps the node; hidden preference
    out.push((
        base.clone(),
        vec![
            json!(["addpath", 1, p("w/a.lua")]),
            json!(["addpath", 2, p("w/a/init.lua")]),
            json!(["find", "a"]),
            json!(["hide", 1]),
            json!(["find", "a"]),
            json!(["remove", 1]),
            json!(["find", "a"]),
            json!(["remove", 2]),
            json!(["find", "a"]),
        ],
    ));
    // fuzzy tie-break: fewest leading segments, then lexicographic
    out.push((
        base.clone(),
        vec![
            json!(["addpath", 1, p("w/x/y/m.lua")]),
            json!(["addpath", 2, p("w/b/m.lua")]),
            json!(["addpath", 3, p("w/a/m.lua")]),
            json!(["find", "m"]),
            json!(["find", "y.m"]),
            json!(["remove", 3]),
            json!(["find", "m"]),
            json!(["addmod", 4, "socket.core", 1]),
            json!(["find", "core"]),
            json!(["find", "socket/core"]),
        ],
    ));
    // nested library root: shortest module path wins, library id preferred
    let mut nested = base.clone();
    nested.roots.push(Root { comps: vec!["w".into(), "lib".into()], ws: 3, pkg: None });
    nested.map = vec![("^lib\\.(.*)$".into(), "$1".into())];
    out.push((
        nested,
        vec![
            json!(["addpath", 1, p("w/lib/a/b.lua")]),
            json!(["find", "a.b"]),
            json!(["find", "lib.a.b"]),
            json!(["addpath", 2, p("w/a/b.lua")]),
            json!(["find", "a.b"]),
            json!(["remove", 1]),
            json!(["find", "lib.a.b"]),
        ],
    ));
    // the module map is configured, then removed by a configuration change: the rules must be gone
    let mut mapped = base.clone();
    mapped.map = vec![("^lib\\.(.*)$".into(), "$1".into())];
    let mut unmapped = base.clone();
    unmapped.fuzzy = false;
    let mut remapped = base.clone();
    remapped.map = vec![("^a\\.".into(), "z.".into())];
    out.push((
        mapped,
        vec![
            json!(["addpath", 1, p("w/a/b.lua")]),
            json!(["find", "lib.a.b"]),
            json!(["config", cfg_json(&unmapped)]),
            json!(["find", "lib.a.b"]),
            json!(["addpath", 2, p("w/lib/c.lua")]),
            json!(["find", "c"]),
            json!(["find", "lib.c"]),
            json!(["config", cfg_json(&remapped)]),
            json!(["find", "a.b"]),
            json!(["addpath", 3, p("w/a/d.lua")]),
            json!(["find", "z.d"]),
            json!(["config", cfg_json(&base)]),
            json!(["find", "a.b"]),
            json!(["find", "d"]),
            json!(["clear"]),
            json!(["addpath", 1, p("w/a/b.lua")]),
            json!(["find", "z.b"]),
        ],
    ));
    out
}

fn main() {
    let args = Args::parse();
    let seed = args.u64("seed", 1);
    let n = args.usize("n", 50);
    let mut rng = Rng::new(seed ^ 0xC33);
    match args.cmd.as_str() {
        "corr" => {
            for (cfg, ops) in fixed_corr_cases() {
                println!("{}", run_corr_case(&cfg, &ops));
            }
            let corpus = args.str("corpus", "");
            if !corpus.is_empty() {
                let mut names: Vec<_> = std::fs::read_dir(&corpus).map(|d| d.filter_map(|e| e.ok()).map(|e| e.path()).collect()).unwrap_or_default();
                names.sort();
                for pth in names {
                    if pth.extension().map(|e| e == "json").unwrap_or(false) {
                        if let Ok(txt) = std::fs::read_to_string(&pth) {
                            if let Ok(v) = serde_json::from_str::<Value>(&txt) {
                                if v["kind"] == "corr" {
                                    let cfg = cfg_from_json(&v["cfg"]);
                                    let ops = v["ops"].as_array().cloned().unwrap_or_default();
                                    println!("{}", run_corr_case(&cfg, &ops));
                                }
                            }
                        }
                    }
                }
            }
            for i in 0..n {
                if i % 3 == 0 {
                    // suffix candidates at different depths, depth order and text-length order decorrelated
                    let cfg = layout_cfg(&mut rng);
                    let ops = gen_layout_ops(&mut rng);
                    println!("{}", run_corr_case(&cfg, &ops));
                    continue;
                }
                let cfg = gen_cfg(&mut rng);
                let nops = rng.range(4, 14);
                let ops = gen_ops(&mut rng, &cfg, nops);
                println!("{}", run_corr_case(&cfg, &ops));
            }
        }
        "search" => {
            let mut out = Vec::new();
            let mut cases = 0usize;
            let mut checks = 0usize;
            let mut distinct = HashSet::new();
            let mut dist: BTreeMap<String, usize> = BTreeMap::new();
            let corpus = args.str("corpus", "");
            let mut all: Vec<Value> = Vec::new();
            if !corpus.is_empty() {
                let mut names: Vec<_> = std::fs::read_dir(&corpus).map(|d| d.filter_map(|e| e.ok()).map(|e| e.path()).collect()).unwrap_or_default();
                names.sort();
                for pth in names {
                    if let Ok(txt) = std::fs::read_to_string(&pth) {
                        if let Ok(v) = serde_json::from_str::<Value>(&txt) {
                            if v["kind"] == "search" {
                                all.push(v["case"].clone());
                            }
                        }
                    }
                }
            }
            for _ in 0..n {
                all.push(gen_search_case(&mut rng));
            }
            for case in all {
                let r = guarded(|| {
                    let mut o = Vec::new();
                    let (c, nt) = run_search_case(&case, &mut o);
                    (o, c, nt)
                });
                cases += 1;
                match r {
                    Ok((o, c, nt)) => {
                        checks += c;
                        if nt {
                            distinct.insert(case.to_string());
                        }
                        out.extend(o);
                    }
                    Err(e) => out.push(json!({"signature": "panic", "what": format!("panic while resolving requires: {e}"), "case": case})),
                }
                let cfg = cfg_from_json(&case["cfg"]);
                *dist.entry(format!("roots={}", cfg.roots.len())).or_default() += 1;
                *dist.entry(format!("fuzzy={}", cfg.fuzzy)).or_default() += 1;
                *dist.entry(format!("map={}", !cfg.map.is_empty())).or_default() += 1;
                for s in case["steps"].as_array().cloned().unwrap_or_default() {
                    *dist.entry(format!("step:{}", s[0].as_str().unwrap_or(""))).or_default() += 1;
                }
                if out.len() > 40 {
                    break;
                }
            }
            for v in &out {
                println!("{}", v);
            }
            println!("{}", json!({"summary": {"cases": cases, "require_checks": checks, "distinct_nontrivial": distinct.len(), "distribution": dist}}));
        }
        "one" => {
            let case: Value = serde_json::from_str(&args.str("case-json", "{}")).unwrap_or(Value::Null);
            let mut out = Vec::new();
            let r = guarded(|| run_search_case(&case, &mut out));
            if let Err(e) = r {
                println!("{}", json!({"signature": "panic", "what": e, "case": case}));
            }
            for v in &out {
                println!("{}", v);
            }
        }
        _ => {
            eprintln!("usage: c33 corr|search|one");
            std::process::exit(2);
        }
    }
}
