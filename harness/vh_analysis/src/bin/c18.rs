//! C18 harness: generic functions return their instantiated argument types.
//!   c18 corr   --seed S --n N   -> JSON lines: per (template, argument types): the analyzer's inferred type of
//!                                  `local r = f(args)` and the analyzer's types of the arguments
//!   c18 search --seed S --n N   -> JSON lines: violations of the substitution oracle (+ final {"summary":…})
//!   c18 one    --tpl K --args 'T1;T2'   -> replay one case
use std::collections::{BTreeMap, HashSet};

use emmylua_code_analysis::{
    AsyncState, LuaArrayLen, LuaMemberKey, LuaType, LuaUnionType, VirtualWorkspace,
};
use emmylua_parser::{LuaAstNode, LuaAstToken, LuaLocalName};
use serde_json::{Value, json};
use vh_common::{Args, Rng, guarded};

const PRELUDE: &str = r#"
---@class Cls0
---@class Cls1
---@alias AliS string
---@alias AliU 'x'|'y'
"#;

/// the template family: (name, generic params, parameter types, return type)
const TEMPLATES: &[(&str, &str, &[&str], &str)] = &[
    ("identity", "T", &["T"], "T"),
    ("array_elem", "T", &["T[]"], "T"),
    ("array_id", "T", &["T[]"], "T[]"),
    ("wrap_array", "T", &["T"], "T[]"),
    ("map_value", "K, V", &["table<K, V>"], "V"),
    ("map_key", "K, V", &["table<K, V>"], "K"),
    ("map_swap", "K, V", &["table<K, V>"], "table<V, K>"),
    ("optional", "T", &["T?"], "T"),
    ("pair_map", "A, B", &["A", "B"], "table<A, B>"),
    ("same_twice", "T", &["T", "T"], "T"),
    ("callback_ret", "T", &["fun(): T"], "T"),
    ("callback_arg", "T", &["fun(x: T)"], "T"),
    ("nested_array", "T", &["T[][]"], "T"),
    ("tuple_fst", "A, B", &["[A, B]"], "A"),
    ("tuple_mk", "A, B", &["A", "B"], "[A, B]"),
];

struct Ws {
    ws: VirtualWorkspace,
    used: usize,
}

impl Ws {
    fn new() -> Ws {
        let mut ws = VirtualWorkspace::new();
        ws.def(PRELUDE);
        Ws { ws, used: 0 }
    }

    /// the types of the locals named `a1..an` and `r` of a program
    fn run(&mut self, tpl: usize, args: &[String]) -> Option<(Vec<LuaType>, LuaType)> {
        if self.used >= 300 {
            *self = Ws::new();
        }
        self.used += 1;
        let (_, generics, params, ret) = TEMPLATES[tpl];
        let mut src = String::new();
        src.push_str(&format!("---@generic {}\n", generics));
        for (i, p) in params.iter().enumerate() {
            src.push_str(&format!("---@param p{} {}\n", i + 1, p));
        }
        src.push_str(&format!("---@return {}\n", ret));
        let names: Vec<String> = (1..=params.len()).map(|i| format!("p{}", i)).collect();
        src.push_str(&format!("local function f({}) end\n", names.join(", ")));
        for (i, a) in args.iter().enumerate() {
            src.push_str(&format!("---@type {}\nlocal a{}\n", a, i + 1));
        }
        let argn: Vec<String> = (1..=args.len()).map(|i| format!("a{}", i)).collect();
        src.push_str(&format!("local r = f({})\n", argn.join(", ")));
        let ws = &mut self.ws;
        guarded(|| {
            let file_id = ws.def(&src);
            let model = ws.analysis.compilation.get_semantic_model(file_id).expect("semantic model");
            let tree = ws.analysis.compilation.get_db().get_vfs().get_syntax_tree(&file_id).expect("tree");
            let mut arg_types = Vec::new();
            let mut ret = None;
            for ln in tree.get_chunk_node().descendants::<LuaLocalName>() {
                let Some(tok) = ln.get_name_token() else { continue };
                let name = tok.get_name_text().to_string();
                let info = model.get_semantic_info(tok.syntax().clone().into());
                let Some(info) = info else { continue };
                if name == "r" {
                    ret = Some(info.typ);
                } else if name.starts_with('a') {
                    arg_types.push(info.typ);
                }
            }
            (arg_types, ret.expect("type of r"))
        })
        .ok()
    }
}

fn prim_name(t: &LuaType) -> Option<&'static str> {
    Some(match t {
        LuaType::Unknown => "unknown",
        LuaType::Any => "any",
        LuaType::Nil => "nil",
        LuaType::Table => "table",
        LuaType::Userdata => "userdata",
        LuaType::Function => "function",
        LuaType::Thread => "thread",
        LuaType::Boolean => "boolean",
        LuaType::String => "string",
        LuaType::Integer => "integer",
        LuaType::Number => "number",
        LuaType::Io => "io",
        LuaType::SelfInfer => "self",
        LuaType::Global => "global",
        LuaType::Never => "never",
        _ => return None,
    })
}

fn cps(s: &str) -> Value {
    Value::Array(s.chars().map(|c| json!(c as u32)).collect())
}

fn ty_json(t: &LuaType) -> Value {
    if let Some(p) = prim_name(t) {
        return json!({"k": "prim", "p": p});
    }
    match t {
        LuaType::DocStringConst(s) => json!({"k": "str", "s": cps(s)}),
        LuaType::DocIntegerConst(i) => json!({"k": "int", "i": i.to_string()}),
        LuaType::DocBooleanConst(b) => json!({"k": "bool", "b": b}),
        LuaType::Ref(id) => json!({"k": "ref", "n": cps(id.get_name())}),
        LuaType::TableConst(_) => json!({"k": "tableconst"}),
        LuaType::TplRef(t) => json!({"k": "tpl", "n": cps(t.get_name())}),
        LuaType::Array(a) => match a.get_len() {
            LuaArrayLen::None => json!({"k": "array", "t": ty_json(a.get_base())}),
            LuaArrayLen::Max(_) => json!({"k": "other", "d": "array-with-len"}),
        },
        LuaType::TableGeneric(ps) => json!({"k": "tgen", "ps": ps.iter().map(ty_json).collect::<Vec<_>>()}),
        LuaType::Tuple(tp) => json!({"k": "tuple", "ts": tp.get_types().iter().map(ty_json).collect::<Vec<_>>()}),
        LuaType::Object(o) => {
            if !o.get_index_access().is_empty() {
                return json!({"k": "other", "d": "object-with-index-access"});
            }
            let mut fs: Vec<(&LuaMemberKey, &LuaType)> = o.get_fields().iter().collect();
            fs.sort_by(|a, b| a.0.cmp(b.0));
            let mut out = Vec::new();
            for (k, v) in fs {
                let kj = match k {
                    LuaMemberKey::Integer(i) => json!({"ki": i.to_string()}),
                    LuaMemberKey::Name(s) => json!({"kn": cps(s)}),
                    _ => return json!({"k": "other", "d": "object-key"}),
                };
                out.push(json!([kj, ty_json(v)]));
            }
            json!({"k": "object", "fs": out})
        }
        LuaType::DocFunction(f) => {
            if f.get_async_state() != AsyncState::None || f.is_colon_define() || !f.get_generic_params().is_empty() {
                return json!({"k": "other", "d": "function-async-colon-generic"});
            }
            let ps: Vec<Value> = f.get_params().iter().map(|(n, t)| json!([cps(n), t.as_ref().map(ty_json)])).collect();
            json!({"k": "fun", "ps": ps, "ret": ty_json(f.get_ret())})
        }
        LuaType::Union(u) => {
            let kind = match u.as_ref() {
                LuaUnionType::Basic(_) => "basic",
                LuaUnionType::Nullable(_) => "nullable",
                LuaUnionType::Multi(_) => "multi",
            };
            json!({"k": "union", "u": kind, "ms": u.into_vec().iter().map(ty_json).collect::<Vec<_>>()})
        }
        other => {
            let d = format!("{:?}", other);
            json!({"k": "other", "d": d.chars().take(80).collect::<String>()})
        }
    }
}


// ---------------------------------------------------------------------------------------------
// patterns of the template family and the declarative oracle: "T := the argument component"
// ---------------------------------------------------------------------------------------------

#[derive(Clone, Debug)]
enum P {
    Tpl(usize),
    Array(Box<P>),
    Map(Box<P>, Box<P>),
    Opt(Box<P>),
    Tuple(Vec<P>),
    Fun(Vec<P>, Option<Box<P>>),
}

fn t(i: usize) -> P {
    P::Tpl(i)
}

/// the same family as TEMPLATES, as structures: (params, return)
fn family() -> Vec<(Vec<P>, P)> {
    vec![
        (vec![t(0)], t(0)),
        (vec![P::Array(Box::new(t(0)))], t(0)),
        (vec![P::Array(Box::new(t(0)))], P::Array(Box::new(t(0)))),
        (vec![t(0)], P::Array(Box::new(t(0)))),
        (vec![P::Map(Box::new(t(0)), Box::new(t(1)))], t(1)),
        (vec![P::Map(Box::new(t(0)), Box::new(t(1)))], t(0)),
        (vec![P::Map(Box::new(t(0)), Box::new(t(1)))], P::Map(Box::new(t(1)), Box::new(t(0)))),
        (vec![P::Opt(Box::new(t(0)))], t(0)),
        (vec![t(0), t(1)], P::Map(Box::new(t(0)), Box::new(t(1)))),
        (vec![t(0), t(0)], t(0)),
        (vec![P::Fun(vec![], Some(Box::new(t(0))))], t(0)),
        (vec![P::Fun(vec![t(0)], None)], t(0)),
        (vec![P::Array(Box::new(P::Array(Box::new(t(0)))))], t(0)),
        (vec![P::Tuple(vec![t(0), t(1)])], t(0)),
        (vec![t(0), t(1)], P::Tuple(vec![t(0), t(1)])),
    ]
}

fn prim(p: &str) -> Value {
    json!({"k": "prim", "p": p})
}

/// escape_alias over the exported form (the two aliases of the prelude)
fn esc(v: &Value) -> Value {
    if v["k"] == "ref" {
        let n: String = v["n"].as_array().unwrap().iter().map(|c| char::from_u32(c.as_u64().unwrap() as u32).unwrap()).collect();
        if n == "AliS" {
            return prim("string");
        }
        if n == "AliU" {
            return json!({"k": "union", "u": "multi", "ms": [{"k": "str", "s": cps("x")}, {"k": "str", "s": cps("y")}]});
        }
    }
    v.clone()
}

fn widen(v: &Value) -> Value {
    match v["k"].as_str().unwrap_or("") {
        "int" => prim("integer"),
        "str" => prim("string"),
        "bool" => prim("boolean"),
        _ => v.clone(),
    }
}

/// structural components: Err(()) = a shape this oracle does not decide (tuples/records given to array or map
/// parameters, member maps, erased `function`)
fn bindings(p: &P, a: &Value, out: &mut Vec<(usize, Value)>) -> Result<(), ()> {
    if matches!(p, P::Fun(..)) && a["k"] == "ref" {
        return Err(());
    }
    let a = esc(a);
    let k = a["k"].as_str().unwrap_or("").to_string();
    match p {
        P::Tpl(i) => out.push((*i, a)),
        P::Array(pb) => match k.as_str() {
            "array" => bindings(pb, &a["t"], out)?,
            "tuple" | "object" | "other" | "tableconst" => return Err(()),
            _ => {}
        },
        P::Map(pk, pv) => match k.as_str() {
            "tgen" => {
                let ps = a["ps"].as_array().unwrap();
                if !ps.is_empty() {
                    bindings(pk, &ps[0], out)?;
                }
                if ps.len() > 1 {
                    bindings(pv, &ps[1], out)?;
                }
            }
            "array" => {
                bindings(pk, &prim("integer"), out)?;
                bindings(pv, &a["t"], out)?;
            }
            "tuple" | "object" | "ref" | "other" | "tableconst" => return Err(()),
            "prim" if matches!(a["p"].as_str().unwrap(), "any" | "table" | "userdata" | "global") => {
                bindings(pk, &prim("any"), out)?;
                bindings(pv, &prim("any"), out)?;
            }
            _ => {}
        },
        P::Opt(pb) => bindings(pb, &a, out)?,
        P::Tuple(ps) => match k.as_str() {
            "tuple" => {
                let ts = a["ts"].as_array().unwrap();
                for (i, pp) in ps.iter().enumerate() {
                    if i < ts.len() {
                        bindings(pp, &ts[i], out)?;
                    }
                }
            }
            "other" | "tableconst" => return Err(()),
            _ => {}
        },
        P::Fun(pps, pret) => match k.as_str() {
            "fun" => {
                let ts = a["ps"].as_array().unwrap();
                for (i, pp) in pps.iter().enumerate() {
                    if i < ts.len() {
                        let tt = if ts[i][1].is_null() { prim("any") } else { ts[i][1].clone() };
                        bindings(pp, &tt, out)?;
                    }
                }
                if let Some(pr) = pret {
                    if a["ret"]["k"] == "other" {
                        return Err(());
                    }
                    bindings(pr, &a["ret"], out)?;
                }
            }
            // the driver also looks for callables inside unions, classes and aliases, and treats any/unknown specially
            "prim" if matches!(a["p"].as_str().unwrap(), "function" | "any" | "unknown") => return Err(()),
            "other" | "tableconst" | "union" | "ref" => return Err(()),
            _ => {}
        },
    }
    Ok(())
}

fn apply(p: &P, sigma: &BTreeMap<usize, Value>) -> Value {
    match p {
        P::Tpl(i) => sigma.get(i).map(widen).unwrap_or_else(|| prim("unknown")),
        P::Array(b) => json!({"k": "array", "t": apply(b, sigma)}),
        P::Map(k, v) => json!({"k": "tgen", "ps": [apply(k, sigma), apply(v, sigma)]}),
        P::Tuple(ps) => json!({"k": "tuple", "ts": ps.iter().map(|x| apply(x, sigma)).collect::<Vec<_>>()}),
        P::Opt(_) | P::Fun(..) => json!({"k": "other", "d": "not a return shape of the family"}),
    }
}

/// the declared return type with every T replaced by the (widened) first argument component bound to it
fn expected(tpl: usize, arg_types: &[Value]) -> Option<Value> {
    let (params, ret) = &family()[tpl];
    let mut bs = Vec::new();
    for (p, a) in params.iter().zip(arg_types) {
        bindings(p, a, &mut bs).ok()?;
    }
    let mut sigma = BTreeMap::new();
    for (i, v) in bs {
        sigma.entry(i).or_insert(v);
    }
    let r = apply(ret, &sigma);
    Some(if r == prim("table") { json!({"k": "tableconst"}) } else { r })
}

fn canon(v: &Value) -> Value {
    match v {
        Value::Object(m) => {
            let mut o = serde_json::Map::new();
            for (k, x) in m {
                if k == "u" {
                    continue;
                }
                o.insert(k.clone(), canon(x));
            }
            if m.get("k").and_then(|k| k.as_str()) == Some("union") {
                if let Some(Value::Array(ms)) = o.get("ms").cloned() {
                    let mut ss: Vec<(String, Value)> = ms.into_iter().map(|x| (x.to_string(), x)).collect();
                    ss.sort_by(|a, b| a.0.cmp(&b.0));
                    o.insert("ms".into(), Value::Array(ss.into_iter().map(|x| x.1).collect()));
                }
            }
            Value::Object(o)
        }
        Value::Array(a) => Value::Array(a.iter().map(canon).collect()),
        _ => v.clone(),
    }
}

fn has_other(v: &Value) -> bool {
    match v {
        Value::Object(m) => {
            matches!(m.get("k").and_then(|k| k.as_str()), Some("other") | Some("tableconst") | Some("object"))
                || m.values().any(has_other)
        }
        Value::Array(a) => a.iter().any(has_other),
        _ => false,
    }
}

// ---------------------------------------------------------------------------------------------
// generator of argument annotations
// ---------------------------------------------------------------------------------------------

const G_PRIMS: &[&str] = &["string", "integer", "number", "boolean", "nil", "any", "thread", "userdata", "function"];
const G_REFS: &[&str] = &["Cls0", "Cls1", "AliS", "AliU"];
const G_STRS: &[&str] = &["'a'", "'x y'", "\"\"", "'k'"];

fn gen_ty(rng: &mut Rng, depth: usize) -> String {
    if depth == 0 || rng.chance(2, 5) {
        return match rng.below(10) {
            0..=3 => rng.pick(G_PRIMS).to_string(),
            4 | 5 => rng.pick(G_REFS).to_string(),
            6 => rng.pick(G_STRS).to_string(),
            7 | 8 => (rng.below(50) as i64 - 10).to_string(),
            _ => if rng.chance(1, 2) { "true".into() } else { "false".into() },
        };
    }
    match rng.below(9) {
        0 | 1 => format!("({})[]", gen_ty(rng, depth - 1)),
        2 => format!("({})?", gen_ty(rng, depth - 1)),
        3 | 4 => {
            let n = rng.range(2, 3);
            (0..n).map(|_| format!("({})", gen_ty(rng, depth - 1))).collect::<Vec<_>>().join("|")
        }
        5 => format!("table<{}, {}>", gen_ty(rng, depth - 1), gen_ty(rng, depth - 1)),
        6 => {
            let n = rng.range(1, 3);
            format!("[{}]", (0..n).map(|_| gen_ty(rng, depth - 1)).collect::<Vec<_>>().join(", "))
        }
        _ => {
            let n = rng.below(3);
            let ps: Vec<String> = (0..n)
                .map(|i| if rng.chance(1, 6) { format!("p{}", i) } else { format!("p{}: {}", i, gen_ty(rng, depth - 1)) })
                .collect();
            if rng.chance(1, 2) { format!("fun({}): {}", ps.join(", "), gen_ty(rng, depth - 1)) } else { format!("fun({})", ps.join(", ")) }
        }
    }
}

/// an argument annotation for a parameter of the given shape: mostly of the matching shape, sometimes anything
fn gen_for(p: &P, rng: &mut Rng, depth: usize) -> String {
    if rng.chance(1, 5) {
        return gen_ty(rng, depth);
    }
    match p {
        P::Tpl(_) => gen_ty(rng, depth),
        P::Array(b) => format!("({})[]", gen_for(b, rng, depth.saturating_sub(1))),
        P::Map(k, v) => {
            if rng.chance(1, 5) {
                format!("({})[]", gen_for(v, rng, depth.saturating_sub(1)))
            } else {
                format!("table<{}, {}>", gen_for(k, rng, depth.saturating_sub(1)), gen_for(v, rng, depth.saturating_sub(1)))
            }
        }
        P::Opt(b) => {
            if rng.chance(1, 2) { format!("({})?", gen_for(b, rng, depth)) } else { gen_for(b, rng, depth) }
        }
        P::Tuple(ps) => {
            let mut v: Vec<String> = ps.iter().map(|x| gen_for(x, rng, depth.saturating_sub(1))).collect();
            if rng.chance(1, 5) {
                v.push(gen_ty(rng, 1));
            }
            format!("[{}]", v.join(", "))
        }
        P::Fun(ps, r) => {
            let mut v: Vec<String> = ps.iter().enumerate().map(|(i, x)| format!("q{}: {}", i, gen_for(x, rng, depth.saturating_sub(1)))).collect();
            if rng.chance(1, 4) {
                v.push(format!("extra: {}", gen_ty(rng, 1)));
            }
            match r {
                Some(r) => format!("fun({}): {}", v.join(", "), gen_for(r, rng, depth.saturating_sub(1))),
                None => format!("fun({})", v.join(", ")),
            }
        }
    }
}

const FIXED: &[(usize, &[&str])] = &[
    (0, &["string"]), (0, &["1"]), (0, &["'x'"]), (0, &["true"]), (0, &["1|2"]), (0, &["string?"]), (0, &["AliS"]), (0, &["AliU"]),
    (0, &["nil"]), (0, &["any"]), (0, &["fun(x: 1): 2"]), (0, &["[1, 'x']"]), (0, &["table<1,'a'>"]),
    (1, &["string[]"]), (1, &["1[]"]), (1, &["(1|2)[]"]), (1, &["string"]), (1, &["string[]?"]), (1, &["string[]|integer[]"]),
    (1, &["AliS[]"]), (1, &["[1, 'x']"]), (1, &["table<integer,string>"]),
    (2, &["1[]"]), (2, &["string[][]"]), (3, &["1"]), (3, &["string?"]),
    (4, &["table<string, 1>"]), (4, &["table<string, integer>?"]), (4, &["string[]"]), (4, &["Cls0"]), (4, &["any"]), (4, &["userdata"]),
    (5, &["table<'k', 1>"]), (5, &["string[]"]), (6, &["table<1, 'a'>"]), (6, &["table<string>"]),
    (7, &["string"]), (7, &["string?"]), (7, &["1?"]), (7, &["1"]), (7, &["nil"]), (7, &["(1|2)?"]),
    (8, &["1", "'x'"]), (8, &["string", "integer[]"]), (9, &["1", "'x'"]), (9, &["nil", "integer"]),
    (10, &["fun(): 1"]), (10, &["fun(): string"]), (10, &["fun()"]), (10, &["function"]), (10, &["fun(x: string): 1"]),
    (11, &["fun(x: 1)"]), (11, &["fun(x: string, y: integer)"]), (11, &["fun()"]), (11, &["fun(x)"]),
    (12, &["string[][]"]), (12, &["1[][]"]), (12, &["string[]"]),
    (13, &["[1, 'x']"]), (13, &["[string]"]), (13, &["string[]"]), (14, &["1", "'x'"]), (14, &["string", "Cls0"]),
];

fn gen_case(rng: &mut Rng) -> (usize, Vec<String>) {
    let fam = family();
    let tpl = rng.below(fam.len());
    let depth = rng.range(0, 2);
    let args = fam[tpl].0.iter().map(|p| gen_for(p, rng, depth)).collect();
    (tpl, args)
}

fn main() {
    let args = Args::parse();
    let seed = args.u64("seed", 1);
    let n = args.usize("n", 100);
    let mut rng = Rng::new(seed ^ 0xC18);
    let corpus: Vec<(usize, Vec<String>)> = std::fs::read_to_string(args.str("corpus", "/verif/corpus/C18/witnesses.json"))
        .ok()
        .and_then(|s| serde_json::from_str::<Vec<Value>>(&s).ok())
        .map(|v| {
            v.iter()
                .filter_map(|e| {
                    let t = e["tpl"].as_u64()? as usize;
                    let a: Vec<String> = e["args"].as_array()?.iter().filter_map(|x| x.as_str().map(|s| s.to_string())).collect();
                    if t < TEMPLATES.len() && a.len() == TEMPLATES[t].2.len() { Some((t, a)) } else { None }
                })
                .collect()
        })
        .unwrap_or_default();
    let cases = |rng: &mut Rng| -> Vec<(usize, Vec<String>)> {
        corpus
            .iter()
            .cloned()
            .chain(FIXED.iter().map(|(t, a)| (*t, a.iter().map(|s| s.to_string()).collect())))
            .chain((0..n).map(|_| gen_case(rng)))
            .collect()
    };
    match args.cmd.as_str() {
        "corr" => {
            let mut ws = Ws::new();
            for (tpl, a) in cases(&mut rng) {
                match ws.run(tpl, &a) {
                    None => println!("{}", json!({"tpl": tpl, "args": a, "panic": true})),
                    Some((ats, r)) => println!(
                        "{}",
                        json!({"tpl": tpl, "name": TEMPLATES[tpl].0, "args": a,
                               "arg_types": ats.iter().map(ty_json).collect::<Vec<_>>(), "ret": ty_json(&r)})
                    ),
                }
            }
        }
        "search" => {
            let mut ws = Ws::new();
            let mut out: Vec<Value> = Vec::new();
            let mut distinct = HashSet::new();
            let mut per_tpl: BTreeMap<String, usize> = BTreeMap::new();
            let mut skips: BTreeMap<String, usize> = BTreeMap::new();
            let (mut total, mut checked) = (0usize, 0usize);
            for (tpl, a) in cases(&mut rng) {
                total += 1;
                let Some((ats, r)) = ws.run(tpl, &a) else {
                    out.push(json!({"signature": "analyzer-panic", "what": "the analyzer panicked", "tpl": TEMPLATES[tpl].0, "args": a}));
                    continue;
                };
                let atj: Vec<Value> = ats.iter().map(ty_json).collect();
                if ats.len() != a.len() || atj.iter().any(has_other) || atj.iter().any(|v| v["k"] == "prim" && v["p"] == "unknown") {
                    *skips.entry("argument-outside-grammar".into()).or_default() += 1;
                    continue;
                }
                let Some(exp) = expected(tpl, &atj) else {
                    *skips.entry("shape-not-decided-by-the-oracle".into()).or_default() += 1;
                    continue;
                };
                checked += 1;
                *per_tpl.entry(TEMPLATES[tpl].0.to_string()).or_default() += 1;
                let key = json!([tpl, atj.iter().map(canon).collect::<Vec<_>>()]).to_string();
                if a.iter().any(|s| s.len() > 3) {
                    distinct.insert(key);
                }
                let got = ty_json(&r);
                if canon(&got) != canon(&exp) {
                    let shapes: Vec<String> = atj.iter().map(|v| v["k"].as_str().unwrap_or("?").to_string()).collect();
                    out.push(json!({
                        "signature": format!("{}({})", TEMPLATES[tpl].0, shapes.join(",")),
                        "what": format!("template {} called with {:?}: inferred {} but the declared return with the argument components substituted is {}",
                                        TEMPLATES[tpl].0, a, got, exp),
                        "tpl": tpl, "args": a, "got": got, "expected": exp,
                    }));
                }
            }
            for v in &out {
                println!("{}", v);
            }
            println!(
                "{}",
                json!({"summary": {"cases": total, "checked": checked, "distinct_nontrivial": distinct.len(), "skipped": skips,
                                   "by_template": per_tpl, "violations": out.len()}})
            );
        }
        "one" => {
            let tpl = args.usize("tpl", 0);
            let a: Vec<String> = args.str("args", "string").split(';').map(|s| s.to_string()).collect();
            let mut ws = Ws::new();
            match ws.run(tpl, &a) {
                None => println!("{}", json!({"tpl": tpl, "name": TEMPLATES[tpl].0, "args": a, "panic": true})),
                Some((ats, r)) => {
                    let atj: Vec<Value> = ats.iter().map(ty_json).collect();
                    let exp = expected(tpl, &atj);
                    println!(
                        "{}",
                        json!({"tpl": tpl, "name": TEMPLATES[tpl].0, "args": a, "arg_types": atj, "ret": ty_json(&r), "expected": exp,
                               "agrees": exp.as_ref().map(|e| canon(e) == canon(&ty_json(&r)))})
                    );
                }
            }
        }
        _ => {
            eprintln!("usage: c18 corr|search|one");
            std::process::exit(2);
        }
    }
}
