//! C31 harness: loading any configuration never crashes.
//!   c31 corr   --seed S --n N [--corpus DIR] [--mode merge]  -> JSON lines: implementation observations (load_configs_raw results,
//!                                              processed paths; --mode merge: multi-file mixed-spelling cases for C32)
//!   c31 search --seed S --n N [--corpus DIR]  -> JSON lines: violations of the property oracle + {"summary":…}
//!   c31 one    --case-json '{…}'              -> observation + violations of one case (replay)
//! Case kinds: {"kind":"load","files":[…],"partials":[…]} and {"kind":"paths","ws":…,"roots":[…],…} (see c31_common.rs).
#[path = "../c31_common.rs"]
mod common;
use common::*;
use serde_json::{Value, json};
use vh_common::{Args, Rng};

fn corpus(dir: &str) -> Vec<Value> {
    let mut out = Vec::new();
    if dir.is_empty() {
        return out;
    }
    let mut names: Vec<_> = std::fs::read_dir(dir).map(|d| d.filter_map(|e| e.ok()).map(|e| e.path()).collect()).unwrap_or_default();
    names.sort();
    for p in names {
        if p.extension().and_then(|e| e.to_str()) != Some("json") {
            continue;
        }
        if let Ok(t) = std::fs::read_to_string(&p) {
            match serde_json::from_str::<Value>(&t) {
                Ok(Value::Array(cs)) => out.extend(cs),
                Ok(c) => out.push(c),
                Err(e) => {
                    eprintln!("bad corpus file {:?}: {e}", p);
                    std::process::exit(3);
                }
            }
        }
    }
    out
}

fn fixed_cases() -> Vec<Value> {
    let mut v = vec![
        json!({"kind":"load","files":[json_file(json!({"a":1,"a.b":2}))]}),
        json!({"kind":"load","files":[json_file(json!({"a":null,"a.b":2}))]}),
        json!({"kind":"load","files":[json_file(json!({"a.b":2,"a":{"b":{"c":1}},"a.b.c":3}))]}),
        json!({"kind":"load","files":[json_file(json!({"b":1,"b.a":2})), json_file(json!({"x":"s","x.y":[1]}))]}),
        json!({"kind":"load","files":[json_file(json!({"":{"b":1},".b":2,"a..b":3,"a.":4,".":5}))]}),
        json!({"kind":"load","files":[json_file(json!(5))]}),
        json!({"kind":"load","files":[json_file(json!([1,2])), json_file(json!(null))]}),
        json!({"kind":"load","files":[json_file(json!({"diagnostics.enable":false})), json_file(json!({"diagnostics":{"enable":true}}))]}),
        json!({"kind":"load","files":[json_file(json!({"diagnostics":{"globals":["a"]}})), json_file(json!({"diagnostics":{"globals":["a"]}}))]}),
        json!({"kind":"load","files":[json_file(json!({"a":{}})), {"k":"missing"}, {"k":"text","t":"{","ext":"json"}]}),
        json!({"kind":"load","files":[{"k":"missing"}, {"k":"binary"}]}),
        json!({"kind":"load","files":[], "partials":[{"a":1,"a.b":2}, {"a.b.c":3}]}),
        json!({"kind":"load","files":[json_file(json!({"diagnostics":{"enable":5}}))]}),
    ];
    for p in FIXED_PATHS {
        let mut c = single_path_case(p);
        c["kind"] = json!("paths");
        v.push(c);
    }
    v
}

fn gen_load_case(rng: &mut Rng, with_lua: bool) -> Value {
    let nfiles = match rng.below(10) {
        0 => 0,
        1..=4 => 1,
        5..=7 => 2,
        _ => 3,
    };
    let mut files = Vec::new();
    for _ in 0..nfiles {
        let f = match rng.below(10) {
            0 => gen_bad_file(rng),
            1 if with_lua => json!({"k":"text","t": *rng.pick(GOOD_LUA), "ext":"lua"}),
            2 | 3 => {
                let s = gen_settings(rng, 5);
                json_file(render(rng, &s, 2))
            }
            4 => json_file(gen_junk_value(rng, 2)),
            _ => json_file(gen_junk_object(rng, 2)),
        };
        files.push(f);
    }
    let mut partials = Vec::new();
    if rng.chance(1, 6) {
        for _ in 0..(1 + rng.below(2)) {
            partials.push(gen_junk_object(rng, 1));
        }
    }
    json!({"kind":"load","files":files,"partials":partials})
}

fn observe(sc: &mut Scratch, case: &Value, lr: &str) -> Value {
    let mut c = case.clone();
    if case["kind"] == "paths" {
        c["luarocks"] = json!(lr);
        c["home"] = json!(HOME);
        c["out"] = match eval_paths(case) {
            Ok(v) => v,
            Err(e) => json!({"P": e}),
        };
    } else {
        c["raw"] = match eval_raw(sc, case) {
            Ok(v) => json!({"V": v}),
            Err(e) => json!({"P": e}),
        };
    }
    c
}

fn is_bad(f: &Value) -> bool {
    match f["k"].as_str() {
        Some("missing") | Some("binary") => true,
        Some("text") => BAD_TEXTS.iter().any(|(t, _)| Some(*t) == f["t"].as_str()),
        _ => false,
    }
}

/// property oracle on the implementation alone
fn search_one(sc: &mut Scratch, case: &Value, out: &mut Vec<Value>) {
    let mut report = |sig: &str, what: String| out.push(json!({"signature": sig, "what": what, "case": case}));
    if case["kind"] == "paths" {
        if let Err(e) = eval_paths(case) {
            report(classify_panic(&e), format!("pre_process_emmyrc panicked: {e}"));
        }
        return;
    }
    // hash-order dependence: every load builds fresh hash maps; try a few times
    let mut typed = None;
    for _ in 0..3 {
        match eval_raw(sc, case) {
            Err(e) => {
                report(classify_panic(&e), format!("load_configs_raw panicked: {e}"));
                return;
            }
            Ok(_) => {}
        }
        match eval_typed(sc, case) {
            Err(e) => {
                report(classify_panic(&e), format!("load_configs panicked: {e}"));
                return;
            }
            Ok(v) => typed = Some(v),
        }
    }
    let typed = typed.unwrap();
    if !typed.is_object() {
        report("no-configuration", format!("load_configs did not produce a configuration object: {typed}"));
    }
    // expanding the paths of the loaded configuration
    {
        let files = sc.materialise(case);
        let ps = case.get("partials").and_then(|p| p.as_array()).filter(|a| !a.is_empty()).cloned();
        let r = vh_common::guarded(move || {
            let mut rc = emmylua_code_analysis::load_configs(files, ps);
            rc.pre_process_emmyrc(std::path::Path::new("/w/s"));
        });
        if let Err(e) = r {
            report(classify_panic(&e), format!("pre_process_emmyrc of the loaded configuration panicked: {e}"));
        }
    }
    // unreadable / invalid files are skipped: removing them changes nothing
    let files = case["files"].as_array().cloned().unwrap_or_default();
    if files.iter().any(is_bad) {
        let mut c2 = case.clone();
        c2["files"] = Value::Array(files.iter().filter(|f| !is_bad(f)).cloned().collect());
        match (eval_raw(sc, case), eval_raw(sc, &c2)) {
            (Ok(a), Ok(b)) if a != b => report("bad-file-not-skipped", format!("with the bad files: {a}; without them: {b}")),
            _ => {}
        }
        if c2["files"].as_array().map(|a| a.is_empty()).unwrap_or(true) && case.get("partials").and_then(|p| p.as_array()).map(|a| a.is_empty()).unwrap_or(true) && typed != default_typed() {
            report("no-default-fallback", "only unreadable/invalid files but the result is not the default configuration".to_string());
        }
    }
}

fn nontrivial(case: &Value) -> bool {
    if case["kind"] == "paths" {
        let s = case.to_string();
        return s.contains('~') || s.contains('$') || s.contains('{');
    }
    let files = case["files"].as_array().cloned().unwrap_or_default();
    files.len() >= 2 || files.iter().any(|f| has_dotted_key(&f["v"]) || is_bad(f)) || case["partials"].as_array().map(|a| !a.is_empty()).unwrap_or(false)
}

fn main() {
    let args = Args::parse();
    let seed = args.u64("seed", 1);
    let n = args.usize("n", 100);
    let mut rng = Rng::new(seed ^ 0xC31);
    setup_env();
    let lr = luarocks_dir();
    let mut sc = Scratch::new("c31");
    let first: Vec<Value> = fixed_cases().into_iter().chain(corpus(&args.str("corpus", ""))).collect();
    match args.cmd.as_str() {
        "corr" => {
            for c in &first {
                // Lua files are not modelled (the model takes the evaluated table as given)
                if c.to_string().contains("\"ext\":\"lua\"") && c["files"].as_array().map(|a| a.iter().any(|f| !is_bad(f) && f["ext"] == "lua")).unwrap_or(false) {
                    continue;
                }
                println!("{}", observe(&mut sc, c, &lr));
            }
            let merge_mode = args.str("mode", "") == "merge";
            for i in 0..n {
                let c = if merge_mode {
                    // C32: two or three files carrying typed settings in mixed spellings
                    let nf = 2 + rng.below(2);
                    let files: Vec<Value> = (0..nf)
                        .map(|_| {
                            let s = gen_settings(&mut rng, 6);
                            json_file(render(&mut rng, &s, 2))
                        })
                        .collect();
                    json!({"kind":"load","files":files,"partials":[]})
                } else if i % 3 == 2 {
                    let mut c = gen_path_case(&mut rng);
                    c["kind"] = json!("paths");
                    c
                } else {
                    gen_load_case(&mut rng, false)
                };
                println!("{}", observe(&mut sc, &c, &lr));
            }
        }
        "search" => {
            let mut out = Vec::new();
            let mut distinct = std::collections::HashSet::new();
            let (mut cases, mut loads, mut paths, mut collide, mut bad, mut multi, mut lua) = (0usize, 0usize, 0usize, 0usize, 0usize, 0usize, 0usize);
            let gen_n = n;
            let fixed_nontrivial = first.iter().filter(|c| nontrivial(c)).map(hash_of).collect::<std::collections::HashSet<_>>().len();
            let all = first.into_iter().chain((0..gen_n).map(|i| {
                if i % 3 == 2 {
                    let mut c = gen_path_case(&mut rng);
                    c["kind"] = json!("paths");
                    c
                } else {
                    gen_load_case(&mut rng, true)
                }
            }));
            for c in all {
                search_one(&mut sc, &c, &mut out);
                cases += 1;
                if nontrivial(&c) {
                    distinct.insert(hash_of(&c));
                }
                if c["kind"] == "paths" {
                    paths += 1;
                } else {
                    loads += 1;
                    let files = c["files"].as_array().cloned().unwrap_or_default();
                    if files.len() >= 2 { multi += 1; }
                    if files.iter().any(is_bad) { bad += 1; }
                    if files.iter().any(|f| f["ext"] == "lua") { lua += 1; }
                    if files.iter().any(|f| has_dotted_key(&f["v"])) { collide += 1; }
                }
                if out.len() > 40 {
                    break;
                }
            }
            for v in &out {
                println!("{}", v);
            }
            println!("{}", json!({"summary": {"cases": cases, "distinct_nontrivial": distinct.len(), "fixed_nontrivial": fixed_nontrivial, "load_cases": loads, "path_cases": paths,
                "with_dotted_keys": collide, "with_bad_files": bad, "multi_file": multi, "with_lua": lua}}));
        }
        "one" => {
            let c: Value = serde_json::from_str(&args.str("case-json", "{}")).unwrap();
            println!("{}", observe(&mut sc, &c, &lr));
            let mut out = Vec::new();
            search_one(&mut sc, &c, &mut out);
            for v in &out {
                println!("{}", v);
            }
        }
        _ => {
            eprintln!("usage: c31 corr|search|one");
            std::process::exit(2);
        }
    }
}
