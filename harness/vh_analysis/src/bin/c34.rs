//! C34 harness: file path <-> file URI conversions and the Vfs file-id table (Unix only).
//!   c34 corr   --seed S --n N            -> JSON lines: implementation observations for the model to check
//!                                           (corpus witnesses first; kinds "p" path, "u" uri string, "v" vfs sequence)
//!   c34 search --seed S --n N --maxlen L -> JSON lines: violations of the property oracle (implementation alone)
//!                                           + final {"summary": …}
//!   c34 one    --path-json '"/a b"'      -> observations and oracle verdicts for one path (replay)
//!   c34 one    --uris-json '["file:///a","file:///%61"]' -> vfs ids of a sequence of uri strings
//! Windows drive/UNC behaviour is cfg(windows) code and cannot be exercised on this sandbox.
use emmylua_code_analysis::{Emmyrc, Vfs, file_path_to_uri, uri_to_file_path};
use lsp_types::Uri;
use serde_json::{Value, json};
use std::collections::HashSet;
use std::ffi::OsString;
use std::os::unix::ffi::{OsStrExt, OsStringExt};
use std::path::PathBuf;
use std::str::FromStr;
use vh_common::{Args, Rng, guarded};

// ---------------------------------------------------------------- generators

const PLAIN: &[char] = &['a', 'b', 'z', 'A', 'Q', '0', '9', '-', '_', '.', '~'];
const RESERVED: &[char] = &[
    ' ', '%', '#', '?', '&', '=', '+', ';', ',', '@', ':', '!', '$', '\'', '(', ')', '*', '[', ']', '|', '^', '`', '{', '}',
    '"', '<', '>', '\\',
];
const CONTROL: &[char] = &['\t', '\n', '\r', '\u{1}', '\u{1b}', '\u{1f}', '\u{7f}'];
const BMP: &[char] = &['é', 'ß', 'ø', '中', '文', 'я', '\u{301}', '\u{feff}', '\u{fffd}', '\u{200f}', '\u{80}', '\u{7ff}', '\u{800}', '\u{ffff}', '\u{d7ff}', '\u{e000}'];
const ASTRAL: &[char] = &['😀', '𝒳', '\u{10000}', '\u{10ffff}', '\u{1f1e6}'];
/// file names that look like escapes, dot segments or drive letters but are literal names
const TRICKY: &[&str] = &[
    "%41", "%2e", "%2E", "%2e%2e", ".%2e", "%zz", "%", "%%", "%4", "%C3%A9", "%25", "%2F", "%5C", "...", ". ", " .", "..a", "a..", ".a",
    "C:", "c:", "C|", "c|", "z|", "|", "a|b", "C:x", "file:", "a b ", " a", "x#y", "x?y=z", "#", "?", "~", "a\\b", "\\",
];

fn gen_component(rng: &mut Rng, maxlen: usize) -> String {
    loop {
        let mode = rng.below(12);
        let mut s = String::new();
        match mode {
            0 => s.push_str(*rng.pick(TRICKY)),
            1 => {
                // tricky piece embedded in a name
                if rng.chance(1, 2) { s.push(*rng.pick(PLAIN)); }
                s.push_str(*rng.pick(TRICKY));
                if rng.chance(1, 2) { s.push(*rng.pick(PLAIN)); }
            }
            2 => {
                // very long component
                let len = rng.range(60, 60 + 8 * maxlen);
                for _ in 0..len {
                    let c = if rng.chance(1, 6) { *rng.pick(BMP) } else if rng.chance(1, 10) { *rng.pick(RESERVED) } else { *rng.pick(PLAIN) };
                    s.push(c);
                }
            }
            3 => {
                // any scalar value
                let len = rng.range(1, maxlen);
                for _ in 0..len {
                    let v = match rng.below(4) {
                        0 => rng.range(1, 0x7f) as u32,
                        1 => rng.range(0x80, 0x7ff) as u32,
                        2 => rng.range(0x800, 0xffff) as u32,
                        _ => rng.range(0x10000, 0x10ffff) as u32,
                    };
                    if let Some(c) = char::from_u32(v) { s.push(c); }
                }
            }
            _ => {
                let len = rng.range(1, maxlen);
                for _ in 0..len {
                    let c = match rng.below(10) {
                        0 | 1 | 2 | 3 => *rng.pick(PLAIN),
                        4 | 5 => *rng.pick(RESERVED),
                        6 => *rng.pick(CONTROL),
                        7 | 8 => *rng.pick(BMP),
                        _ => *rng.pick(ASTRAL),
                    };
                    s.push(c);
                }
                if rng.chance(1, 8) { s.push(' '); }
            }
        }
        let s: String = s.chars().filter(|&c| c != '/' && c != '\0').collect();
        if !s.is_empty() && s != "." && s != ".." {
            return s;
        }
    }
}

/// a normalised absolute Unix path: "/" or "/c1/c2/…" with non-empty components other than "." and ".."
fn gen_norm_path(rng: &mut Rng, maxlen: usize) -> String {
    let depth = match rng.below(20) { 0 => 0, 1 => rng.range(8, 20), _ => rng.range(1, 5) };
    if depth == 0 {
        return "/".to_string();
    }
    let mut s = String::new();
    for _ in 0..depth {
        s.push('/');
        s.push_str(&gen_component(rng, maxlen));
    }
    s
}

/// paths outside the property's quantifier (correspondence only): dot components, doubled and trailing slashes, relative
fn gen_wild_path(rng: &mut Rng, maxlen: usize) -> String {
    let mut s = String::new();
    if rng.chance(9, 10) { s.push('/'); }
    let depth = rng.range(0, 5);
    for i in 0..depth {
        if i > 0 || rng.chance(1, 6) { s.push('/'); }
        match rng.below(8) {
            0 => s.push('.'),
            1 => s.push_str(".."),
            2 => {}
            _ => s.push_str(&gen_component(rng, maxlen)),
        }
    }
    if rng.chance(1, 4) { s.push('/'); }
    s
}

fn hex(b: u8, mode: usize, rng: &mut Rng) -> String {
    let up = format!("%{:02X}", b);
    match mode {
        0 => up,
        1 => up.to_lowercase(),
        _ => up.chars().map(|c| if rng.chance(1, 2) { c.to_ascii_lowercase() } else { c }).collect(),
    }
}

/// may this character stand for itself in the path of a file URI without changing which path the URI denotes?
/// (the URL parser trims/drops controls and spaces, splits at `/ \ ? #`, decodes after `%`); same as `lit_ok` of
/// coq/theories/C34/Spec.v. After "file:///" a first segment `X|` is NOT read as a drive (only after "file:/" or "file:").
fn literal_ok(c: char) -> bool {
    c > ' ' && !matches!(c, '%' | '#' | '?' | '\\' | '/')
}

/// an alternative percent-encoding of the URI of `path` (same decoded bytes)
fn alt_encoding(path: &str, rng: &mut Rng) -> String {
    let style = rng.below(6);
    let mut s = String::from("file://");
    for c in path.chars() {
        if c == '/' {
            s.push('/');
            continue;
        }
        let escape = match style {
            0 => true,                                   // escape everything
            1 => !literal_ok(c),                         // escape only what must be
            2 => !literal_ok(c) || !c.is_ascii(),        // literal ASCII, escaped non-ASCII
            3 => !literal_ok(c) || c.is_ascii_alphanumeric(), // over-escape unreserved
            _ => !literal_ok(c) || rng.chance(1, 2),
        };
        if escape {
            let mut buf = [0u8; 4];
            let hm = match style { 0 => rng.below(3), 3 => 1, _ => rng.below(3) };
            for &b in c.encode_utf8(&mut buf).as_bytes() {
                s.push_str(&hex(b, hm, rng));
            }
        } else {
            s.push(c);
        }
    }
    s
}

/// uri strings for the correspondence: canonical, alternative, and deliberately odd ones
fn gen_uri_string(rng: &mut Rng, maxlen: usize) -> String {
    let p = gen_norm_path(rng, maxlen.min(6));
    match rng.below(16) {
        0 | 1 | 2 | 3 => alt_encoding(&p, rng),
        4 => match file_path_to_uri(&PathBuf::from(&p)) { Some(u) => u.as_str().to_string(), None => "file:///".into() },
        5 => format!("file://{}", p), // raw, nothing escaped
        6 => format!("file:{}", p),
        7 => format!("FiLe://{}", alt_encoding(&p, rng).trim_start_matches("file://")),
        8 => {
            // dot segments and encoded dots
            let mut s = String::from("file://");
            for _ in 0..rng.range(1, 5) {
                s.push('/');
                s.push_str(*rng.pick(&["a", "b", ".", "..", "%2e", "%2E", "%2e%2E", ".%2e", "%2E.", "", "C:", "C|", "c%7C", "x y", "%zz", "%", "é"]));
            }
            if rng.chance(1, 3) { s.push('/'); }
            s
        }
        9 => {
            let mut s = alt_encoding(&p, rng);
            s.push_str(*rng.pick(&["?q=1", "#frag", "?a#b", "#", "?", " ", "\u{1}"]));
            s
        }
        10 => format!("file://{}{}", "/", rng.pick(&["%FF", "%C0%AF", "%ED%A0%80", "%F4%90%80%80", "%E2%82", "a%80", "%C3%A9", "%F0%9F%98%80"])),
        11 => format!("file:///{}", rng.pick(&["C|/x", "c:/x", "C|", "z|/../y", "C:\\x\\y", "a\\b", "/x", "//x//y", "1|/x", "ab|/x"])),
        12 => rng.pick(&["file://localhost/x", "file://host/x", "http://a/b", "untitled:Untitled-1", "file:", "file://", "file:///", "file:x/y", "file:C|/x", "nocolon", "file://C:/x"]).to_string(),
        13 => format!(" \t{} ", alt_encoding(&p, rng)),
        _ => alt_encoding(&gen_wild_path(rng, 4), rng),
    }
}

// ---------------------------------------------------------------- observation helpers

fn cps(s: &str) -> Vec<u32> {
    s.chars().map(|c| c as u32).collect()
}

fn path_cps(p: &PathBuf) -> Value {
    match p.to_str() {
        Some(s) => json!(cps(s)),
        None => json!("B"), // not UTF-8 (cannot happen: decode_utf8 precedes PathBuf::from)
    }
}

fn new_vfs() -> Vfs {
    let mut vfs = Vfs::new();
    vfs.update_config(Emmyrc::default().into());
    vfs
}

/// path string -> file_path_to_uri -> uri_to_file_path
fn observe_path(p: &str) -> Value {
    let r = guarded(|| {
        let uri = file_path_to_uri(&PathBuf::from(p));
        match uri {
            None => (json!("N"), json!("N")),
            Some(u) => {
                let back = uri_to_file_path(&u);
                (json!(cps(u.as_str())), back.map(|b| path_cps(&b)).unwrap_or(json!("N")))
            }
        }
    });
    match r {
        Ok((u, b)) => json!({"k": "p", "p": cps(p), "uri": u, "back": b}),
        Err(e) => json!({"k": "p", "p": cps(p), "uri": "P", "back": "P", "panic": e}),
    }
}

/// uri string -> Uri::from_str -> (path(), uri_to_file_path)
fn observe_uri(u: &str) -> Value {
    let r = guarded(|| match Uri::from_str(u) {
        Err(_) => (json!("E"), json!("N")),
        Ok(uri) => {
            let back = uri_to_file_path(&uri);
            (json!({"file": uri.scheme() == "file", "path": cps(uri.path()), "nohost": uri.host_str().is_none()}),
             back.map(|b| path_cps(&b)).unwrap_or(json!("N")))
        }
    });
    match r {
        Ok((parsed, back)) => json!({"k": "u", "u": cps(u), "parsed": parsed, "back": back}),
        Err(e) => json!({"k": "u", "u": cps(u), "parsed": "P", "back": "P", "panic": e}),
    }
}

/// a sequence of (parsable) uri strings through one Vfs: file_id of each in order, then get_file_id of each
fn observe_vfs(uris: &[String]) -> Value {
    let parsed: Vec<(String, Uri)> = uris.iter().filter_map(|s| Uri::from_str(s).ok().map(|u| (s.clone(), u))).collect();
    let mut vfs = new_vfs();
    let ids: Vec<u32> = parsed.iter().map(|(_, u)| vfs.file_id(u).id).collect();
    let gets: Vec<Value> = parsed.iter().map(|(_, u)| vfs.get_file_id(u).map(|f| json!(f.id)).unwrap_or(json!("N"))).collect();
    json!({"k": "v", "uris": parsed.iter().map(|(s, _)| cps(s)).collect::<Vec<_>>(), "ids": ids, "gets": gets})
}

fn gen_vfs_case(rng: &mut Rng, maxlen: usize) -> Vec<String> {
    let np = rng.range(1, 3);
    let paths: Vec<String> = (0..np).map(|_| gen_norm_path(rng, maxlen.min(5))).collect();
    let mut uris = Vec::new();
    for _ in 0..rng.range(2, 7) {
        let p = rng.pick(&paths).clone();
        let u = match rng.below(8) {
            0 => gen_uri_string(rng, maxlen),
            1 => {
                // same file by PathBuf component equality: doubled / trailing slashes, "." components
                let q = p.replacen('/', *rng.pick(&["//", "/./", "/"]), 1);
                let mut s = alt_encoding(&q, rng);
                if rng.chance(1, 3) { s.push('/'); }
                s
            }
            _ => alt_encoding(&p, rng),
        };
        uris.push(u);
    }
    uris
}

// ---------------------------------------------------------------- property oracle (implementation alone)

fn first_component(p: &str) -> &str {
    p.trim_start_matches('/').split('/').next().unwrap_or("")
}

fn is_drive_bar(seg: &str) -> bool {
    let b = seg.as_bytes();
    b.len() == 2 && b[0].is_ascii_alphabetic() && b[1] == b'|'
}

/// class of a failing path, used as finding signature (a class of inputs, never the property id)
fn classify(p: &str) -> &'static str {
    if is_drive_bar(first_component(p)) {
        "first-component-letter-bar"
    } else if !p.is_ascii() {
        "non-ascii"
    } else if p.contains('%') {
        "percent"
    } else if p.chars().any(|c| c <= ' ' || c == '\u{7f}') {
        "control-or-space"
    } else {
        "other"
    }
}

struct Stats {
    paths: usize,
    alts: usize,
    distinct: HashSet<String>,
    with_percent: usize,
    with_hash_q: usize,
    with_space: usize,
    with_control: usize,
    with_nonascii: usize,
    with_astral: usize,
    with_backslash_bar: usize,
    long_component: usize,
    root: usize,
    max_bytes: usize,
}

fn search_path(p: &str, rng: &mut Rng, nalt: usize, out: &mut Vec<Value>, st: &mut Stats) {
    let mut report = |sig: String, what: String, extra: Value| {
        out.push(json!({"signature": sig, "what": what, "path": p, "extra": extra}));
    };
    st.paths += 1;
    if p != "/" && (p.contains(|c: char| !c.is_ascii_alphanumeric() && c != '/' && c != '.' && c != '_' && c != '-')) {
        st.distinct.insert(p.to_string());
    }
    if p.contains('%') { st.with_percent += 1; }
    if p.contains('#') || p.contains('?') { st.with_hash_q += 1; }
    if p.contains(' ') { st.with_space += 1; }
    if p.chars().any(|c| c < ' ' || c == '\u{7f}') { st.with_control += 1; }
    if !p.is_ascii() { st.with_nonascii += 1; }
    if p.chars().any(|c| c as u32 >= 0x10000) { st.with_astral += 1; }
    if p.contains('\\') || p.contains('|') { st.with_backslash_bar += 1; }
    if p.split('/').any(|c| c.len() > 200) { st.long_component += 1; }
    if p == "/" { st.root += 1; }
    st.max_bytes = st.max_bytes.max(p.len());

    let pb = PathBuf::from(p);
    // 1. path -> uri -> path
    let uri = match guarded(|| file_path_to_uri(&pb)) {
        Err(e) => return report(format!("to-uri-panic:{}", classify(p)), format!("file_path_to_uri panicked: {e}"), json!(null)),
        Ok(None) => return report(format!("to-uri-none:{}", classify(p)), "file_path_to_uri returned None for a normalised absolute path".into(), json!(null)),
        Ok(Some(u)) => u,
    };
    match guarded(|| uri_to_file_path(&uri)) {
        Err(e) => report(format!("to-path-panic:{}", classify(p)), format!("uri_to_file_path panicked: {e}"), json!({"uri": uri.as_str()})),
        Ok(None) => report(format!("to-path-none:{}", classify(p)), format!("uri_to_file_path({}) is None", uri.as_str()), json!({"uri": uri.as_str()})),
        Ok(Some(back)) => {
            if back.as_os_str().as_bytes() != p.as_bytes() {
                report(format!("roundtrip:{}", classify(p)),
                       format!("path {:?} -> {} -> {:?}", p, uri.as_str(), back.to_string_lossy()),
                       json!({"uri": uri.as_str(), "back": back.to_string_lossy()}));
            }
        }
    }
    // 2. every alternative encoding identifies the same analysed file
    let mut vfs = new_vfs();
    let id0 = vfs.file_id(&uri);
    let text = format!("return {}", st.paths);
    vfs.set_file_content(&uri, Some(text.clone()));
    // the uri the Vfs hands back for the id leads to the same path
    match vfs.get_uri(&id0).and_then(|u| uri_to_file_path(&u)) {
        Some(q) if q.as_os_str().as_bytes() == p.as_bytes() => {}
        other => report(format!("get-uri:{}", classify(p)), format!("Vfs::get_uri of the id of {:?} leads to {:?}", p, other), json!({"uri": uri.as_str()})),
    }
    for _ in 0..nalt {
        let alt = alt_encoding(p, rng);
        st.alts += 1;
        let au = match Uri::from_str(&alt) {
            Ok(u) => u,
            Err(e) => { report(format!("alt-unparsable:{}", classify(p)), format!("alternative encoding {alt} does not parse: {e}"), json!({"alt": alt})); continue; }
        };
        let got = vfs.get_file_id(&au);
        let id1 = vfs.file_id(&au);
        if id1 != id0 || got != Some(id0) {
            report(format!("alt-other-file:{}", classify(p)),
                   format!("{} and {} (same path {:?}) get file ids {} and {} (get_file_id: {:?})", uri.as_str(), alt, p, id0.id, id1.id, got.map(|f| f.id)),
                   json!({"uri": uri.as_str(), "alt": alt}));
            continue;
        }
        if vfs.get_file_content(&id1) != Some(&text) {
            report(format!("alt-content:{}", classify(p)), format!("content set through {} not visible through {}", uri.as_str(), alt), json!({"alt": alt}));
        }
        // writing through the alternative is visible through the canonical uri's id
        let t2 = format!("{text} -- alt");
        let id2 = vfs.set_file_content(&au, Some(t2.clone()));
        if id2 != id0 || vfs.get_file_content(&id0) != Some(&t2) {
            report(format!("alt-content:{}", classify(p)), format!("set_file_content through {} went to another file than {}", alt, uri.as_str()), json!({"alt": alt}));
        }
        vfs.set_file_content(&uri, Some(text.clone()));
    }
}

// ---------------------------------------------------------------- corpus

fn corpus_dir() -> PathBuf {
    let exe = std::env::var("VERIF_ROOT").unwrap_or_else(|_| "/verif".to_string());
    PathBuf::from(exe).join("corpus").join("C34")
}

fn load_corpus() -> (Vec<String>, Vec<String>, Vec<Vec<String>>) {
    let mut paths = Vec::new();
    let mut uris = Vec::new();
    let mut seqs = Vec::new();
    let f = corpus_dir().join("witnesses.json");
    match std::fs::read_to_string(&f) {
        Ok(s) => {
            let v: Value = serde_json::from_str(&s).expect("corpus/C34/witnesses.json is JSON");
            for x in v["paths"].as_array().cloned().unwrap_or_default() { paths.push(x.as_str().unwrap().to_string()); }
            for x in v["uris"].as_array().cloned().unwrap_or_default() { uris.push(x.as_str().unwrap().to_string()); }
            for x in v["vfs"].as_array().cloned().unwrap_or_default() {
                seqs.push(x.as_array().unwrap().iter().map(|y| y.as_str().unwrap().to_string()).collect());
            }
        }
        Err(e) => {
            eprintln!("corpus file {} missing: {e}", f.display());
            std::process::exit(3);
        }
    }
    (paths, uris, seqs)
}

fn main() {
    let args = Args::parse();
    let seed = args.u64("seed", 1);
    let n = args.usize("n", 100);
    let maxlen = args.usize("maxlen", 12);
    let mut rng = Rng::new(seed ^ 0xC34);
    match args.cmd.as_str() {
        "corr" => {
            let (paths, uris, seqs) = load_corpus();
            for p in &paths { println!("{}", observe_path(p)); }
            for u in &uris { println!("{}", observe_uri(u)); }
            for s in &seqs { println!("{}", observe_vfs(s)); }
            for i in 0..n {
                match i % 5 {
                    0 => println!("{}", observe_path(&gen_norm_path(&mut rng, maxlen))),
                    1 => println!("{}", observe_path(&gen_wild_path(&mut rng, maxlen))),
                    2 | 3 => println!("{}", observe_uri(&gen_uri_string(&mut rng, maxlen))),
                    _ => println!("{}", observe_vfs(&gen_vfs_case(&mut rng, maxlen))),
                }
            }
        }
        "search" => {
            let nalt = args.usize("alts", 6);
            let (paths, _, _) = load_corpus();
            let mut out = Vec::new();
            let mut st = Stats { paths: 0, alts: 0, distinct: HashSet::new(), with_percent: 0, with_hash_q: 0, with_space: 0, with_control: 0,
                                 with_nonascii: 0, with_astral: 0, with_backslash_bar: 0, long_component: 0, root: 0, max_bytes: 0 };
            let normal = |p: &str| p.starts_with('/') && (p == "/" || p[1..].split('/').all(|c| !c.is_empty() && c != "." && c != "..")) && !p.contains('\0');
            for p in paths.iter().filter(|p| normal(p)) {
                search_path(p, &mut rng, nalt, &mut out, &mut st);
            }
            for _ in 0..n {
                let p = gen_norm_path(&mut rng, maxlen);
                search_path(&p, &mut rng, nalt, &mut out, &mut st);
                if out.len() > 200 { break; }
            }
            // keep one (the shortest) witness per signature
            out.sort_by_key(|v| v["path"].as_str().map(|s| s.len()).unwrap_or(0));
            let mut seen = HashSet::new();
            for v in &out {
                if seen.insert(v["signature"].as_str().unwrap().to_string()) {
                    println!("{}", v);
                }
            }
            println!("{}", json!({"summary": {
                "cases": st.paths, "distinct_nontrivial": st.distinct.len(), "alternative_encodings": st.alts, "violations_raw": out.len(),
                "with_percent": st.with_percent, "with_hash_or_question": st.with_hash_q, "with_space": st.with_space,
                "with_control": st.with_control, "with_nonascii": st.with_nonascii, "with_astral": st.with_astral,
                "with_backslash_or_bar": st.with_backslash_bar, "component_over_200_bytes": st.long_component, "root": st.root,
                "max_path_bytes": st.max_bytes}}));
        }
        "one" => {
            if args.kv.contains_key("path-json") {
                let p: String = serde_json::from_str(&args.str("path-json", "\"/\"")).unwrap();
                println!("{}", observe_path(&p));
                let mut out = Vec::new();
                let mut st = Stats { paths: 0, alts: 0, distinct: HashSet::new(), with_percent: 0, with_hash_q: 0, with_space: 0, with_control: 0,
                                     with_nonascii: 0, with_astral: 0, with_backslash_bar: 0, long_component: 0, root: 0, max_bytes: 0 };
                search_path(&p, &mut rng, args.usize("alts", 12), &mut out, &mut st);
                for v in &out { println!("{}", v); }
            } else if args.kv.contains_key("uris-json") {
                let us: Vec<String> = serde_json::from_str(&args.str("uris-json", "[]")).unwrap();
                for u in &us { println!("{}", observe_uri(u)); }
                println!("{}", observe_vfs(&us));
            } else if args.kv.contains_key("bytes-json") {
                // a path given as raw bytes (non-UTF-8 paths are outside the property; shown for information)
                let b: Vec<u8> = serde_json::from_str(&args.str("bytes-json", "[47]")).unwrap();
                let pb = PathBuf::from(OsString::from_vec(b));
                let u = file_path_to_uri(&pb);
                println!("{}", json!({"uri": u.as_ref().map(|u| u.as_str().to_string()), "back": u.and_then(|u| uri_to_file_path(&u)).map(|p| p.to_string_lossy().to_string())}));
            }
        }
        _ => {
            eprintln!("usage: c34 corr|search|one");
            std::process::exit(2);
        }
    }
}
