//! C13 harness: names resolve to the declaration Lua's scoping rules select.
//!   c13 corr   --seed S --n N [--corpus DIR]  -> JSON lines: program (Coq term), printed text, the implementation's
//!                                               reference-index answer for every name use and its scope tree
//!   c13 search --seed S --n N [--corpus DIR]  -> JSON lines: disagreements between the REFERENCE resolver (A) and the
//!                                               implementation (reference index, SemanticModel::find_decl), shrunk; summary
//!   c13 one    --case-json '{"prog":..}' | --text-json '"..."'   -> replay / dump
#[path = "../scoping.rs"]
mod scoping;
use emmylua_code_analysis::VirtualWorkspace;
use scoping::*;
use serde_json::{Value, json};
use std::collections::{BTreeMap, HashSet};
use vh_common::{Args, Rng, guarded};

/// hand-written witnesses (always first): the reproduced defects and the tricky scoping shapes
fn fixed_programs() -> Vec<Block> {
    use Expr::{Idx, Name, Num};
    use Stat::{Assign, Do, For, ForIn, If, Local, LocalFun, Repeat, While};
    let efun = |ps: Vec<u32>, b: Block| Expr::Fun(ps, b);
    let n = |x: u32| Name(x);
    let call = |f: Expr, a: Vec<Expr>| Stat::Call(f, a);
    let blk = |s: Vec<Stat>| Block { stats: s, ret: None };
    let fun = |ps: Vec<u32>, s: Vec<Stat>| Expr::Fun(ps, Block { stats: s, ret: None });
    vec![
        // local a, a = 1, 2 print(a)
        blk(vec![Local(vec![0, 0], vec![Num(1), Num(2)]), call(n(3), vec![n(0)])]),
        // local i = 5 for i = i, 10 do print(i) end
        blk(vec![Local(vec![5], vec![Num(5)]), For(5, vec![n(5), Num(10)], blk(vec![call(n(3), vec![n(5)])]))]),
        // for i = i, 10 do end   (empty body)
        blk(vec![Local(vec![5], vec![Num(5)]), For(5, vec![n(5), Num(10)], blk(vec![]))]),
        // for a, b in (function() return a end)() do print(a) end
        blk(vec![ForIn(vec![0, 1], vec![Expr::Call(Box::new(efun(vec![], Block { stats: vec![], ret: Some(vec![n(0)]) })), vec![])], blk(vec![call(n(3), vec![n(0)])]))]),
        // for i = (function() return i end)(), 2 do end
        blk(vec![For(5, vec![Expr::Call(Box::new(efun(vec![], Block { stats: vec![], ret: Some(vec![n(5)]) })), vec![]), Num(2)], blk(vec![]))]),
        // repeat until f(function(a) end, a)
        blk(vec![Repeat(blk(vec![]), Expr::Call(Box::new(n(3)), vec![fun(vec![0], vec![]), n(0)]))]),
        // repeat local a = 1 until a ; print(a)
        blk(vec![Repeat(blk(vec![Local(vec![0], vec![Num(1)])]), n(0)), call(n(3), vec![n(0)])]),
        // repeat local a until (function() return a end)()
        blk(vec![Repeat(blk(vec![Local(vec![0], vec![])]), Expr::Call(Box::new(efun(vec![], Block { stats: vec![], ret: Some(vec![n(0)]) })), vec![]))]),
        // local a = a ; local a = function() return a end
        blk(vec![Local(vec![0], vec![n(0)]), Local(vec![0], vec![efun(vec![], Block { stats: vec![], ret: Some(vec![n(0)]) })])]),
        // local function f(a) return f(a) end  f(1)
        blk(vec![LocalFun(3, vec![0], Block { stats: vec![], ret: Some(vec![Expr::Call(Box::new(n(3)), vec![n(0)])]) }), call(n(3), vec![Num(1)])]),
        // function a.b:c(b) self.b = b end ; a = 1 ; print(a)
        blk(vec![
            Stat::Fun(FuncName { root: 0, fields: vec![1], meth: Some(2) }, vec![1], blk(vec![Assign(vec![Idx(Box::new(n(4)), 1)], vec![n(1)])])),
            Assign(vec![n(0)], vec![Num(1)]),
            call(n(3), vec![n(0)]),
        ]),
        // local f ; function f(a, a) return a end
        blk(vec![Local(vec![3], vec![]), Stat::Fun(FuncName { root: 3, fields: vec![], meth: None }, vec![0, 0], Block { stats: vec![], ret: Some(vec![n(0)]) })]),
        // a, b = b, a ; local a, b = b, a ; a, b = b, a
        blk(vec![Assign(vec![n(0), n(1)], vec![n(1), n(0)]), Local(vec![0, 1], vec![n(1), n(0)]), Assign(vec![n(0), n(1)], vec![n(1), n(0)])]),
        // if a then local a elseif a then local b else local c end print(a, b, c)
        blk(vec![
            If(n(0), blk(vec![Local(vec![0], vec![])]), Elifs::ElseIf(n(0), blk(vec![Local(vec![1], vec![])]), Box::new(Elifs::Else(blk(vec![Local(vec![2], vec![])]))))),
            call(n(3), vec![n(0), n(1), n(2)]),
        ]),
        // while a do local a = a end ; do local b end print(b)
        blk(vec![While(n(0), blk(vec![Local(vec![0], vec![n(0)])])), Do(blk(vec![Local(vec![1], vec![])])), call(n(3), vec![n(1)])]),
        // for a, a in a do print(a) end
        blk(vec![ForIn(vec![0, 0], vec![n(0)], blk(vec![call(n(3), vec![n(0)])]))]),
        // repeat repeat local a until a until a
        blk(vec![Repeat(blk(vec![Repeat(blk(vec![Local(vec![0], vec![])]), n(0))]), n(0))]),
        // local self = 1 ; function a:b() return self end ; print(self)
        blk(vec![Local(vec![4], vec![Num(1)]), Stat::Fun(FuncName { root: 0, fields: vec![], meth: Some(1) }, vec![], Block { stats: vec![], ret: Some(vec![n(4)]) }), call(n(3), vec![n(4)])]),
    ]
}

/// raw texts outside the fragment's alphabet with hand-computed expectations: (text, [(use offset, expected)], signature)
fn raw_cases() -> Vec<(&'static str, Vec<(u32, Res)>, &'static str)> {
    vec![
        // `_ = e` is given a fresh local-like declaration by analyze_assign_stat even when a local `_` is visible
        ("local _ = 1 _ = 2 print(_) ", vec![(12, Some(6)), (18, None), (24, Some(6))], "assignment-to-underscore-declares-a-local"),
        ("_ = 2 print(_) ", vec![(0, None), (6, None), (12, None)], "assignment-to-underscore-declares-a-local"),
    ]
}

fn compare_raw(ws: &mut VirtualWorkspace, text: &str, expect: &[(u32, Res)], sig: &str) -> Vec<Disagreement> {
    let (_fid, obs) = observe(ws, text);
    let mut out = Vec::new();
    for (pos, exp) in expect {
        let got = obs.uses.iter().find(|u| u.0 == *pos).map(|u| impl_res(&u.2));
        if got != Some(*exp) {
            out.push(Disagreement {
                sig: sig.to_string(),
                what: format!("the name at offset {} resolves to {:?} but Lua scoping selects {:?} in `{}`", pos, got.flatten(), exp, text.trim_end()),
            });
            break;
        }
    }
    out
}

fn load_corpus(dir: &str) -> Vec<Block> {
    let mut out = Vec::new();
    if dir.is_empty() {
        return out;
    }
    let mut files: Vec<_> = match std::fs::read_dir(dir) {
        Ok(rd) => rd.filter_map(|e| e.ok()).map(|e| e.path()).filter(|p| p.extension().map(|x| x == "json").unwrap_or(false)).collect(),
        Err(_) => return out,
    };
    files.sort();
    for f in files {
        if let Ok(s) = std::fs::read_to_string(&f) {
            if let Ok(v) = serde_json::from_str::<Value>(&s) {
                let items = if v.is_array() { v.as_array().cloned().unwrap_or_default() } else { vec![v] };
                for it in items {
                    if it.get("prog").is_some() {
                        out.push(block_of_json(&it["prog"]));
                    }
                }
            }
        }
    }
    out
}

fn gen_case(rng: &mut Rng, i: usize) -> Block {
    // several shapes: tiny alphabets force shadowing; deeper programs exercise nesting
    let names = [2u32, 3, 3, 4, 5, 6][rng.below(6)];
    let (depth, max_stats, budget) = match i % 4 {
        0 => (2, 4, 30),
        1 => (3, 5, 60),
        2 => (4, 6, 90),
        _ => (3, 8, 120),
    };
    gen_program(rng, names, depth, max_stats, budget)
}

struct Disagreement {
    sig: String,
    what: String,
}

/// compare the reference resolver with the implementation on one program
fn compare(ws: &mut VirtualWorkspace, prog: &Block) -> Result<Vec<Disagreement>, String> {
    let pr = Printer::program(prog);
    let (_fid, obs) = observe(ws, &pr.out);
    if obs.parse_errors > 0 {
        return Err(format!("printed program does not parse: {:?}", pr.out));
    }
    if obs.uses.len() != pr.uses.len() || obs.uses.iter().zip(pr.uses.iter()).any(|(a, b)| a.0 != b.0 || a.1 != name_text(b.1)) {
        return Err(format!("name-use tokens of the parse differ from the printer's: {:?}", pr.out));
    }
    let mut out = Vec::new();
    for (i, (pos, name, expected)) in pr.uses.iter().enumerate() {
        let got = impl_res(&obs.uses[i].2);
        if got != *expected {
            let sig = classify(&pr, i, got);
            out.push(Disagreement {
                sig,
                what: format!(
                    "`{}` at offset {} resolves to {} but Lua scoping selects {}",
                    name_text(*name),
                    pos,
                    got.map(|p| format!("the declaration at {}", p)).unwrap_or("a global".into()),
                    expected.map(|p| format!("the declaration at {}", p)).unwrap_or("the global".into())
                ),
            });
            continue;
        }
        // SemanticModel::find_decl on the same token (the implicit self deliberately goes to the method's owner)
        let is_implicit_self = matches!(obs.uses[i].2, Some((_, 1)));
        if !is_implicit_self {
            let fd = obs.find_decl[i].1;
            if fd != *expected {
                out.push(Disagreement {
                    sig: "find-decl-differs-from-reference-index".into(),
                    what: format!(
                        "SemanticModel::find_decl on `{}` at offset {} gives {:?} but the reference index and Lua scoping give {:?}",
                        name_text(*name),
                        pos,
                        fd,
                        expected
                    ),
                });
            }
        }
    }
    // declaration tokens answer themselves
    let decl_pos: HashSet<u32> = pr.decls.iter().filter(|d| d.kind != DeclKind::SelfParam).map(|d| d.pos).collect();
    for (pos, fd) in &obs.decl_tokens {
        if !decl_pos.contains(pos) {
            return Err(format!("declaration token at {} unknown to the printer: {:?}", pos, pr.out));
        }
        if *fd != Some(*pos) {
            out.push(Disagreement { sig: "declaration-token-not-its-own-declaration".into(), what: format!("find_decl on the declaration token at {} gives {:?}", pos, fd) });
        }
    }
    if obs.decl_tokens.len() != decl_pos.len() {
        return Err(format!("declaration tokens of the parse differ from the printer's: {:?}", pr.out));
    }
    Ok(out)
}

fn corr_line(ws: &mut VirtualWorkspace, prog: &Block) -> Value {
    let pr = Printer::program(prog);
    let (_fid, obs) = observe(ws, &pr.out);
    let uses: Vec<Value> = obs
        .uses
        .iter()
        .map(|(p, t, r)| match r {
            Some((d, k)) => json!([p, t, d, k]),
            None => json!([p, t]),
        })
        .collect();
    json!({"coq": coq_block(prog), "prog": json_block(prog), "text": pr.out, "uses": uses, "tree": obs.tree, "errors": obs.parse_errors,
           "nuses": pr.uses.len(), "ndecls": pr.decls.len()})
}

fn nontrivial(pr: &Printer) -> bool {
    // at least one use resolves to a local and some name is declared twice (shadowing is possible)
    let mut seen = HashSet::new();
    let mut dup = false;
    for d in &pr.decls {
        if !seen.insert(d.name) {
            dup = true;
        }
    }
    dup && pr.uses.iter().any(|u| u.2.is_some())
}

fn main() {
    let args = Args::parse();
    let seed = args.u64("seed", 1);
    let n = args.usize("n", 100);
    let corpus = args.str("corpus", "");
    let mut rng = Rng::new(seed ^ 0xC13);
    let mut ws = VirtualWorkspace::new();
    match args.cmd.as_str() {
        "corr" => {
            let mut progs = fixed_programs();
            progs.extend(load_corpus(&corpus));
            for i in 0..n {
                progs.push(gen_case(&mut rng, i));
            }
            for p in &progs {
                println!("{}", corr_line(&mut ws, p));
            }
        }
        "search" => {
            let mut progs = fixed_programs();
            progs.extend(load_corpus(&corpus));
            let nfixed = progs.len();
            for i in 0..n {
                progs.push(gen_case(&mut rng, i));
            }
            let mut distinct = HashSet::new();
            let mut by_sig: BTreeMap<String, Value> = BTreeMap::new();
            let mut dist: BTreeMap<&str, usize> = BTreeMap::new();
            let (mut total_uses, mut local_uses, mut total_decls, mut harness_errors) = (0usize, 0usize, 0usize, 0usize);
            for (idx, p) in progs.iter().enumerate() {
                let pr = Printer::program(p);
                total_uses += pr.uses.len();
                local_uses += pr.uses.iter().filter(|u| u.2.is_some()).count();
                total_decls += pr.decls.len();
                for d in &pr.decls {
                    *dist.entry(match d.kind {
                        DeclKind::Local => "decl_local",
                        DeclKind::LocalFun => "decl_local_function",
                        DeclKind::Param => "decl_param",
                        DeclKind::SelfParam => "decl_implicit_self",
                        DeclKind::ForNum => "decl_numeric_for",
                        DeclKind::ForIn => "decl_generic_for",
                    })
                    .or_insert(0) += 1;
                }
                if nontrivial(&pr) {
                    distinct.insert(pr.out.clone());
                }
                let r = guarded(|| compare(&mut ws, p));
                let r = match r {
                    Ok(r) => r,
                    Err(e) => {
                        ws = VirtualWorkspace::new();
                        Ok(vec![Disagreement { sig: "analysis-panicked".into(), what: format!("analysis panicked: {}", e) }])
                    }
                };
                match r {
                    Err(e) => {
                        harness_errors += 1;
                        println!("{}", json!({"harness_error": e, "prog": json_block(p), "index": idx}));
                    }
                    Ok(ds) => {
                        for d in ds {
                            if by_sig.contains_key(&d.sig) {
                                continue;
                            }
                            // shrink: keep the same signature
                            let sig = d.sig.clone();
                            let small = shrink(p, &mut |c: &Block| match guarded(|| compare(&mut ws, c)) {
                                Ok(Ok(ds)) => ds.iter().any(|x| x.sig == sig),
                                _ => false,
                            });
                            let what = match compare(&mut ws, &small) {
                                Ok(ds) => ds.into_iter().find(|x| x.sig == sig).map(|x| x.what).unwrap_or(d.what.clone()),
                                Err(_) => d.what.clone(),
                            };
                            let text = Printer::program(&small).out;
                            by_sig.insert(d.sig.clone(), json!({"signature": d.sig, "what": format!("{} in `{}`", what, text.trim_end()), "text": text, "prog": json_block(&small), "fixed_case": idx < nfixed}));
                        }
                    }
                }
                // a fresh workspace now and then keeps memory flat
                if idx % 500 == 499 {
                    ws = VirtualWorkspace::new();
                }
            }
            let mut raw_count = 0usize;
            for (text, expect, sig) in raw_cases() {
                raw_count += 1;
                for d in compare_raw(&mut ws, text, &expect, sig) {
                    by_sig.entry(d.sig.clone()).or_insert(json!({"signature": d.sig, "what": d.what, "text": text, "prog": Value::Null, "fixed_case": true}));
                }
            }
            for v in by_sig.values() {
                println!("{}", v);
            }
            let mut summary = json!({"cases": progs.len(), "distinct_nontrivial": distinct.len(), "name_uses": total_uses, "uses_resolving_to_locals": local_uses,
                                     "declarations": total_decls, "harness_errors": harness_errors, "raw_text_cases": raw_count});
            for (k, v) in dist {
                summary[k] = json!(v);
            }
            println!("{}", json!({"summary": summary}));
        }
        "one" => {
            if args.flag("case-json") {
                let v: Value = serde_json::from_str(&args.str("case-json", "{}")).unwrap();
                let p = block_of_json(&v["prog"]);
                println!("{}", corr_line(&mut ws, &p));
                match compare(&mut ws, &p) {
                    Ok(ds) => {
                        for d in ds {
                            println!("{}", json!({"signature": d.sig, "what": d.what, "text": Printer::program(&p).out, "prog": json_block(&p)}));
                        }
                    }
                    Err(e) => println!("{}", json!({"harness_error": e})),
                }
            } else {
                let text: String = serde_json::from_str(&args.str("text-json", "\"\"")).unwrap();
                let (_fid, obs) = observe(&mut ws, &text);
                println!("{}", json!({"text": text, "uses": obs.uses.iter().map(|(p, t, r)| json!([p, t, r])).collect::<Vec<_>>(), "find_decl": obs.find_decl, "tree": obs.tree, "errors": obs.parse_errors}));
            }
        }
        _ => {
            eprintln!("usage: c13 corr|search|one");
            std::process::exit(2);
        }
    }
}
