//! C17 harness: rendered types read back as the same type.
//!   c17 corr   --seed S --n N   -> JSON lines: per generated annotation: the analyzer's type, its Documentation-level
//!                                  rendering and the type read back from that rendering (for the Coq model to check)
//!   c17 search --seed S --n N   -> JSON lines: violations of "render -> ---@type <rendered> -> same type"
//!                                  (+ a final {"summary":…})
//!   c17 one    --text T         -> replay one annotation text
//!   c17 parse  --text T         -> only the analyzer's type of one annotation (probe)
use std::collections::{BTreeMap, HashSet};

use emmylua_code_analysis::{
    AsyncState, LuaArrayLen, LuaMemberKey, LuaType, LuaUnionType, RenderLevel, VirtualWorkspace, humanize_type,
};
use serde_json::{Value, json};
use vh_common::{Args, Rng, guarded};

// ---------------------------------------------------------------------------------------------
// environment: the classes / aliases / enums the generated annotations refer to
// ---------------------------------------------------------------------------------------------

const PRELUDE: &str = r#"
---@class Cls0
---@class Cls1
---@class ns.Cls2
---@class ClsF
---@field a integer
---@field b string?
---@alias AliS string
---@alias AliU 'x'|'y'
---@alias AliC Cls0
---@enum Enm0
local Enm0 = { A = 1, B = 2 }
---@enum EnmE
"#;

/// (name, kind, has members) — kind: class | alias | enum
const ENV: &[(&str, &str, bool)] = &[
    ("Cls0", "class", false),
    ("Cls1", "class", false),
    ("ns.Cls2", "class", false),
    ("ClsF", "class", true),
    ("AliS", "alias", false),
    ("AliU", "alias", false),
    ("AliC", "alias", false),
    ("Enm0", "enum", true),
    ("EnmE", "enum", false),
];

struct Ws {
    ws: VirtualWorkspace,
    used: usize,
}

impl Ws {
    fn new() -> Ws {
        let mut ws = VirtualWorkspace::new();
        ws.def(PRELUDE);
        Ws { ws, used: 0 }
    }
    /// the analyzer's type of `---@type <text>` (None when the analyzer panicked)
    fn ty(&mut self, text: &str) -> Option<LuaType> {
        if self.used >= 400 {
            *self = Ws::new();
        }
        self.used += 1;
        let ws = &mut self.ws;
        guarded(|| ws.ty(text)).ok()
    }
    fn render(&self, t: &LuaType) -> String {
        let db = self.ws.analysis.compilation.get_db();
        humanize_type(db, t, RenderLevel::Documentation)
    }
}

// ---------------------------------------------------------------------------------------------
// structural export of a LuaType
// ---------------------------------------------------------------------------------------------

fn prim_name(t: &LuaType) -> Option<&'static str> {
    Some(match t {
        LuaType::Unknown => "unknown",
        LuaType::Any => "any",
        LuaType::Nil => "nil",
        LuaType::Table => "table",
        LuaType::Userdata => "userdata",
        LuaType::Function => "function",
        LuaType::Thread => "thread",
        LuaType::Boolean => "boolean",
        LuaType::String => "string",
        LuaType::Integer => "integer",
        LuaType::Number => "number",
        LuaType::Io => "io",
        LuaType::SelfInfer => "self",
        LuaType::Global => "global",
        LuaType::Never => "never",
        _ => return None,
    })
}

fn cps(s: &str) -> Value {
    Value::Array(s.chars().map(|c| json!(c as u32)).collect())
}

/// structural JSON of a type; constructs outside the modelled sub-grammar become {"k":"other","d":<debug>}
fn ty_json(t: &LuaType) -> Value {
    if let Some(p) = prim_name(t) {
        return json!({"k": "prim", "p": p});
    }
    match t {
        LuaType::DocStringConst(s) => json!({"k": "str", "s": cps(s)}),
        LuaType::DocIntegerConst(i) => json!({"k": "int", "i": i.to_string()}),
        LuaType::DocBooleanConst(b) => json!({"k": "bool", "b": b}),
        LuaType::Ref(id) => json!({"k": "ref", "n": cps(id.get_name())}),
        LuaType::TableConst(_) => json!({"k": "tableconst"}),
        LuaType::Array(a) => match a.get_len() {
            LuaArrayLen::None => json!({"k": "array", "t": ty_json(a.get_base())}),
            LuaArrayLen::Max(_) => json!({"k": "other", "d": "array-with-len"}),
        },
        LuaType::TableGeneric(ps) => json!({"k": "tgen", "ps": ps.iter().map(ty_json).collect::<Vec<_>>()}),
        LuaType::Tuple(tp) => json!({"k": "tuple", "ts": tp.get_types().iter().map(ty_json).collect::<Vec<_>>()}),
        LuaType::Object(o) => {
            if !o.get_index_access().is_empty() {
                return json!({"k": "other", "d": "object-with-index-access"});
            }
            let mut fs: Vec<(&LuaMemberKey, &LuaType)> = o.get_fields().iter().collect();
            fs.sort_by(|a, b| a.0.cmp(b.0));
            let mut out = Vec::new();
            for (k, v) in fs {
                let kj = match k {
                    LuaMemberKey::Integer(i) => json!({"ki": i.to_string()}),
                    LuaMemberKey::Name(s) => json!({"kn": cps(s)}),
                    _ => return json!({"k": "other", "d": "object-key"}),
                };
                out.push(json!([kj, ty_json(v)]));
            }
            json!({"k": "object", "fs": out})
        }
        LuaType::DocFunction(f) => {
            if f.get_async_state() != AsyncState::None || f.is_colon_define() || !f.get_generic_params().is_empty() {
                return json!({"k": "other", "d": "function-async-colon-generic"});
            }
            let ps: Vec<Value> = f
                .get_params()
                .iter()
                .map(|(n, t)| json!([cps(n), t.as_ref().map(ty_json)]))
                .collect();
            json!({"k": "fun", "ps": ps, "ret": ty_json(f.get_ret()), "variadic": f.is_variadic()})
        }
        LuaType::Union(u) => {
            let kind = match u.as_ref() {
                LuaUnionType::Basic(_) => "basic",
                LuaUnionType::Nullable(_) => "nullable",
                LuaUnionType::Multi(_) => "multi",
            };
            json!({"k": "union", "u": kind, "ms": u.into_vec().iter().map(ty_json).collect::<Vec<_>>()})
        }
        other => {
            let d = format!("{:?}", other);
            json!({"k": "other", "d": d.chars().take(60).collect::<String>()})
        }
    }
}


// ---------------------------------------------------------------------------------------------
// generator of annotation texts in the sub-grammar
// ---------------------------------------------------------------------------------------------

#[derive(Clone, Debug)]
enum G {
    Prim(&'static str),
    Str(String),
    Int(i64),
    Bool(bool),
    Ref(&'static str),
    Array(Box<G>),
    Nullable(Box<G>),
    Union(Vec<G>),
    Map(Vec<G>),
    Rec(Vec<(GKey, bool, G)>),
    Fun(Vec<(String, bool, Option<G>)>),
}

#[derive(Clone, Debug)]
enum GKey {
    Name(String),
    Int(i64),
    Quoted(String),
}

const PRIMS: &[&str] = &[
    "string", "integer", "number", "boolean", "table", "function", "thread", "userdata", "nil", "any", "unknown", "never",
    "self", "io", "global",
];
const COMMON_PRIMS: &[&str] = &["string", "integer", "number", "boolean", "table", "function", "thread", "userdata"];
const REFS: &[&str] = &["Cls0", "Cls1", "ns.Cls2", "ClsF", "AliS", "AliU", "AliC", "Enm0", "EnmE"];
const PLAIN_STRS: &[&str] = &["a", "b", "x y", "", "in", "it's", "0", "--", "]]", "a|b", "é", "中", "😀", "(", "?", "[]", " "];
const ESC_STRS: &[&str] = &["a\"b", "\"", "a\\b", "\\", "tab\there", "nl\nx", "cr\rx", "\u{1b}[0m", "\u{1b}1", "\u{7}", "\u{7f}", "\u{85}x", "\\n", "a\\\"", "\\\\"];
const KEY_NAMES: &[&str] = &["a", "b", "x", "name", "_priv", "k1", "A_b"];
const ODD_KEYS: &[&str] = &[
    "x y", "in", "readonly", "true", "false", "or", "and", "as", "else", "extends", "keyof", "1a", "", "a.b", "a-b", "é", "a b c",
    "fun", "table", "nil", "a\"b", "a'b", "a\\b", "?", "a:b", "]", "\t", "中文",
];
const PARAM_NAMES: &[&str] = &["a", "b", "x", "cb", "self", "_", "n1"];

fn gen_leaf(rng: &mut Rng, mode: usize) -> G {
    match rng.below(12) {
        0..=3 => G::Prim(*rng.pick(COMMON_PRIMS)),
        4 => {
            if mode == 3 {
                G::Prim(*rng.pick(PRIMS))
            } else {
                G::Prim(*rng.pick(COMMON_PRIMS))
            }
        }
        5 | 6 => G::Ref(*rng.pick(REFS)),
        7 | 8 => {
            if mode == 2 && rng.chance(1, 2) {
                G::Str(rng.pick(ESC_STRS).to_string())
            } else {
                G::Str(rng.pick(PLAIN_STRS).to_string())
            }
        }
        9 | 10 => {
            let v: i64 = match rng.below(8) {
                0 => 0,
                1 => -1,
                2 => i64::MAX,
                3 => -(i64::MAX),
                4 => -(rng.below(1000) as i64),
                _ => rng.below(100) as i64,
            };
            G::Int(v)
        }
        _ => G::Bool(rng.chance(1, 2)),
    }
}

fn gen_key(rng: &mut Rng, mode: usize) -> GKey {
    let odd = mode == 1 || mode == 2;
    match rng.below(10) {
        0 | 1 => GKey::Int(rng.below(5) as i64),
        2 if odd => GKey::Quoted(rng.pick(ODD_KEYS).to_string()),
        3 if odd => GKey::Quoted(rng.pick(ODD_KEYS).to_string()),
        4 if odd => GKey::Quoted(rng.pick(KEY_NAMES).to_string()),
        _ => GKey::Name(rng.pick(KEY_NAMES).to_string()),
    }
}

/// mode: 0 plain, 1 odd record keys, 2 escapes in literals/keys, 3 all primitives incl. any/unknown/never,
/// 4 array-heavy (nested arrays of unions / optionals / functions), 5 wide (many members)
fn gen_g(rng: &mut Rng, depth: usize, mode: usize) -> G {
    if depth == 0 || rng.chance(1, 4) {
        return gen_leaf(rng, mode);
    }
    let pick = if mode == 4 { rng.below(7) } else { rng.below(12) };
    match pick {
        0 | 1 | 7 => G::Array(Box::new(gen_g(rng, depth - 1, mode))),
        2 | 8 => G::Nullable(Box::new(gen_g(rng, depth - 1, mode))),
        3 | 4 | 9 => {
            let n = if mode == 5 { rng.range(2, 9) } else { rng.range(2, 4) };
            G::Union((0..n).map(|_| gen_g(rng, depth - 1, mode)).collect())
        }
        5 => {
            let n = if rng.chance(1, 8) { rng.range(1, 3) } else { 2 };
            G::Map((0..n).map(|_| gen_g(rng, depth - 1, mode)).collect())
        }
        6 | 10 => {
            let n = rng.below(if mode == 5 { 10 } else { 4 });
            G::Fun(
                (0..n)
                    .map(|i| {
                        let name = format!("{}{}", rng.pick(PARAM_NAMES), i);
                        let ty = if rng.chance(1, 6) { None } else { Some(gen_g(rng, depth - 1, mode)) };
                        (name, rng.chance(1, 5), ty)
                    })
                    .collect(),
            )
        }
        _ => {
            let n = rng.below(if mode == 5 { 10 } else { 4 });
            G::Rec((0..n).map(|_| (gen_key(rng, mode), rng.chance(1, 4), gen_g(rng, depth - 1, mode))).collect())
        }
    }
}

fn quote_lit(s: &str) -> Option<String> {
    // the annotation syntax has no escapes of its own for quotes: choose a delimiter that does not occur;
    // backslashes and control characters are written as Lua escapes
    let q = if !s.contains('"') {
        '"'
    } else if !s.contains('\'') {
        '\''
    } else {
        return None;
    };
    let mut o = String::new();
    o.push(q);
    for c in s.chars() {
        match c {
            '\\' => o.push_str("\\\\"),
            '\n' => o.push_str("\\n"),
            '\r' => o.push_str("\\r"),
            '\t' => o.push_str("\\t"),
            c if (c as u32) < 32 || c as u32 == 127 => o.push_str(&format!("\\x{:02X}", c as u32)),
            c => o.push(c),
        }
    }
    o.push(q);
    Some(o)
}

fn is_ident(s: &str) -> bool {
    let mut cs = s.chars();
    match cs.next() {
        Some(c) if c.is_ascii_alphabetic() || c == '_' => cs.all(|c| c.is_ascii_alphanumeric() || c == '_'),
        _ => false,
    }
}

/// annotation text of a generated type, parenthesised where the grammar needs it; `ws`: sprinkle blanks
fn g_text(g: &G, rng: &mut Rng, ws: bool) -> String {
    let sp = |rng: &mut Rng| if ws && rng.chance(1, 3) { " " } else { "" };
    match g {
        G::Prim(p) => p.to_string(),
        G::Str(s) => quote_lit(s).unwrap_or_else(|| "\"q\"".to_string()),
        G::Int(i) => i.to_string(),
        G::Bool(b) => b.to_string(),
        G::Ref(r) => r.to_string(),
        G::Array(b) => {
            let inner = g_text(b, rng, ws);
            let needs = matches!(**b, G::Nullable(_) | G::Union(_) | G::Fun(_)) || matches!(**b, G::Int(i) if i < 0);
            if needs || (ws && rng.chance(1, 10)) { format!("({}{}{})[]", sp(rng), inner, sp(rng)) } else { format!("{}[]", inner) }
        }
        G::Nullable(b) => {
            let inner = g_text(b, rng, ws);
            let needs = matches!(**b, G::Union(_) | G::Fun(_) | G::Nullable(_));
            if needs { format!("({})?", inner) } else { format!("{}?", inner) }
        }
        G::Union(ms) => {
            let parts: Vec<String> = ms
                .iter()
                .map(|m| {
                    let t = g_text(m, rng, ws);
                    if matches!(m, G::Nullable(_) | G::Union(_) | G::Fun(_)) { format!("({})", t) } else { t }
                })
                .collect();
            let sep = if ws && rng.chance(1, 2) { " | " } else { "|" };
            parts.join(sep)
        }
        G::Map(ps) => {
            let parts: Vec<String> = ps.iter().map(|m| g_text(m, rng, ws)).collect();
            format!("table<{}{}>", sp(rng), parts.join(if ws { ", " } else { "," }))
        }
        G::Rec(fs) => {
            let parts: Vec<String> = fs
                .iter()
                .map(|(k, opt, t)| {
                    let ks = match k {
                        GKey::Name(n) => n.clone(),
                        GKey::Int(i) => format!("[{}]", i),
                        GKey::Quoted(s) => match quote_lit(s) {
                            Some(q) => format!("[{}]", q),
                            None => "qq".to_string(),
                        },
                    };
                    format!("{}{}: {}", ks, if *opt { "?" } else { "" }, g_text(t, rng, ws))
                })
                .collect();
            if parts.is_empty() { "{}".to_string() } else { format!("{{ {} }}", parts.join(", ")) }
        }
        G::Fun(ps) => {
            let parts: Vec<String> = ps
                .iter()
                .map(|(n, opt, t)| match t {
                    Some(t) => format!("{}{}: {}", n, if *opt { "?" } else { "" }, g_text(t, rng, ws)),
                    None => format!("{}{}", n, if *opt { "?" } else { "" }),
                })
                .collect();
            format!("fun({})", parts.join(", "))
        }
    }
}

/// hand-written witnesses and past failures (always first)
const FIXED: &[&str] = &[
    "string",
    "(string?)[]",
    "{['x y']: string}",
    "(-1)[]",
    "(string|integer)?[]",
    "((string|integer)?)[]",
    "(fun(a: string))?[]",
    "((fun(a: string))?)[]",
    "fun(a: string)[]",
    "(fun(a: string)|nil)[][]",
    "'a\"b'",
    "{['a\"b']: integer}",
    "any|nil",
    "never|nil",
    "unknown|string",
    "table",
    "table?",
    "AliU?",
    "AliS?",
    "AliC?",
    "{ a: string, ['in']: integer, ['readonly']: boolean }",
    "{ ['readonly']: boolean }",
    "{ ['1a']: boolean, [''] : string }",
    "{a?: string, [1]: integer}",
    "{}",
    "table<string, integer?>",
    "table<string>",
    "1|2|true|\"x\"",
    "integer|1",
    "boolean|true",
    "string|boolean|Cls0",
    "nil|string|Cls0",
    "9223372036854775807",
    "-9223372036854775807",
    "'a\\\\b'",
    "'a\\nb'",
    "\"\\27[0m\"",
    "\"\\271\"",
    "{a: string}|{a: string}",
    "table<string,integer>|table<string,integer>",
    "string[][][][][][][][][][][]",
    "string[][][][][][][][][][][][]",
    "((((string|integer)[]|boolean)[]|number)[]|thread)[]",
    "{ a: { b: { c: { d: string } } } }",
    "{ a: { b: { c: { d: { e: string } } } } }",
    "string|integer|number|boolean|table|thread|userdata",
    "(string|integer|number|boolean|table|thread|userdata)[]",
    "ClsF",
    "ClsF[]",
    "Enm0",
    "ns.Cls2?",
    "fun(a: string, b?: integer)",
    "fun()",
    "(fun())?",
    "function?",
    "fun(cb: fun(x: integer), y)",
    "[string, integer]",
    "fun(): string",
    "string  |   integer",
    "( string ) [ ]",
];

// ---------------------------------------------------------------------------------------------
// the property oracle (implementation only)
// ---------------------------------------------------------------------------------------------

/// canonical form for "same type modulo union member order": union members sorted by their canonical JSON text
fn canon(v: &Value) -> Value {
    match v {
        Value::Object(m) => {
            let mut o = serde_json::Map::new();
            for (k, x) in m {
                if k == "u" {
                    continue; // the variant follows from the members
                }
                o.insert(k.clone(), canon(x));
            }
            if m.get("k").and_then(|k| k.as_str()) == Some("union") {
                if let Some(Value::Array(ms)) = o.get("ms").cloned() {
                    let mut ss: Vec<(String, Value)> = ms.into_iter().map(|x| (x.to_string(), x)).collect();
                    ss.sort_by(|a, b| a.0.cmp(&b.0));
                    o.insert("ms".into(), Value::Array(ss.into_iter().map(|x| x.1).collect()));
                }
            }
            Value::Object(o)
        }
        Value::Array(a) => Value::Array(a.iter().map(canon).collect()),
        _ => v.clone(),
    }
}

fn has_kind(v: &Value, pred: &dyn Fn(&serde_json::Map<String, Value>) -> bool) -> bool {
    match v {
        Value::Object(m) => pred(m) || m.values().any(|x| has_kind(x, pred)),
        Value::Array(a) => a.iter().any(|x| has_kind(x, pred)),
        _ => false,
    }
}

fn kind_of(m: &serde_json::Map<String, Value>) -> &str {
    m.get("k").and_then(|k| k.as_str()).unwrap_or("")
}

fn next_level(l: usize) -> usize {
    (l + 1).min(4)
}
fn max_items(l: usize) -> usize {
    [500, 8, 4, 2, 2][l]
}
fn max_union_items(l: usize) -> usize {
    [500, 6, 4, 2, 2][l]
}

/// the renderer's size limits (level = 0 Documentation .. 4 Minimal; depth = nesting of write_type)
fn fits(t: &LuaType, lvl: usize, depth: usize) -> bool {
    if depth >= 12 {
        return false;
    }
    let nl = next_level(lvl);
    match t {
        LuaType::Array(a) => fits(a.get_base(), nl, depth + 1),
        LuaType::TableGeneric(ps) => lvl < 4 && ps.len() <= max_items(lvl) && ps.iter().all(|p| fits(p, nl, depth + 1)),
        LuaType::Object(o) => {
            lvl < 4
                && o.get_fields().len() <= max_items(lvl)
                && o.get_fields().values().all(|p| fits(p, nl, depth + 1))
                && o.get_index_access().iter().all(|(k, v)| fits(k, nl, depth + 1) && fits(v, nl, depth + 1))
        }
        LuaType::DocFunction(f) => {
            lvl < 4 && f.get_params().iter().all(|(_, p)| p.as_ref().map(|p| fits(p, nl, depth + 1)).unwrap_or(true))
        }
        LuaType::Union(u) => {
            let ms = u.into_vec();
            let nn = ms.iter().filter(|m| !m.is_nil()).count();
            nn <= max_union_items(lvl) && ms.iter().all(|m| fits(m, nl, depth + 1))
        }
        _ => true,
    }
}

#[derive(PartialEq, Debug)]
enum Verdict {
    Same,
    Differs,
    /// outside the property: display-only syntax, truncated, invalid annotation
    Skip(&'static str),
}

fn display_only(j: &Value) -> Option<&'static str> {
    if has_kind(j, &|m| kind_of(m) == "tuple") {
        return Some("tuple");
    }
    if has_kind(j, &|m| kind_of(m) == "fun" && m.get("ret") != Some(&json!({"k": "prim", "p": "nil"}))) {
        return Some("function-with-return");
    }
    if has_kind(j, &|m| kind_of(m) == "fun" && m.get("variadic") == Some(&json!(true))) {
        return Some("function-variadic");
    }
    if has_kind(j, &|m| kind_of(m) == "other" || kind_of(m) == "tableconst") {
        return Some("outside-sub-grammar");
    }
    None
}

/// render -> read back -> compare, for one type value
fn roundtrip(ws: &mut Ws, t0: &LuaType) -> (Verdict, String, Option<LuaType>) {
    let j0 = ty_json(t0);
    if let Some(why) = display_only(&j0) {
        return (Verdict::Skip(why), String::new(), None);
    }
    if matches!(t0, LuaType::Table) {
        return (Verdict::Skip("top-level-table"), String::new(), None);
    }
    if !fits(t0, 0, 0) {
        return (Verdict::Skip("over-size-limit"), String::new(), None);
    }
    let s = ws.render(t0);
    if s.contains('\n') {
        return (Verdict::Skip("expanded-class-view"), s, None);
    }
    let t1 = ws.ty(&s);
    let same = match &t1 {
        Some(t1) => canon(&ty_json(t1)) == canon(&j0),
        None => false,
    };
    (if same { Verdict::Same } else { Verdict::Differs }, s, t1)
}

fn subterms<'a>(t: &'a LuaType, out: &mut Vec<LuaType>) {
    out.push(t.clone());
    match t {
        LuaType::Array(a) => subterms(a.get_base(), out),
        LuaType::TableGeneric(ps) => ps.iter().for_each(|p| subterms(p, out)),
        LuaType::Object(o) => {
            let mut fs: Vec<_> = o.get_fields().iter().collect();
            fs.sort_by(|a, b| a.0.cmp(b.0));
            fs.into_iter().for_each(|(_, p)| subterms(p, out))
        }
        LuaType::DocFunction(f) => f.get_params().iter().for_each(|(_, p)| {
            if let Some(p) = p {
                subterms(p, out)
            }
        }),
        LuaType::Union(u) => u.into_vec().iter().for_each(|p| subterms(p, out)),
        _ => {}
    }
}

fn json_size(v: &Value) -> usize {
    match v {
        Value::Object(m) => 1 + m.values().map(json_size).sum::<usize>(),
        Value::Array(a) => a.iter().map(json_size).sum::<usize>(),
        _ => 0,
    }
}

fn short_kind(t: &LuaType) -> String {
    match t {
        LuaType::Union(u) => {
            let ms = u.into_vec();
            if ms.iter().any(|m| m.is_nil()) { "optional".into() } else { "union".into() }
        }
        LuaType::DocIntegerConst(i) => if *i < 0 { "negative-integer".into() } else { "integer-literal".into() },
        LuaType::DocStringConst(_) => "string-literal".into(),
        LuaType::DocBooleanConst(_) => "boolean-literal".into(),
        LuaType::DocFunction(_) => "function".into(),
        LuaType::Array(_) => "array".into(),
        LuaType::Object(_) => "record".into(),
        LuaType::TableGeneric(_) => "map".into(),
        LuaType::Ref(_) => "reference".into(),
        t => prim_name(t).map(|p| format!("primitive-{}", p)).unwrap_or_else(|| "other".into()),
    }
}

fn key_class(s: &str) -> &'static str {
    if s.contains('"') {
        "with-double-quote"
    } else if s.chars().any(|c| c == '\\' || c.is_control()) {
        "with-escape"
    } else if matches!(s, "true" | "false" | "keyof" | "extends" | "as" | "in" | "and" | "or" | "else" | "readonly") {
        "doc-keyword"
    } else if !is_ident(s) {
        "not-an-identifier"
    } else {
        "identifier"
    }
}

/// signature of a failing case: computed from the smallest sub-type that fails on its own
fn signature(ws: &mut Ws, t0: &LuaType) -> (String, LuaType) {
    let mut subs = Vec::new();
    subterms(t0, &mut subs);
    subs.sort_by_key(|t| json_size(&ty_json(t)));
    let mut culprit = t0.clone();
    for s in subs {
        if roundtrip(ws, &s).0 == Verdict::Differs {
            culprit = s;
            break;
        }
    }
    // the two recorded union classes come first: they do not depend on what the members contain
    if let LuaType::Union(u) = &culprit {
        let ms = u.into_vec();
        let js: Vec<String> = ms.iter().map(|m| canon(&ty_json(m)).to_string()).collect();
        let mut d = js.clone();
        d.sort();
        d.dedup();
        let non_nil: Vec<&LuaType> = ms.iter().filter(|m| !m.is_nil()).collect();
        if non_nil.len() == 1 && matches!(non_nil[0], LuaType::Any | LuaType::Unknown | LuaType::Never) {
            return ("union-with-any-unknown-never".to_string(), culprit);
        }
        if d.len() < js.len() {
            return ("union-with-duplicate-members".to_string(), culprit);
        }
    }
    // strings (literals and record keys) whose escaping can derail the lexer anywhere after them
    let mut strs: Vec<String> = Vec::new();
    {
        let mut subs = Vec::new();
        subterms(&culprit, &mut subs);
        for t in &subs {
            match t {
                LuaType::DocStringConst(s) => strs.push(s.to_string()),
                LuaType::Object(o) => {
                    for k in o.get_fields().keys() {
                        if let LuaMemberKey::Name(n) = k {
                            strs.push(n.to_string());
                        }
                    }
                }
                _ => {}
            }
        }
    }
    if strs.iter().any(|s| s.contains('"')) {
        return ("string-with-double-quote".to_string(), culprit);
    }
    if strs.iter().any(|s| {
        let cs: Vec<char> = s.chars().collect();
        cs.windows(2).any(|w| w[0] == '\u{1b}' && w[1].is_ascii_digit())
    }) {
        return ("string-with-esc-before-digit".to_string(), culprit);
    }
    let sig = match &culprit {
        LuaType::DocStringConst(s) => {
            if s.contains('"') {
                "string-literal-with-double-quote".to_string()
            } else if s.chars().any(|c| c == '\\' || c.is_control()) {
                "string-literal-with-escape".to_string()
            } else {
                "string-literal".to_string()
            }
        }
        LuaType::Array(a) => format!("array-of-{}", short_kind(a.get_base())),
        LuaType::Object(o) => {
            let mut classes: Vec<&str> = o
                .get_fields()
                .keys()
                .map(|k| match k {
                    LuaMemberKey::Name(s) => key_class(s),
                    LuaMemberKey::Integer(i) => if *i < 0 { "negative-integer" } else { "integer" },
                    _ => "other",
                })
                .filter(|c| *c != "identifier" && *c != "integer")
                .collect();
            classes.sort();
            classes.dedup();
            if classes.is_empty() { "record".to_string() } else { format!("record-key-{}", classes.join("+")) }
        }
        LuaType::Union(u) => {
            let ms = u.into_vec();
            let js: Vec<String> = ms.iter().map(|m| canon(&ty_json(m)).to_string()).collect();
            let mut d = js.clone();
            d.sort();
            d.dedup();
            if ms.iter().any(|m| matches!(m, LuaType::Any | LuaType::Unknown | LuaType::Never)) {
                "union-with-any-unknown-never".to_string()
            } else if d.len() < js.len() {
                "union-with-duplicate-members".to_string()
            } else {
                let mut ks: Vec<String> = ms.iter().map(short_kind).collect();
                ks.sort();
                ks.dedup();
                format!("union-of-{}", ks.join("+"))
            }
        }
        other => short_kind(other),
    };
    (sig, culprit)
}

fn gen_case(rng: &mut Rng) -> (String, usize) {
    let mode = rng.below(6);
    let depth = if mode == 4 { rng.range(2, 5) } else { rng.range(1, 4) };
    let g = gen_g(rng, depth, mode);
    let ws = rng.chance(1, 5);
    let mut r2 = rng.fork();
    (g_text(&g, &mut r2, ws), mode)
}

fn main() {
    let args = Args::parse();
    let seed = args.u64("seed", 1);
    let n = args.usize("n", 100);
    let mut rng = Rng::new(seed ^ 0xC17);
    // corpus: hand-written witnesses and past failures, run before everything else
    let corpus: Vec<String> = std::fs::read_to_string(args.str("corpus", "/verif/corpus/C17/witnesses.json"))
        .ok()
        .and_then(|s| serde_json::from_str::<Vec<Value>>(&s).ok())
        .map(|v| v.iter().filter_map(|e| e["text"].as_str().map(|s| s.to_string())).collect())
        .unwrap_or_default();
    match args.cmd.as_str() {
        "corr" => {
            let mut ws = Ws::new();
            let texts: Vec<String> = corpus
                .iter()
                .cloned()
                .chain(FIXED.iter().map(|s| s.to_string()))
                .chain((0..n).map(|_| gen_case(&mut rng).0))
                .collect();
            for text in texts {
                let Some(t0) = ws.ty(&text) else {
                    println!("{}", json!({"text": cps(&text), "panic": true}));
                    continue;
                };
                let r = ws.render(&t0);
                let t1 = if r.contains('\n') { None } else { ws.ty(&r) };
                println!(
                    "{}",
                    json!({"text": cps(&text), "t0": ty_json(&t0), "r": cps(&r), "t1": t1.as_ref().map(ty_json),
                           "fits": fits(&t0, 0, 0)})
                );
            }
        }
        "search" => {
            let mut ws = Ws::new();
            let mut out: Vec<Value> = Vec::new();
            let mut distinct = HashSet::new();
            let mut skips: BTreeMap<String, usize> = BTreeMap::new();
            let mut modes = [0usize; 6];
            let mut kinds: BTreeMap<String, usize> = BTreeMap::new();
            let (mut cases, mut checked, mut panics) = (0usize, 0usize, 0usize);
            let texts: Vec<(String, usize)> = corpus
                .iter()
                .map(|s| (s.clone(), 0))
                .chain(FIXED.iter().map(|s| (s.to_string(), 0)))
                .chain((0..n).map(|_| gen_case(&mut rng)))
                .collect();
            for (text, mode) in texts {
                cases += 1;
                modes[mode] += 1;
                let Some(t0) = ws.ty(&text) else {
                    panics += 1;
                    out.push(json!({"signature": "analyzer-panic", "what": "the analyzer panicked on the annotation", "text": text}));
                    continue;
                };
                if matches!(t0, LuaType::Unknown) {
                    *skips.entry("annotation-is-unknown".into()).or_default() += 1;
                    continue;
                }
                let (v, s, t1) = roundtrip(&mut ws, &t0);
                match v {
                    Verdict::Skip(why) => {
                        *skips.entry(why.into()).or_default() += 1;
                    }
                    Verdict::Same => {
                        checked += 1;
                        let j = ty_json(&t0);
                        *kinds.entry(short_kind(&t0)).or_default() += 1;
                        if json_size(&j) > 1 {
                            distinct.insert(canon(&j).to_string());
                        }
                    }
                    Verdict::Differs => {
                        checked += 1;
                        distinct.insert(canon(&ty_json(&t0)).to_string());
                        let (sig, culprit) = signature(&mut ws, &t0);
                        let cs = ws.render(&culprit);
                        let ct1 = ws.ty(&cs);
                        out.push(json!({
                            "signature": sig,
                            "what": format!("type {:?} renders as {:?}, which reads back as a different type (smallest failing part renders as {:?})", text, s, cs),
                            "text": text, "rendered": s, "t0": ty_json(&t0), "t1": t1.as_ref().map(ty_json),
                            "culprit": ty_json(&culprit), "culprit_rendered": cs, "culprit_back": ct1.as_ref().map(ty_json),
                        }));
                    }
                }
            }
            for v in &out {
                println!("{}", v);
            }
            println!(
                "{}",
                json!({"summary": {"cases": cases, "checked": checked, "distinct_nontrivial": distinct.len(), "panics": panics,
                                   "skipped": skips, "by_mode": modes, "by_top_kind": kinds, "violations": out.len()}})
            );
        }
        "parse" | "one" => {
            let text = args.str("text", "string");
            let mut ws = Ws::new();
            let t0 = ws.ty(&text);
            match t0 {
                None => println!("{}", json!({"text": text, "panic": true})),
                Some(t0) => {
                    let (v, s, t1) = roundtrip(&mut ws, &t0);
                    let sig = if v == Verdict::Differs { Some(signature(&mut ws, &t0).0) } else { None };
                    println!(
                        "{}",
                        json!({"text": text, "t0": ty_json(&t0), "rendered": s, "t1": t1.as_ref().map(ty_json),
                               "verdict": format!("{:?}", v), "signature": sig})
                    );
                }
            }
        }
        _ => {
            let _ = ENV;
            eprintln!("usage: c17 corr|search|one|parse");
            std::process::exit(2);
        }
    }
}
