//! C17 harness: rendered types read back as the same type.
//!   c17 corr   --seed S --n N   -> JSON lines: per generated annotation: the analyzer's type, its Documentation-level
//!                                  rendering and the type read back from that rendering (for the Coq model to check)
//!   c17 search --seed S --n N   -> JSON lines: violations of "render -> ---@type <rendered> -> same type"
//!                                  (+ a final {"summary":…})
//!   c17 one    --text T         -> replay one annotation text
//!   c17 parse  --text T         -> only the analyzer's type of one annotation (probe)
use std::collections::{BTreeMap, HashSet};

use emmylua_code_analysis::{
    AsyncState, LuaArrayLen, LuaMemberKey, LuaType, LuaUnionType, RenderLevel, VirtualWorkspace, humanize_type,
};
use serde_json::{Value, json};
use vh_common::{Args, Rng, guarded};

// ---------------------------------------------------------------------------------------------
// environment: the classes / aliases / enums the generated annotations refer to
// ---------------------------------------------------------------------------------------------

const PRELUDE: &str = r#"
---@class Cls0
---@class Cls1
---@class ns.Cls2
---@class ClsF
---@field a integer
---@field b string?
---@alias AliS string
---@alias AliU 'x'|'y'
---@alias AliC Cls0
---@enum Enm0
local Enm0 = { A = 1, B = 2 }
---@enum EnmE
"#;

/// (name, kind, has members) — kind: class | alias | enum
const ENV: &[(&str, &str, bool)] = &[
    ("Cls0", "class", false),
    ("Cls1", "class", false),
    ("ns.Cls2", "class", false),
    ("ClsF", "class", true),
    ("AliS", "alias", false),
    ("AliU", "alias", false),
    ("AliC", "alias", false),
    ("Enm0", "enum", true),
    ("EnmE", "enum", false),
];

struct Ws {
    ws: VirtualWorkspace,
    used: usize,
}

impl Ws {
    fn new() -> Ws {
        let mut ws = VirtualWorkspace::new();
        ws.def(PRELUDE);
        Ws { ws, used: 0 }
    }
    /// the analyzer's type of `---@type <text>` (None when the analyzer panicked)
    fn ty(&mut self, text: &str) -> Option<LuaType> {
        if self.used >= 400 {
            *self = Ws::new();
        }
        self.used += 1;
        let ws = &mut self.ws;
        guarded(|| ws.ty(text)).ok()
    }
    fn render(&self, t: &LuaType) -> String {
        let db = self.ws.analysis.compilation.get_db();
        humanize_type(db, t, RenderLevel::Documentation)
    }
}

// ---------------------------------------------------------------------------------------------
// structural export of a LuaType
// ---------------------------------------------------------------------------------------------

fn prim_name(t: &LuaType) -> Option<&'static str> {
    Some(match t {
        LuaType::Unknown => "unknown",
        LuaType::Any => "any",
        LuaType::Nil => "nil",
        LuaType::Table => "table",
        LuaType::Userdata => "userdata",
        LuaType::Function => "function",
        LuaType::Thread => "thread",
        LuaType::Boolean => "boolean",
        LuaType::String => "string",
        LuaType::Integer => "integer",
        LuaType::Number => "number",
        LuaType::Io => "io",
        LuaType::SelfInfer => "self",
        LuaType::Global => "global",
        LuaType::Never => "never",
        _ => return None,
    })
}

fn cps(s: &str) -> Value {
    Value::Array(s.chars().map(|c| json!(c as u32)).collect())
}

/// structural JSON of a type; constructs outside the modelled sub-grammar become {"k":"other","d":<debug>}
fn ty_json(t: &LuaType) -> Value {
    if let Some(p) = prim_name(t) {
        return json!({"k": "prim", "p": p});
    }
    match t {
        LuaType::DocStringConst(s) => json!({"k": "str", "s": cps(s)}),
        LuaType::DocIntegerConst(i) => json!({"k": "int", "i": i.to_string()}),
        LuaType::DocBooleanConst(b) => json!({"k": "bool", "b": b}),
        LuaType::Ref(id) => json!({"k": "ref", "n": cps(id.get_name())}),
        LuaType::TableConst(_) => json!({"k": "tableconst"}),
        LuaType::Array(a) => match a.get_len() {
            LuaArrayLen::None => json!({"k": "array", "t": ty_json(a.get_base())}),
            LuaArrayLen::Max(_) => json!({"k": "other", "d": "array-with-len"}),
        },
        LuaType::TableGeneric(ps) => json!({"k": "tgen", "ps": ps.iter().map(ty_json).collect::<Vec<_>>()}),
        LuaType::Tuple(tp) => json!({"k": "tuple", "ts": tp.get_types().iter().map(ty_json).collect::<Vec<_>>()}),
        LuaType::Object(o) => {
            if !o.get_index_access().is_empty() {
                return json!({"k": "other", "d": "object-with-index-access"});
            }
            let mut fs: Vec<(&LuaMemberKey, &LuaType)> = o.get_fields().iter().collect();
            fs.sort_by(|a, b| a.0.cmp(b.0));
            let mut out = Vec::new();
            for (k, v) in fs {
                let kj = match k {
                    LuaMemberKey::Integer(i) => json!({"ki": i.to_string()}),
                    LuaMemberKey::Name(s) => json!({"kn": cps(s)}),
                    _ => return json!({"k": "other", "d": "object-key"}),
                };
                out.push(json!([kj, ty_json(v)]));
            }
            json!({"k": "object", "fs": out})
        }
        LuaType::DocFunction(f) => {
            if f.get_async_state() != AsyncState::None || f.is_colon_define() || !f.get_generic_params().is_empty() {
                return json!({"k": "other", "d": "function-async-colon-generic"});
            }
            let ps: Vec<Value> = f
                .get_params()
                .iter()
                .map(|(n, t)| json!([cps(n), t.as_ref().map(ty_json)]))
                .collect();
            json!({"k": "fun", "ps": ps, "ret": ty_json(f.get_ret()), "variadic": f.is_variadic()})
        }
        LuaType::Union(u) => {
            let kind = match u.as_ref() {
                LuaUnionType::Basic(_) => "basic",
                LuaUnionType::Nullable(_) => "nullable",
                LuaUnionType::Multi(_) => "multi",
            };
            json!({"k": "union", "u": kind, "ms": u.into_vec().iter().map(ty_json).collect::<Vec<_>>()})
        }
        other => {
            let d = format!("{:?}", other);
            json!({"k": "other", "d": d.chars().take(60).collect::<String>()})
        }
    }
}

fn main() {
    let args = Args::parse();
    match args.cmd.as_str() {
        "parse" | "one" => {
            let text = args.str("text", "string");
            let mut ws = Ws::new();
            let t0 = ws.ty(&text);
            match t0 {
                None => println!("{}", json!({"text": text, "panic": true})),
                Some(t0) => {
                    let s = ws.render(&t0);
                    let t1 = ws.ty(&s);
                    let same = t1.as_ref().map(|t| *t == t0);
                    println!(
                        "{}",
                        json!({"text": text, "t0": ty_json(&t0), "rendered": s, "t1": t1.as_ref().map(ty_json), "same": same,
                               "dbg0": format!("{:?}", t0)})
                    );
                }
            }
        }
        _ => {
            let _ = (ENV, BTreeMap::<u8, u8>::new(), HashSet::<u8>::new(), Rng::new(1));
            eprintln!("usage: c17 corr|search|one|parse");
            std::process::exit(2);
        }
    }
}
