//! C22 / C23 harness: LineIndex and LuaDocument conversions.
//!   c22 corr   --seed S --n N --maxlen L   -> JSON lines: implementation observations for the model to check
//!   c22 search --seed S --n N --maxlen L   -> JSON lines: violations of the property oracles (independent of the model)
//!   c22 one    --text-json '"..."'         -> observations of one text (replay)
use emmylua_code_analysis::{Emmyrc, Vfs, VirtualUrlGenerator};
use emmylua_parser::LineIndex;
use rowan::{TextRange, TextSize};
use serde_json::{Value, json};
use vh_common::{Args, Rng, guarded};

const ALPHABET: &[char] = &[
    'a', 'b', 'z', ' ', '\t', '\n', '\n', '\r', '\r', 'é', 'ß', '中', '\u{2028}', '\u{85}', '😀', '𝒳', '-', '0',
];

fn gen_text(rng: &mut Rng, maxlen: usize) -> String {
    let len = rng.below(maxlen + 1);
    let mode = rng.below(10);
    let mut s = String::new();
    for _ in 0..len {
        let c = match mode {
            0 => *rng.pick(&['a', 'b', '\n', ' ']),             // ASCII only, LF
            1 => *rng.pick(&['a', '\r', '\n', 'b']),             // CR / CRLF heavy
            2 => *rng.pick(&['😀', 'a', '\n', 'é']),            // astral heavy
            3 => *rng.pick(&['\n', '\r']),                       // only terminators
            _ => *rng.pick(ALPHABET),
        };
        s.push(c);
    }
    if mode == 5 && rng.chance(1, 2) {
        s.push_str("\r\n");
    }
    s
}

fn is_boundary(s: &str, o: usize) -> bool {
    s.is_char_boundary(o)
}

fn enc_opt_u(x: Result<Option<u64>, String>) -> Value {
    match x {
        Ok(Some(v)) => json!(v),
        Ok(None) => json!("N"),
        Err(_) => json!("P"),
    }
}

/// all implementation observations for one text
fn observe(text: &str) -> Value {
    let li = LineIndex::parse(text);
    let len = text.len();
    let line_count = li.line_count();
    // get_line_col on every boundary offset and a few non-boundaries / out of range
    let mut lc = Vec::new();
    for o in 0..=(len + 2) {
        let r = guarded(|| li.get_line_col(TextSize::from(o as u32), text));
        let v = match r {
            Ok(Some((l, c))) => json!([o, l, c]),
            Ok(None) => json!([o, "N"]),
            Err(_) => json!([o, "P"]),
        };
        lc.push(v);
    }
    // get_offset / get_col_offset_at_line on (line, col) grid
    let mut cols: Vec<usize> = (0..=(len.min(12) + 2)).collect();
    cols.extend_from_slice(&[100, 65535, 4294967295usize]);
    let mut off = Vec::new();
    for line in 0..(line_count + 2) {
        for &col in &cols {
            let r = guarded(|| li.get_offset(line, col, text)).map(|x| x.map(|t| u32::from(t) as u64));
            let r2 = guarded(|| li.get_col_offset_at_line(line, col, text)).map(|x| x.map(|t| u32::from(t) as u64));
            off.push(json!([line, col, enc_opt_u(r), enc_opt_u(r2)]));
        }
    }
    // LuaDocument through a Vfs
    let mut vfs = Vfs::new();
    vfs.update_config(Emmyrc::default().into());
    let vg = VirtualUrlGenerator::new();
    let uri = vg.new_uri("c22.lua");
    let id = vfs.set_file_content(&uri, Some(text.to_string()));
    let mut lr = Vec::new();
    let mut rr = Vec::new();
    if let Some(doc) = vfs.get_document(&id) {
        // the Vfs may normalise the text (BOM etc.); only use it when it kept the text
        if doc.get_text() == text {
            for line in 0..(line_count + 2) {
                let r = doc.get_line_range(line);
                lr.push(match r {
                    Some(r) => json!([line, u32::from(r.start()), u32::from(r.end())]),
                    None => json!([line, "N"]),
                });
            }
            let bs: Vec<usize> = (0..=len).filter(|o| is_boundary(text, *o)).collect();
            for (i, &a) in bs.iter().enumerate() {
                for &b in bs.iter().skip(i).step_by(3) {
                    let range = TextRange::new(TextSize::from(a as u32), TextSize::from(b as u32));
                    let r = guarded(|| doc.to_lsp_range(range));
                    match r {
                        Ok(Some(lsp)) => {
                            let back = guarded(|| doc.to_rowan_range(lsp));
                            let backv = match back {
                                Ok(Some(r)) => json!([u32::from(r.start()), u32::from(r.end())]),
                                Ok(None) => json!("N"),
                                Err(_) => json!("P"),
                            };
                            rr.push(json!([a, b, [lsp.start.line, lsp.start.character, lsp.end.line, lsp.end.character], backv]));
                        }
                        Ok(None) => rr.push(json!([a, b, "N", "N"])),
                        Err(_) => rr.push(json!([a, b, "P", "P"])),
                    }
                }
            }
        }
    }
    let cps: Vec<u32> = text.chars().map(|c| c as u32).collect();
    json!({"t": cps, "lines": line_count, "lc": lc, "off": off, "lr": lr, "rr": rr})
}

/// independent LSP reference: (line, utf16 col) of every boundary offset; line starts; line ends
struct Reference {
    pos: Vec<Option<(usize, usize)>>, // by byte offset
    line_starts: Vec<usize>,
    line_ends: Vec<usize>, // offset of the terminator's last byte, or len for the last line
}

fn reference(text: &str) -> Reference {
    let len = text.len();
    let mut pos = vec![None; len + 1];
    let mut line_starts = vec![0usize];
    let mut line_ends = Vec::new();
    let (mut line, mut col) = (0usize, 0usize);
    let chars: Vec<(usize, char)> = text.char_indices().collect();
    for (i, &(o, c)) in chars.iter().enumerate() {
        pos[o] = Some((line, col));
        let next_is_lf = chars.get(i + 1).map(|x| x.1 == '\n').unwrap_or(false);
        if c == '\n' || (c == '\r' && !next_is_lf) {
            line_ends.push(o);
            line += 1;
            col = 0;
            line_starts.push(o + c.len_utf8());
        } else {
            col += c.len_utf16();
        }
    }
    pos[len] = Some((line, col));
    line_ends.push(len);
    Reference { pos, line_starts, line_ends }
}

/// property oracles evaluated directly on the implementation
fn search_one(text: &str, out: &mut Vec<Value>) {
    let li = LineIndex::parse(text);
    let len = text.len();
    let rf = reference(text);
    let cps: Vec<u32> = text.chars().map(|c| c as u32).collect();
    let mut report = |sig: &str, what: String| {
        out.push(json!({"signature": sig, "what": what, "text": cps.clone()}));
    };
    if li.line_count() != rf.line_starts.len() {
        report("line-count", format!("line_count {} but the LSP rules give {} lines", li.line_count(), rf.line_starts.len()));
    }
    for o in 0..=len {
        if !is_boundary(text, o) {
            continue;
        }
        let r = guarded(|| li.get_line_col(TextSize::from(o as u32), text));
        match r {
            Err(e) => report("pos-panic", format!("get_line_col({o}) panicked: {e}")),
            Ok(None) => report("pos-none", format!("get_line_col({o}) is None for a boundary offset")),
            Ok(Some((l, c))) => {
                if Some((l, c)) != rf.pos[o] {
                    report("pos-not-lsp", format!("get_line_col({o}) = ({l},{c}) but UTF-16/LSP line rules give {:?}", rf.pos[o].unwrap()));
                }
                match guarded(|| li.get_offset(l, c, text)) {
                    Ok(Some(b)) if u32::from(b) as usize == o => {}
                    other => report("roundtrip", format!("offset {o} -> ({l},{c}) -> {:?}", other.map(|x| x.map(u32::from)))),
                }
            }
        }
    }
    let lines = rf.line_starts.len();
    for line in 0..(lines + 2) {
        let maxc = if line < lines { rf.line_ends[line] - rf.line_starts[line] } else { 3 };
        let mut cols: Vec<usize> = (0..=(maxc + 3)).collect();
        cols.extend_from_slice(&[1000, 65536, u32::MAX as usize]);
        for col in cols {
            let r = guarded(|| li.get_offset(line, col, text));
            match r {
                Err(e) => report("off-panic", format!("get_offset({line},{col}) panicked: {e}")),
                Ok(None) => {
                    if line < lines {
                        report("off-none", format!("get_offset({line},{col}) is None but the line exists"));
                    }
                }
                Ok(Some(o)) => {
                    let o = u32::from(o) as usize;
                    if line >= lines {
                        report("missing-line-some", format!("get_offset({line},{col}) = {o} but the line does not exist"));
                    } else if o > len {
                        report("off-past-end", format!("get_offset({line},{col}) = {o} > len {len}"));
                    } else if o < rf.line_starts[line] || o > rf.line_ends[line] {
                        report("off-not-on-line", format!("get_offset({line},{col}) = {o} outside line [{}, {}]", rf.line_starts[line], rf.line_ends[line]));
                    } else if !is_boundary(text, o) {
                        report("off-not-boundary", format!("get_offset({line},{col}) = {o} is not a character boundary"));
                    } else {
                        // exactness against the LSP reference: largest boundary o' on the line with col(o') <= col
                        let mut best = rf.line_starts[line];
                        for p in rf.line_starts[line]..=rf.line_ends[line] {
                            if let Some((l, c)) = rf.pos[p] {
                                if l == line && c <= col {
                                    best = p;
                                }
                            }
                        }
                        if best != o {
                            report("off-not-lsp", format!("get_offset({line},{col}) = {o} but the LSP rules give {best}"));
                        }
                    }
                }
            }
        }
    }
}

fn main() {
    let args = Args::parse();
    let seed = args.u64("seed", 1);
    let n = args.usize("n", 100);
    let maxlen = args.usize("maxlen", 24);
    let mut rng = Rng::new(seed ^ 0xC22);
    let fixed = [
        "", "a", "\n", "\r", "\r\n", "ab\ncdef\ngh", "é\nxyz", "a😀b", "a\rb", "a😀b\r\ncd\re\né", "\n\n", "x\r\r\ny", "中文\n😀😀",
    ];
    match args.cmd.as_str() {
        "corr" => {
            for t in fixed {
                println!("{}", observe(t));
            }
            for _ in 0..n {
                let t = gen_text(&mut rng, maxlen);
                println!("{}", observe(&t));
            }
        }
        "search" => {
            let mut out = Vec::new();
            let mut count = 0usize;
            let mut dist = [0usize; 4]; // ascii-only, has CR, has astral, has non-ascii BMP
            let mut distinct = std::collections::HashSet::new();
            for t in fixed.iter().map(|s| s.to_string()).chain((0..n).map(|_| gen_text(&mut rng, maxlen))) {
                search_one(&t, &mut out);
                count += 1;
                if t.contains('\n') || t.contains('\r') || !t.is_ascii() {
                    distinct.insert(t.clone());
                }
                if t.is_ascii() { dist[0] += 1; }
                if t.contains('\r') { dist[1] += 1; }
                if t.chars().any(|c| c as u32 >= 0x10000) { dist[2] += 1; }
                if t.chars().any(|c| (c as u32) >= 0x80 && (c as u32) < 0x10000) { dist[3] += 1; }
                if out.len() > 50 { break; }
            }
            for v in &out {
                println!("{}", v);
            }
            println!("{}", json!({"summary": {"texts": count, "distinct_nontrivial": distinct.len(), "ascii_only": dist[0], "with_cr": dist[1], "with_astral": dist[2], "with_bmp_nonascii": dist[3]}}));
        }
        "one" => {
            let t: String = serde_json::from_str(&args.str("text-json", "\"\"")).unwrap();
            println!("{}", observe(&t));
            let mut out = Vec::new();
            search_one(&t, &mut out);
            for v in &out {
                println!("{}", v);
            }
        }
        _ => {
            eprintln!("usage: c22 corr|search|one");
            std::process::exit(2);
        }
    }
}
