//! C12 harness: indexing, diagnosing and querying any set of files terminates without panicking.
//!   c12 search --seed S --n N [--case-ms 4000] [--batch 25] [--stack-kib 2048] [--jobs 4] [--mem-mib 4096] [--corpus DIR]
//!              [--known-file F] [--max-violations 20] [--budget-ms T] [--no-gdb] [--no-classify] [--verify-corpus]
//!        parent: corpus cases first, then N generated cases, executed in child processes (`batch`); a panic, a fatal
//!        signal (stack overflow / abort) or a hang of the in-flight case is a violation; failing cases are shrunk
//!        (line based ddmin through `one`) and printed as JSON lines, then a `{"summary":..}` line.
//!   c12 batch --seed S --from i --to j [--stack-kib K]    child: `{"begin":i}` / `{"end":i,..}` per case
//!   c12 one --case-json J | --case-file P [--stack-kib K] one case in-process; exit 3 on panic
//!   c12 parse-only --case-json J | --case-file P          only emmylua_parser on the same small stack
//!   c12 gen --seed S --index i                            print generated case i
//!   c12 shrink --case-file P [--runs 400] [--ms 600000]  longer shrink of one failing case (development aid)
//!   c12 limits [--stack-kib K]                            bisect the nesting depth the parser / the analysis survive
use emmylua_code_analysis::{
    DiagnosticCode, EmmyLuaAnalysis, Emmyrc, RenderLevel, file_path_to_uri, humanize_type, load_resource_from_include_dir,
};
use emmylua_parser::{LuaAstNode, LuaExpr, LuaParser, LuaTokenKind, ParserConfig};
use rowan::NodeOrToken;
use serde_json::{Value, json};
use std::collections::{BTreeMap, HashSet};
use std::fmt::Write as _;
use std::io::{BufRead, BufReader, Read, Write};
use std::os::unix::process::ExitStatusExt;
use std::panic::{AssertUnwindSafe, catch_unwind};
use std::path::PathBuf;
use std::process::{Child, Command, Stdio};
use std::sync::atomic::{AtomicUsize, Ordering};
use std::sync::mpsc::{Receiver, RecvTimeoutError, channel};
use std::sync::{Arc, Mutex};
use std::time::{Duration, Instant};
use tokio_util::sync::CancellationToken;
use vh_common::{Args, Rng};

macro_rules! w {
    ($s:expr, $($a:tt)*) => {{ let _ = writeln!($s, $($a)*); }};
}

// ------------------------------------------------------------------ case

#[derive(Clone, Debug)]
struct Opts {
    std: bool,      // load the bundled std library first
    batch: bool,    // update_files_by_uri (one index pass) instead of file by file
    all_diag: bool, // every DiagnosticCode in diagnostics.enables
    depth: usize,   // nesting / chain depth the generator used (0 = n/a)
    mutated: bool,  // random line/char mutations applied after generation
}

#[derive(Clone, Debug)]
struct Case {
    files: Vec<(String, String)>,
    cfg: Value, // exactly the .emmyrc.json object that is deserialised
    family: String,
    opts: Opts,
    minimal: bool, // corpus witness that is already shrunk: replayed and classified, not shrunk again
    sig_hint: Option<String>, // corpus witness: the signature recorded when it was found (saves the gdb run while it still fails the same way)
}

impl Case {
    fn to_json(&self) -> Value {
        let mut v = self.to_json_base();
        if self.minimal {
            v["minimal"] = json!(true);
        }
        if let Some(h) = &self.sig_hint {
            v["signature"] = json!(h);
        }
        v
    }
    fn to_json_base(&self) -> Value {
        json!({
            "files": self.files.iter().map(|(n, t)| json!([n, t])).collect::<Vec<_>>(),
            "cfg": self.cfg,
            "family": self.family,
            "opts": {"std": self.opts.std, "batch": self.opts.batch, "allDiag": self.opts.all_diag, "depth": self.opts.depth, "mutated": self.opts.mutated},
        })
    }
    fn from_json(v: &Value) -> Case {
        let mut files = Vec::new();
        if let Some(a) = v["files"].as_array() {
            for f in a {
                let n = f[0].as_str().unwrap_or("f.lua").to_string();
                let t = f[1].as_str().unwrap_or("").to_string();
                files.push((n, t));
            }
        }
        let o = &v["opts"];
        Case {
            files,
            cfg: if v["cfg"].is_object() { v["cfg"].clone() } else { json!({}) },
            family: v["family"].as_str().unwrap_or("corpus").to_string(),
            minimal: v["minimal"].as_bool().unwrap_or(false),
            sig_hint: v["signature"].as_str().map(|s| s.to_string()),
            opts: Opts {
                std: o["std"].as_bool().unwrap_or(false),
                batch: o["batch"].as_bool().unwrap_or(false),
                all_diag: o["allDiag"].as_bool().unwrap_or(true),
                depth: o["depth"].as_u64().unwrap_or(0) as usize,
                mutated: o["mutated"].as_bool().unwrap_or(false),
            },
        }
    }
    fn total_len(&self) -> usize {
        self.files.iter().map(|f| f.1.len()).sum()
    }
}

fn build_emmyrc(cfg: &Value, all_diag: bool) -> Emmyrc {
    let mut e = match serde_json::from_value::<Emmyrc>(cfg.clone()) {
        Ok(e) => e,
        Err(err) => {
            eprintln!("c12: cfg does not deserialise ({err}); using the default configuration");
            Emmyrc::default()
        }
    };
    if all_diag {
        e.diagnostics.enables = DiagnosticCode::all();
    }
    e
}

// ------------------------------------------------------------------ the exercised operations (child side)

#[derive(Default, Clone, Copy)]
struct Work {
    tokens: usize,
    exprs: usize,
    diags: usize,
    infos: usize,
    humanized: usize,
}

const WS_ROOT: &str = "/vws/c12";

fn exercise(case: &Case) -> Work {
    let mut wk = Work::default();
    let mut a = EmmyLuaAnalysis::new();
    a.update_config(Arc::new(build_emmyrc(&case.cfg, case.opts.all_diag)));
    if case.opts.std {
        a.init_std_lib(None);
    }
    let base = PathBuf::from(WS_ROOT);
    a.add_main_workspace(base.clone());
    let mut uris = Vec::new();
    for (name, _) in &case.files {
        let clean: String = name.chars().map(|c| if c.is_ascii_alphanumeric() || c == '_' || c == '.' || c == '/' || c == '-' { c } else { '_' }).collect();
        let p = base.join(clean.trim_start_matches('/'));
        match file_path_to_uri(&p) {
            Some(u) => uris.push(u),
            None => uris.push(file_path_to_uri(&base.join(format!("f{}.lua", uris.len()))).expect("uri")),
        }
    }
    if case.opts.batch {
        let v = uris.iter().cloned().zip(case.files.iter().map(|f| Some(f.1.clone()))).collect();
        a.update_files_by_uri(v);
    } else {
        for (u, f) in uris.iter().zip(case.files.iter()) {
            a.update_file_by_uri(u, Some(f.1.clone()));
        }
    }
    let mut ids = Vec::new();
    for u in &uris {
        if let Some(id) = a.get_file_id(u) {
            if !ids.contains(&id) {
                ids.push(id);
            }
        }
    }
    for &id in &ids {
        if let Some(ds) = a.diagnose_file(id, CancellationToken::new()) {
            wk.diags += ds.len();
        }
        let Some(model) = a.compilation.get_semantic_model(id) else { continue };
        let root = model.get_root().clone();
        let db = model.get_db();
        let mut hum = 0usize;
        for el in root.syntax().descendants_with_tokens() {
            match el {
                NodeOrToken::Token(t) => {
                    wk.tokens += 1;
                    let is_name = t.kind() == LuaTokenKind::TkName.into();
                    if let Some(info) = model.get_semantic_info(NodeOrToken::Token(t)) {
                        wk.infos += 1;
                        if is_name && hum < 48 {
                            hum += 1;
                            wk.humanized += humanize_type(db, &info.typ, RenderLevel::Detailed).len().min(1);
                        }
                    }
                }
                NodeOrToken::Node(n) => {
                    if let Some(e) = LuaExpr::cast(n) {
                        wk.exprs += 1;
                        if let Ok(ty) = model.infer_expr(e) {
                            if wk.exprs % 7 == 0 && hum < 96 {
                                hum += 1;
                                wk.humanized += humanize_type(db, &ty, RenderLevel::Detailed).len().min(1);
                            }
                        }
                    }
                }
            }
        }
    }
    wk
}

/// CPU time (user + system, all threads) of a process in ms, from /proc/<pid>/stat; budgets are CPU budgets so that a
/// loaded machine does not produce timeouts
fn cpu_ms(pid: &str) -> Option<u64> {
    let s = std::fs::read_to_string(format!("/proc/{pid}/stat")).ok()?;
    let rest = &s[s.rfind(')')? + 1..];
    let f: Vec<&str> = rest.split_whitespace().collect();
    let ut: u64 = f.get(11)?.parse().ok()?;
    let st: u64 = f.get(12)?.parse().ok()?;
    Some((ut + st) * 10)
}

static LAST_LOC: Mutex<Option<String>> = Mutex::new(None);

fn install_hook() {
    let bt = std::env::var("RUST_BACKTRACE").map(|v| v != "0").unwrap_or(false);
    std::panic::set_hook(Box::new(move |info| {
        let loc = info.location().map(|l| format!("{}:{}", l.file(), l.line()));
        if let Ok(mut g) = LAST_LOC.lock() {
            *g = loc;
        }
        if bt {
            eprintln!("panic: {info}\n{}", std::backtrace::Backtrace::force_capture());
        }
    }));
}

fn payload_msg(e: Box<dyn std::any::Any + Send>) -> String {
    if let Some(s) = e.downcast_ref::<&str>() {
        s.to_string()
    } else if let Some(s) = e.downcast_ref::<String>() {
        s.clone()
    } else {
        "panic".to_string()
    }
}

/// run `f` on a fresh thread with the given stack; Err((message, location)) on panic
fn on_small_stack<T: Send + 'static>(stack_kib: usize, f: impl FnOnce() -> T + Send + 'static) -> Result<T, (String, Option<String>)> {
    if let Ok(mut g) = LAST_LOC.lock() {
        *g = None;
    }
    let h = std::thread::Builder::new()
        .stack_size(stack_kib * 1024)
        .spawn(move || catch_unwind(AssertUnwindSafe(f)))
        .expect("spawn");
    match h.join() {
        Ok(Ok(v)) => Ok(v),
        Ok(Err(e)) | Err(e) => {
            let loc = LAST_LOC.lock().ok().and_then(|g| g.clone());
            Err((payload_msg(e), loc))
        }
    }
}

fn run_case_line(idx: usize, case: &Case, stack_kib: usize) -> (Value, bool) {
    let c = case.clone();
    let t0 = Instant::now();
    let c0 = cpu_ms("self");
    let r = on_small_stack(stack_kib, move || exercise(&c));
    let wall = t0.elapsed().as_millis() as u64;
    let ms = match (c0, cpu_ms("self")) {
        (Some(a), Some(b)) => b.saturating_sub(a),
        _ => wall,
    };
    match r {
        Ok(wk) => (json!({"end": idx, "ms": ms, "wall_ms": wall, "panic": Value::Null, "loc": Value::Null, "tok": wk.tokens, "expr": wk.exprs, "diag": wk.diags, "info": wk.infos, "hum": wk.humanized}), false),
        Err((m, loc)) => (json!({"end": idx, "ms": ms, "panic": m, "loc": loc}), true),
    }
}

fn short_loc(loc: &str) -> String {
    match loc.find("crates/") {
        Some(p) => loc[p..].to_string(),
        None => loc.to_string(),
    }
}

// ------------------------------------------------------------------ generator

fn case_rng(seed: u64, i: usize) -> Rng {
    let mut r = Rng::new(seed.wrapping_mul(0x9E3779B97F4A7C15) ^ (i as u64).wrapping_mul(0xD1B54A32D192ED03) ^ 0xC12);
    r.next();
    Rng::new(r.next())
}

const VERSIONS: &[&str] = &["Lua5.1", "LuaJIT", "LuaJIT2", "LuaJIT3", "Lua5.2", "Lua5.3", "Lua5.4", "Lua5.5", "LuaLatest"];
const NONSTD: &[&str] = &["//", "/**/", "`", "+=", "-=", "*=", "/=", "%=", "^=", "//=", "|=", "&=", "<<=", ">>=", "||", "&&", "!", "!=", "continue"];

fn gen_cfg(rng: &mut Rng) -> Value {
    let mut runtime = serde_json::Map::new();
    runtime.insert("version".into(), json!(*rng.pick(VERSIONS)));
    if rng.chance(1, 3) {
        let syms: Vec<&str> = NONSTD.iter().filter(|_| rng.chance(1, 3)).cloned().collect();
        runtime.insert("nonstandardSymbol".into(), json!(syms));
    }
    if rng.chance(1, 4) {
        let mut sp = serde_json::Map::new();
        for (k, v) in [("req", "require"), ("fail", "error"), ("check", "assert"), ("typeof", "type"), ("setmt", "setmetatable"), ("require", "none"), ("f", "require")] {
            if rng.chance(1, 3) {
                sp.insert(k.into(), json!(v));
            }
        }
        runtime.insert("special".into(), Value::Object(sp));
    }
    if rng.chance(1, 6) {
        runtime.insert("requireLikeFunction".into(), json!(["import", "f"]));
    }
    let mut strict = serde_json::Map::new();
    for k in ["requirePath", "typeCall", "arrayIndex", "metaOverrideFileDefine", "docBaseConstMatchBaseType"] {
        if rng.chance(3, 4) {
            strict.insert(k.into(), json!(rng.chance(1, 2)));
        }
    }
    json!({"runtime": Value::Object(runtime), "strict": Value::Object(strict)})
}

/// statements that use a variable `v` of doc type `ty` in many syntactic positions
const USES: &[&str] = &[
    "local _$n = $v.f",
    "local _$n = $v.f.g.h",
    "local _$n = $v.f.f.f.f.f.f",
    "local _$n = $v:m()",
    "local _$n = $v:m():m():m()",
    "local _$n = $v[1]",
    "local _$n = $v[1][2][3]",
    "local _$n = $v .. 's'",
    "local _$n = $v + 1",
    "local _$n = $v == $v",
    "local _$n = #$v",
    "local _$n = -$v",
    "local _$n = $v()",
    "local _$n = $v($v)($v)",
    "local _$n = $v < $v",
    "local _$n = $v.v",
    "for k, x in pairs($v) do local _ = x end",
    "for i, x in ipairs($v) do local _ = x.f end",
    "for x in $v do local _ = x end",
    "---@param p $T\n---@return $T\nlocal function fn_$n(p) return p end\nlocal _$n = fn_$n($v)",
    "---@param p $T\n---@param ... $T\n---@return $T ...\nfunction gfn_$n(p, ...) return p, ... end\nlocal _$n, __$n = gfn_$n($v, $v, $v)",
    "local _$n = $v --[[@as $T]]",
    "---@cast $v $T",
    "---@cast $v +string, -nil",
    "---@cast $v +$T",
    "---@cast $v -$T",
    "---@cast $v.f $T",
    "if type($v) == 'string' then local _ = $v elseif $v then local _ = $v.f end",
    "$v = $v.f",
    "$v.f = $v",
    "$v.f.g = $v.f",
    "local _$n = { $v, f = $v, [$v] = $v }",
    "local _$n = $v and $v.f or $v",
    "local _$n = not $v",
    "local _$n = select(2, $v, $v)",
    "local _$n = tostring($v) .. tostring($v.f)",
    "local _$n, __$n = pcall($v, $v)",
    "local mt_$n = setmetatable({}, { __index = $v })\nlocal _$n = mt_$n.f",
    "local _$n = assert($v)",
    "---@type $T[]\nlocal arr_$n = { $v }\nlocal _$n = arr_$n[1].f",
    "---@type table<string, $T>\nlocal map_$n = {}\nlocal _$n = map_$n.x.f",
    "---@type fun(a: $T): $T\nlocal cb_$n\nlocal _$n = cb_$n($v).f",
    "---@type { a: $T, [string]: $T }\nlocal ob_$n\nlocal _$n = ob_$n.a.f",
    "---@type [$T, $T]\nlocal tu_$n\nlocal _$n = tu_$n[2]",
    "---@type $T?\nlocal op_$n = $v\nlocal _$n = op_$n and op_$n.f",
    "local function rec_$n(a) return rec_$n(a.f) end\nlocal _$n = rec_$n($v)",
    "function $v:meth() return self.f end",
    "function $v.stat(a) return a end",
    "---@type $T\nG_$n = $v\nlocal _$n = G_$n.f",
    "---@class Sub_$n: $T\nlocal sub_$n = {}\nlocal _$n = sub_$n.f\n$v = sub_$n",
    "---@return $T\nlocal function mk_$n() end\nlocal _$n = mk_$n().f",
    "---@generic T\n---@param x T\n---@return T\nlocal function id_$n(x) return x end\nlocal _$n = id_$n($v).f",
    "---@generic T\n---@param x T[]\n---@return T\nlocal function el_$n(x) return x[1] end\nlocal _$n = el_$n($v)",
    "---@generic K, V\n---@param x table<K, V>\n---@return K, V\nlocal function kv_$n(x) end\nlocal _$n, __$n = kv_$n($v)",
];

struct Ctr(usize);

fn usage(rng: &mut Rng, ctr: &mut Ctr, s: &mut String, ty: &str, lines: usize) -> String {
    ctr.0 += 1;
    let v = format!("v{}", ctr.0);
    match rng.below(4) {
        0 => w!(s, "---@type {ty}\nlocal {v}"),
        1 => w!(s, "local {v} ---@type {ty}"),
        2 => w!(s, "---@type {ty}\nlocal {v} = {{}}"),
        _ => w!(s, "local {v} = nil --[[@as {ty}]]"),
    }
    for _ in 0..lines {
        ctr.0 += 1;
        let t = rng.pick(USES).replace("$v", &v).replace("$T", ty).replace("$n", &ctr.0.to_string());
        w!(s, "{t}");
    }
    v
}

fn cross_assign(rng: &mut Rng, s: &mut String, vars: &[String]) {
    if vars.len() < 2 {
        return;
    }
    for _ in 0..rng.range(1, 4) {
        let a = rng.pick(vars).clone();
        let b = rng.pick(vars).clone();
        match rng.below(4) {
            0 => w!(s, "{a} = {b}"),
            1 => w!(s, "{a}.f = {b}.f"),
            2 => w!(s, "{a}, {b} = {b}, {a}"),
            _ => w!(s, "local _ = {a} == {b} or {a} ~= {b}"),
        }
    }
}

struct Gen {
    files: Vec<(String, String)>,
    sub: String,
    depth: usize,
}

fn single(sub: &str, depth: usize, text: String) -> Gen {
    Gen { files: vec![("main.lua".into(), text)], sub: sub.to_string(), depth }
}

fn pick_depth(rng: &mut Rng, max: usize) -> usize {
    match rng.below(4) {
        0 => rng.range(1, 12.min(max)),
        1 => rng.range(1, (max / 4).max(1)),
        _ => rng.range(1, max),
    }
}

// ---- a. class graphs
const WEIRD_SUPERS: &[&str] = &[
    "---@alias AL W1\n---@class W1: AL",
    "---@class WS: string",
    "---@class WN: number, integer",
    "---@class WC<T>: WD<WC<T>>\n---@class WD<T>: WC<WD<T>>\n---@field v T",
    "---@class WE: WE[]",
    "---@class WF: table<string, WF>",
    "---@class WG: fun(): WG",
    "---@class WH: { a: WH }",
    "---@class WI: [WI, WI]",
    "---@class WJ: WJ?",
    "---@class WK: WK|nil",
    "---@class WL: any",
    "---@class WM: table",
    "---@class WO: self",
    "---@class WP: nil",
    "---@class WQ: WQ, WQ, WQ",
    "---@class (partial) WR: WR\n---@class (partial) WR: WS",
    "---@class (exact) WT: WU\n---@class WU: WT\n---@field f WT",
    "---@class WV<T: WV<T>>: T",
    "---@class WX<T>: T\n---@field f WX<WX<T>>",
    "---@class WY: WX<WY>",
    "---@class integer: string\n---@class string: integer",
    "---@class table: table",
    "---@interface WZ: WZ",
    "---@enum WEn: WEn\nlocal WEn = { a = 1 }",
    "---@alias WAl WAl\n---@class WBl: WAl",
];

fn fam_class(rng: &mut Rng) -> Gen {
    let mut s = String::new();
    let mut ctr = Ctr(0);
    let mut tys: Vec<String> = Vec::new();
    let mut depth = 0usize;
    let mut files2: Vec<(String, String)> = Vec::new();
    let sub;
    match rng.below(10) {
        0 => {
            sub = "cycle";
            let k = rng.range(1, 6);
            depth = k;
            for i in 0..k {
                let mut sup = format!("A{}", (i + 1) % k);
                if rng.chance(1, 3) {
                    let _ = write!(sup, ", A{}", rng.below(k));
                }
                w!(s, "---@class A{i}: {sup}");
                w!(s, "---@field f A{}", rng.below(k));
                w!(s, "---@field g A{}", rng.below(k));
                if rng.chance(1, 2) {
                    w!(s, "---@field m fun(self: A{i}): A{}", rng.below(k));
                }
                if rng.chance(1, 3) {
                    w!(s, "---@field [integer] A{}", rng.below(k));
                }
                if rng.chance(1, 3) {
                    w!(s, "---@operator add(A{}): A{}", rng.below(k), rng.below(k));
                    w!(s, "---@operator call(A{}): A{}", rng.below(k), rng.below(k));
                }
                if rng.chance(1, 2) {
                    w!(s, "local A{i} = {{}}\nfunction A{i}:m() return self.f end\nfunction A{i}.new() return setmetatable({{}}, {{ __index = A{i} }}) end");
                } else {
                    w!(s, "");
                }
                tys.push(format!("A{i}"));
            }
        }
        1 => {
            sub = "diamond";
            let levels = rng.range(2, 5);
            let width = rng.range(2, 4);
            depth = levels;
            let close = rng.chance(1, 2);
            for l in 0..levels {
                for x in 0..width {
                    let sup: Vec<String> = if l == 0 {
                        if close { vec![format!("L{}_{}", levels - 1, rng.below(width))] } else { vec![] }
                    } else {
                        (0..width).filter(|_| rng.chance(2, 3)).map(|y| format!("L{}_{}", l - 1, y)).collect()
                    };
                    if sup.is_empty() {
                        w!(s, "---@class L{l}_{x}");
                    } else {
                        w!(s, "---@class L{l}_{x}: {}", sup.join(", "));
                    }
                    if rng.chance(1, 2) {
                        w!(s, "---@field f L{}_{}", rng.below(levels), rng.below(width));
                    }
                    if rng.chance(1, 3) {
                        w!(s, "---@field m fun(self: self): L{}_{}", rng.below(levels), rng.below(width));
                    }
                    w!(s, "");
                }
            }
            tys.push(format!("L{}_0", levels - 1));
            tys.push("L0_0".into());
            tys.push(format!("L{}_{}", rng.below(levels), rng.below(width)));
        }
        2 => {
            sub = "chain";
            let d = if rng.chance(1, 24) { 3000 } else if rng.chance(1, 2) { rng.range(2, 40) } else { rng.range(40, 400) };
            depth = d;
            let asc = rng.chance(1, 2);
            let close = rng.chance(1, 4);
            let mut lines = Vec::new();
            for i in 0..d {
                lines.push(format!("---@class C{i}: C{}", i + 1));
            }
            let last = if close { format!("---@class C{d}: C0\n---@field f C0\n---@field m fun(self: C{d}): C0") } else { format!("---@class C{d}\n---@field f C0\n---@field m fun(self: C{d}): C0") };
            lines.push(last);
            if !asc {
                lines.reverse();
            }
            for l in lines {
                w!(s, "{l}\n");
            }
            tys.push("C0".into());
            tys.push(format!("C{d}"));
            tys.push(format!("C{}", d / 2));
        }
        3 => {
            sub = "weird-super";
            for _ in 0..rng.range(2, 7) {
                let w = *rng.pick(WEIRD_SUPERS);
                w!(s, "{w}\n");
                if let Some(name) = w.split_whitespace().find(|t| t.starts_with('W')) {
                    let name = name.trim_end_matches(':').split('<').next().unwrap_or("WS").to_string();
                    tys.push(if w.contains(&format!("{name}<")) { format!("{name}<integer>") } else { name });
                }
            }
            if tys.is_empty() {
                tys.push("string".into());
            }
        }
        4 => {
            sub = "partial-multifile";
            let mut t = String::new();
            w!(s, "---@class (partial) P0: P1\n---@field f P1\nlocal P0 = {{}}\nfunction P0:m() return self.f end\nreturn P0");
            w!(t, "---@class (partial) P0: P2\n---@field g P0\n\n---@class P1: P0\n---@field h P2\n\n---@class P2: P1, P0\nlocal P2 = require('main')\nfunction P2:m() return self.g.f.h end\nreturn P2");
            let mut u = String::new();
            let mut vs: Vec<String> = Vec::new();
            for i in 0..3 {
                let n = rng.range(2, 6);
                vs.push(usage(rng, &mut ctr, &mut u, &format!("P{i}"), n));
            }
            cross_assign(rng, &mut u, &vs);
            files2.push(("other.lua".into(), t));
            files2.push(("use.lua".into(), u));
            depth = 3;
        }
        5 => {
            sub = "metatable";
            w!(s, "---@class MA: MB\nlocal MA = {{}}\nMA.__index = MA\n---@class MB: MA\nlocal MB = setmetatable({{}}, {{ __index = MA }})\nMB.__index = MB");
            w!(s, "---@return MA\nfunction MA.new() return setmetatable({{}}, MA) end\nfunction MB:m() return MA.new():m() end\nfunction MA:m() return MB.m(self) end");
            w!(s, "---@type MA\nMA.f = MB\n---@type MB\nMB.f = MA\nlocal r = MA.new():m().f.f.f");
            tys.push("MA".into());
            tys.push("MB".into());
            depth = 2;
        }
        6 => {
            sub = "generic-cycle";
            let k = rng.range(1, 4);
            depth = k;
            for i in 0..k {
                let j = (i + 1) % k;
                match rng.below(4) {
                    0 => w!(s, "---@class GC{i}<T>: GC{j}<GC{i}<T>>"),
                    1 => w!(s, "---@class GC{i}<T>: GC{j}<T[]>"),
                    2 => w!(s, "---@class GC{i}<T>: GC{j}<T>, T"),
                    _ => w!(s, "---@class GC{i}<T, U>: GC{j}<U, T>"),
                }
                w!(s, "---@field v T\n---@field f GC{j}<T>\n---@field g GC{i}<GC{i}<T>>\n---@field m fun(self: GC{i}<T>): T\n");
                tys.push(format!("GC{i}<integer>"));
                tys.push(format!("GC{i}<GC{j}<string>>"));
            }
        }
        8 | 9 => {
            // multi-parent cycles that braid through different parents (every class is on a ring and lists other ring
            // classes as parents too), generic or not, used as arguments of generic functions / parameters
            sub = "braid";
            let generic = rng.chance(2, 3);
            let k = rng.range(3, 6);
            depth = k;
            let p = |i: usize| if generic { format!("BR{i}<T>") } else { format!("BR{i}") };
            let exact = k == 4 && rng.chance(1, 2);
            for i in 0..k {
                let sups: Vec<String> = if exact {
                    // A: P, B ; P: B ; B: Q, A ; Q: A
                    match i { 0 => vec![p(1), p(2)], 1 => vec![p(2)], 2 => vec![p(3), p(0)], _ => vec![p(0)] }
                } else {
                    let mut v: Vec<String> = (0..rng.range(0, 2)).map(|_| p(rng.below(k))).collect();
                    let pos = rng.below(v.len() + 1);
                    v.insert(pos, p((i + 1) % k));
                    v
                };
                w!(s, "---@class {}: {}", p(i), sups.join(", "));
                if rng.chance(1, 3) {
                    w!(s, "---@field f {}", if generic { format!("BR{}<T>", rng.below(k)) } else { format!("BR{}", rng.below(k)) });
                }
            }
            let inst = |i: usize| if generic { format!("BR{i}<string>") } else { format!("BR{i}") };
            w!(s, "---@class Box<T>\n---@field v T\n");
            w!(s, "---@generic T\n---@param b Box<T>\n---@return T\nlocal function unbox(b) end");
            w!(s, "---@generic T\n---@param x T[]\n---@return T\nlocal function el(x) end");
            if generic {
                w!(s, "---@generic T\n---@param x BR{}<T>\n---@return T\nlocal function un(x) end", rng.below(k));
                w!(s, "---@generic T\n---@param f fun(x: BR{}<T>): T\n---@return T\nlocal function ap(f) end", rng.below(k));
            } else {
                w!(s, "---@generic T: BR{}\n---@param x T\n---@return T\nlocal function un(x) end", rng.below(k));
                w!(s, "---@generic T\n---@param f fun(x: T): BR{}\n---@return T\nlocal function ap(f) end", rng.below(k));
            }
            for i in 0..k.min(3) {
                let j = rng.below(k);
                w!(s, "---@type {}\nlocal br{i}\nlocal ru{i} = unbox(br{i})\nlocal re{i} = el(br{i})\nlocal rn{i} = un(br{i})", inst(j));
                w!(s, "---@type fun(x: {}): string\nlocal cb{i}\nlocal ra{i} = ap(cb{i})\nlocal _m{i} = br{i}.f", inst(rng.below(k)));
            }
            tys.push(inst(0));
            tys.push(inst(rng.below(k)));
        }
        _ => {
            sub = "field-self";
            let k = rng.range(1, 4);
            depth = k;
            for i in 0..k {
                w!(s, "---@class FS{i}");
                for f in ["f", "g", "h", "v"] {
                    let j = rng.below(k);
                    match rng.below(6) {
                        0 => w!(s, "---@field {f} FS{j}"),
                        1 => w!(s, "---@field {f} FS{j}[]"),
                        2 => w!(s, "---@field {f} table<FS{j}, FS{i}>"),
                        3 => w!(s, "---@field {f} fun(a: FS{j}): FS{i}"),
                        4 => w!(s, "---@field {f} FS{j}?"),
                        _ => w!(s, "---@field {f} FS{j} | FS{i} | nil"),
                    }
                }
                w!(s, "local FS{i} = {{}}\nFS{i}.f = FS{i}\nFS{i}.self = FS{i}.f.f\nfunction FS{i}:m() return self end\n");
                tys.push(format!("FS{i}"));
            }
        }
    }
    let mut vars = Vec::new();
    let nuse = if depth >= 1000 { 2 } else { rng.range(1, 4) };
    for _ in 0..nuse {
        if tys.is_empty() {
            break;
        }
        let t = rng.pick(&tys).clone();
        let n = rng.range(3, 12);
        vars.push(usage(rng, &mut ctr, &mut s, &t, n));
    }
    cross_assign(rng, &mut s, &vars);
    let mut files = vec![("main.lua".to_string(), s)];
    files.extend(files2);
    Gen { files, sub: sub.into(), depth }
}

// ---- b. recursive aliases
const ALIAS_BODY: &[&str] = &[
    "$R[]", "$R|string", "$R?", "fun(x: $R): $R", "table<string, $R>", "{ a: $R }", "[$R, $R]", "$R", "$R & $R", "($R)",
    "fun(...: $R): $R...", "keyof $R", "$R | $R[] | table<$R, $R>", "{ [string]: $R }", "{ a: $R, b: $R[] }[]",
    "fun(): fun(): $R", "$R | nil", "table<$R, $R>", "[$R]", "$R extends string and $R or $R[]", "$R[\"a\"]", "$R[$R]",
    "string | $R | integer | { f: $R }", "async fun(a: $R)", "{ f: $R, g: fun(self: $R): $R }", "\"a\" | \"b\" | $R", "1 | 2 | $R",
];

const GENERIC_ALIAS: &[&str] = &[
    "---@alias G<T> G<T[]>",
    "---@alias G<T> T | G<T>[]",
    "---@alias G<T> G<G<T>>",
    "---@alias G<T> T extends G<T> and G<T> or T",
    "---@alias G<T> { [K in keyof T]: G<T[K]> }",
    "---@alias G<T> fun(x: G<T>): G<T[]>",
    "---@alias G<T> table<T, G<T>>",
    "---@alias G<T, U> G<U, T>",
    "---@alias G<T> T extends (fun(...: infer P): any) and G<P> or never",
    "---@alias G<T> H<T>\n---@alias H<T> G<T>[]",
    "---@alias G<T> [T, G<T>]",
    "---@alias G<T> { a: T, next: G<T>? }",
    "---@alias G<T> std.NotNull<G<T>>",
    "---@alias G<T> Partial<G<T>>",
    "---@alias G<T> ReturnType<G<T>>",
    "---@alias G<T> keyof G<T>",
    "---@alias G<T: G<T>> T",
    "---@alias G<T> T...",
    "---@alias G<T> G",
];

fn fam_alias(rng: &mut Rng) -> Gen {
    let mut s = String::new();
    let mut ctr = Ctr(0);
    let mut tys: Vec<String> = Vec::new();
    let depth;
    let sub;
    match rng.below(5) {
        0 => {
            sub = "self";
            for i in 0..rng.range(1, 4) {
                let b = rng.pick(ALIAS_BODY).replace("$R", &format!("R{i}"));
                w!(s, "---@alias R{i} {b}\n");
                tys.push(format!("R{i}"));
            }
            depth = 1;
        }
        1 => {
            sub = "mutual";
            let k = rng.range(2, 5);
            depth = k;
            for i in 0..k {
                let b = rng.pick(ALIAS_BODY).replace("$R", &format!("M{}", (i + 1) % k));
                w!(s, "---@alias M{i} {b}\n");
                tys.push(format!("M{i}"));
            }
        }
        2 => {
            sub = "chain";
            let d = if rng.chance(1, 2) { rng.range(2, 30) } else { rng.range(30, 300) };
            depth = d;
            let body = *rng.pick(&["$R[]", "$R", "$R?", "$R|string", "{ a: $R }", "fun(): $R", "table<string, $R>", "[$R]"]);
            let close = rng.chance(1, 3);
            let mut lines = Vec::new();
            for i in 0..d {
                lines.push(format!("---@alias L{i} {}", body.replace("$R", &format!("L{}", i + 1))));
            }
            lines.push(if close { format!("---@alias L{d} L0") } else { format!("---@alias L{d} {{ f: L0, a: L0 }}") });
            if rng.chance(1, 2) {
                lines.reverse();
            }
            for l in lines {
                w!(s, "{l}\n");
            }
            tys.push("L0".into());
            tys.push(format!("L{}", d / 2));
        }
        3 => {
            sub = "generic";
            let g = *rng.pick(GENERIC_ALIAS);
            w!(s, "{g}\n");
            depth = 1;
            for a in ["G<integer>", "G<string[]>", "G<G<integer>>", "G<fun(a: integer): string>", "G<{ a: integer, b: string }>", "G<integer, string>", "G"] {
                if rng.chance(1, 2) {
                    tys.push(a.into());
                }
            }
            if tys.is_empty() {
                tys.push("G<integer>".into());
            }
        }
        _ => {
            sub = "alias-class";
            w!(s, "---@alias AC1 AC2 | AK\n---@alias AC2 AC1[] | AK\n---@class AK: AC1\n---@field f AC2\n---@field g AC1\n---@field [AC1] AC2\n---@operator call(AC1): AC2\n---@operator concat(AC1): AC2\n---@operator add(AK): AC1\n");
            w!(s, "---@alias string string[]\n");
            if rng.chance(1, 2) {
                w!(s, "---@alias integer integer|string\n---@alias table table<table, table>\n");
            }
            tys.extend(["AC1", "AC2", "AK", "string"].iter().map(|x| x.to_string()));
            depth = 2;
        }
    }
    let mut vars = Vec::new();
    for _ in 0..rng.range(1, 4) {
        let t = rng.pick(&tys).clone();
        let n = rng.range(3, 12);
        vars.push(usage(rng, &mut ctr, &mut s, &t, n));
    }
    cross_assign(rng, &mut s, &vars);
    single(sub, depth, s)
}

// ---- c. self-referential / malformed generics
const TYPE_NAMES: &[&str] = &["Box<T>", "Box<Box<T>>", "T", "T[]", "string", "integer", "Box<integer>", "self", "any", "nil", "E", "T...", "Pair<T, Box<T>>", "unknown", "table"];

fn gen_type(rng: &mut Rng, depth: usize) -> String {
    if depth == 0 || rng.chance(1, 4) {
        return rng.pick(TYPE_NAMES).to_string();
    }
    let d = depth - 1;
    match rng.below(16) {
        0 => format!("{}[]", gen_type(rng, d)),
        1 => format!("{} | {}", gen_type(rng, d), gen_type(rng, d)),
        2 => format!("{}?", gen_type(rng, d)),
        3 => format!("fun(a: {}, ...: {}): {}", gen_type(rng, d), gen_type(rng, d), gen_type(rng, d)),
        4 => format!("table<{}, {}>", gen_type(rng, d), gen_type(rng, d)),
        5 => format!("{{ a: {}, b?: {} }}", gen_type(rng, d), gen_type(rng, d)),
        6 => format!("[{}, {}]", gen_type(rng, d), gen_type(rng, d)),
        7 => format!("({})", gen_type(rng, d)),
        8 => format!("{} & {}", gen_type(rng, d), gen_type(rng, d)),
        9 => format!("Box<{}>", gen_type(rng, d)),
        10 => format!("keyof {}", gen_type(rng, d)),
        11 => format!("{} extends {} and {} or {}", gen_type(rng, d), gen_type(rng, d), gen_type(rng, d), gen_type(rng, d)),
        12 => format!("{{ [K in keyof {}]: {} }}", gen_type(rng, d), gen_type(rng, d)),
        13 => format!("Pair<{}, {}>", gen_type(rng, d), gen_type(rng, d)),
        14 => format!("{}[{}]", gen_type(rng, d), *rng.pick(&["\"a\"", "1", "K", "string"])),
        _ => format!("fun<U>(a: U): {}", gen_type(rng, d)),
    }
}

const GENERIC_SNIPS: &[&str] = &[
    "---@generic T: T\n---@param x T\n---@return T\nlocal function f$n(x) return x end\nlocal _a$n = f$n(f$n)\nlocal _b$n = f$n(1)",
    "---@generic T: U, U: T\n---@param a T\n---@param b U\n---@return T, U\nfunction g$n(a, b) return a, b end\nlocal _a$n, _b$n = g$n(g$n, g$n)\nlocal _c$n = g$n(1, 's')",
    "---@generic F: fun(...: any): F\n---@param f F\n---@return F\nfunction sr$n(f) return f end\nlocal _a$n = sr$n(sr$n)(sr$n)(sr$n)",
    "---@generic T\n---@param f fun(x: T): T\n---@return fun(x: T): T\nlocal function fix$n(f) return fix$n(f) end\nlocal _a$n = fix$n(fix$n)\nlocal _b$n = fix$n(function(x) return fix$n(x) end)",
    "---@generic T...\n---@param ... T...\n---@return T...\nlocal function va$n(...) return ... end\nlocal _a$n, _b$n, _c$n = va$n(1, 's', va$n)\nlocal _d$n = { va$n(va$n(va$n())) }",
    "---@generic T\n---@param name `T`\n---@return T\nlocal function new$n(name) end\nlocal _a$n = new$n('Box')\nlocal _b$n = new$n('Box<Box>')\nlocal _c$n = new$n('')\nlocal _d$n = new$n(new$n)",
    "---@generic T\n---@param name aaa.`T`.bbb\n---@return T[]\nlocal function tpl$n(name) end\nlocal _a$n = tpl$n('Box')[1].f",
    "---@overload fun(a: integer): string\n---@overload fun(a: string): integer\n---@overload fun(a: Box<Box<integer>>, ...: Box<any>): Box<string>\n---@overload fun(\n---@param a any\n---@return any\nlocal function ov$n(a) return ov$n(ov$n(a)) end\nlocal _a$n = ov$n(1)\nlocal _b$n = ov$n(ov$n('s'))\nlocal _c$n = ov$n()",
    "---@enum E\nlocal E = { A = 1, B = E and E.A, C = {}, D = E }\n---@enum (key) K$n\nlocal K$n = { x = K$n, y = 2 }\n---@type E\nlocal _e$n = E.B\n---@type K$n\nlocal _k$n = 'x'\n---@param e E\nlocal function pe$n(e) return E[e] end\nlocal _r$n = pe$n(E.D)",
    "---@type Box<\nlocal cut1_$n\n---@param\nlocal function cut2_$n(a) end\n---@generic\n---@class\n---@alias\n---@field\n---@operator\n---@overload fun(\n---@return fun(\n---@type [\nlocal cut3_$n\n---@type {\nlocal cut4_$n\n---@type table<\nlocal cut5_$n = cut1_$n.f + cut3_$n[1] .. cut4_$n.a",
    "---@class Pair<A, B>\n---@field first A\n---@field second B\n---@field swap fun(self: Pair<A, B>): Pair<B, A>\n---@type Pair<Pair<integer, string>, Pair<string, Pair<integer, integer>>>\nlocal pp$n\nlocal _a$n = pp$n:swap():swap().first.second\nlocal _b$n = pp$n.second.second.first",
    "---@class Rec$n<T>\n---@field next Rec$n<Rec$n<T>>\n---@field val T\n---@type Rec$n<integer>\nlocal rc$n\nlocal _a$n = rc$n.next.next.next.next.next.next.next.next.val.val",
    "---@generic T\n---@param t T\n---@return T extends string and integer or T[]\nlocal function cond$n(t) end\nlocal _a$n = cond$n('s')\nlocal _b$n = cond$n(cond$n(1))",
    "---@generic T, K extends keyof T\n---@param t T\n---@param k K\n---@return T[K]\nlocal function get$n(t, k) return t[k] end\nlocal _a$n = get$n({ a = 1, b = { c = 2 } }, 'b').c\nlocal _b$n = get$n(get$n, get$n)",
    "---@generic T\n---@param cls T\n---@return T\nfunction class$n(cls) return cls end\n---@class CL$n: CL$n\nlocal CL$n = class$n({})\nCL$n.x = class$n(CL$n)\nfunction CL$n:init() self.y = class$n(self) end",
    "---@class Itr$n<T>\n---@operator call: T\n---@generic T\n---@param t T[]\n---@return Itr$n<T>\nlocal function it$n(t) end\nfor x in it$n({ 1, 2 }) do local _ = x end\nfor x in it$n(it$n) do local _ = x.f end",
    "---@param x std.Unpack<Box<integer>, 1, 2>\n---@param y std.Select<Box<integer>, -1>\n---@param z std.RawGet<Box<integer>, 'f'>\n---@return Parameters<fun(a: Box<integer>): Box<string>>\nlocal function sd$n(x, y, z) return x, y, z end\nlocal _a$n = sd$n(1, 2, 3)",
    "---@type Parameters<Parameters<ReturnType<ConstructorParameters<Box<integer>>>>>\nlocal ut$n\n---@type Partial<Partial<Box<Partial<Box<integer>>>>>\nlocal pt$n\nlocal _a$n = ut$n[1] .. pt$n.f.f",
    "---@class Ctor$n\n---@overload fun(a: integer): Ctor$n\n---@field new fun(self: Ctor$n): Ctor$n\n---@[constructor(\"new\")]\nlocal Ctor$n = {}\nlocal _a$n = Ctor$n(1):new():new()\nlocal _b$n = Ctor$n(Ctor$n)",
    "---@generic T\n---@param a T\n---@param b fun(x: T): T\n---@return T\nlocal function ap$n(a, b) return b(a) end\nlocal _a$n = ap$n(1, function(x) return ap$n(x, function(y) return ap$n(y, ap$n) end) end)",
];

fn fam_generic(rng: &mut Rng) -> Gen {
    let mut s = String::new();
    let mut ctr = Ctr(0);
    let sub;
    let mut depth = 0;
    // the recurring Box class, itself malformed in random ways
    let sup = *rng.pick(&["", ": Box<Box<T>>", ": Box<T>", ": T", ": Box<T[]>", ": Pair<Box<T>, T>", ": Box"]);
    w!(s, "---@class Box<T>{sup}");
    for _ in 0..rng.range(1, 6) {
        let f = *rng.pick(&["f", "g", "v", "m", "next"]);
        w!(s, "---@field {f} {}", gen_type(rng, 3));
    }
    for _ in 0..rng.below(5) {
        let op = *rng.pick(&["add", "sub", "mul", "div", "mod", "pow", "concat", "idiv", "band", "bor", "shl", "lt", "le", "eq"]);
        w!(s, "---@operator {op}({}): {}", gen_type(rng, 2), gen_type(rng, 2));
    }
    if rng.chance(1, 2) {
        w!(s, "---@operator call({}): {}", gen_type(rng, 2), gen_type(rng, 2));
    }
    if rng.chance(1, 2) {
        w!(s, "---@operator unm: {}\n---@operator len: {}\n---@operator bnot: {}", gen_type(rng, 2), gen_type(rng, 2), gen_type(rng, 2));
    }
    if rng.chance(1, 3) {
        w!(s, "---@operator index({}): {}", gen_type(rng, 1), gen_type(rng, 2));
    }
    if rng.chance(1, 2) {
        w!(s, "---@overload fun(x: {}): {}", gen_type(rng, 2), gen_type(rng, 2));
    }
    w!(s, "local Box = {{}}\n");
    match rng.below(3) {
        0 => {
            sub = "snippets";
            for _ in 0..rng.range(1, 5) {
                ctr.0 += 1;
                let t = rng.pick(GENERIC_SNIPS).replace("$n", &ctr.0.to_string());
                w!(s, "{t}\n");
            }
        }
        1 => {
            sub = "random-types";
            depth = rng.range(2, 6);
            for _ in 0..rng.range(2, 6) {
                ctr.0 += 1;
                let n = ctr.0;
                let (a, b, c) = (gen_type(rng, depth), gen_type(rng, depth), gen_type(rng, depth));
                w!(s, "---@generic T, K, E\n---@param a {a}\n---@param ... {b}\n---@return {c}\nlocal function rt{n}(a, ...) return a, ... end");
                w!(s, "---@type {}\nlocal rv{n} = rt{n}(rt{n}, Box)\nlocal _x{n} = rv{n}.f + rv{n}(rv{n}) .. rv{n}[1]\n", gen_type(rng, depth));
            }
            let t = gen_type(rng, 3).replace("T...", "integer").replace('T', "integer");
            let n = rng.range(2, 6);
            usage(rng, &mut ctr, &mut s, &t, n);
        }
        _ => {
            sub = "box-usage";
            for t in ["Box<integer>", "Box<Box<string>>", "Box<Box>", "Box", "Box<integer, string>", "Box<T>", "Box<Box<Box<Box<Box<integer>>>>>"] {
                if rng.chance(1, 2) {
                    let n = rng.range(3, 10);
                    usage(rng, &mut ctr, &mut s, t, n);
                }
            }
            ctr.0 += 1;
            let t = rng.pick(GENERIC_SNIPS).replace("$n", &ctr.0.to_string());
            w!(s, "{t}\n");
        }
    }
    single(sub, depth, s)
}

// ---- d. deep nesting
struct DeepKind {
    name: &'static str,
    max: usize,
}
/// `max` values stay below what the parser alone survives on a 2 MiB stack (see `c12 limits`)
const DEEP: &[DeepKind] = &[
    DeepKind { name: "table", max: 120 },
    DeepKind { name: "table-field", max: 120 },
    DeepKind { name: "call", max: 120 },
    DeepKind { name: "paren", max: 120 },
    DeepKind { name: "binary-left", max: 2000 },
    DeepKind { name: "binary-right", max: 120 },
    DeepKind { name: "unary", max: 120 },
    DeepKind { name: "index-chain", max: 500 },
    DeepKind { name: "call-chain", max: 500 },
    DeepKind { name: "method-chain", max: 500 },
    DeepKind { name: "closure", max: 100 },
    DeepKind { name: "block", max: 100 },
    DeepKind { name: "if-nest", max: 100 },
    DeepKind { name: "elseif-chain", max: 400 },
    DeepKind { name: "and-or", max: 1000 },
    DeepKind { name: "concat-strings", max: 120 },
    DeepKind { name: "loop-nest", max: 100 },
    DeepKind { name: "type-array", max: 120 },
    DeepKind { name: "type-paren", max: 120 },
    DeepKind { name: "type-tuple", max: 120 },
    DeepKind { name: "type-object", max: 120 },
    DeepKind { name: "type-fun-ret", max: 120 },
    DeepKind { name: "type-fun-param", max: 120 },
    DeepKind { name: "type-generic", max: 120 },
    DeepKind { name: "type-table", max: 120 },
    DeepKind { name: "type-union-nest", max: 120 },
    DeepKind { name: "type-union-wide", max: 1000 },
    DeepKind { name: "type-optional", max: 120 },
    DeepKind { name: "assign-chain", max: 400 },
    DeepKind { name: "return-chain", max: 300 },
];

fn rep(a: &str, n: usize) -> String {
    a.repeat(n)
}

fn deep_text(kind: &str, d: usize, rng: &mut Rng) -> String {
    let mut s = String::new();
    let ty_use = |s: &mut String, t: String| {
        w!(s, "---@class DBox<T>\n---@field f T\n\n---@type {t}\nlocal dv\nlocal _1 = dv.f\nlocal _2 = dv[1]\nlocal _3 = dv()\n---@param p {t}\n---@return {t}\nlocal function df(p) return p end\nlocal _4 = df(dv)\ndv = _4");
    };
    match kind {
        "table" => w!(s, "local t = {}1{}\nlocal u = t{}", rep("{", d), rep("}", d), rep("[1]", d.min(60))),
        "table-field" => w!(s, "local t = {}1{}\nlocal u = t{}", rep("{ a = ", d), rep(" }", d), rep(".a", d)),
        "call" => w!(s, "---@generic T\n---@param x T\n---@return T\nlocal function f(x) return x end\nlocal r = {}1{}", rep("f(", d), rep(")", d)),
        "paren" => w!(s, "local a = 1\nlocal r = {}a{} + 1", rep("(", d), rep(")", d)),
        "binary-left" => {
            let op = *rng.pick(&[" + ", " .. ", " == ", " * ", " // ", " & "]);
            w!(s, "local a = {}\nlocal r = a{}", *rng.pick(&["1", "'s'", "{}", "nil"]), rep(&format!("{op}a"), d))
        }
        "binary-right" => {
            let op = *rng.pick(&[" .. ", " ^ "]);
            w!(s, "local a = 2\nlocal r = a{}", rep(&format!("{op}a"), d))
        }
        "unary" => w!(s, "local a = 1\nlocal r = {}a\nlocal q = {}a", rep("- ", d), rep("not ", d)),
        "index-chain" => w!(s, "---@class IC\n---@field b IC\n---@field c integer\n\n---@type IC\nlocal a\nlocal r = a{}.c\nlocal t = {{}}\nt{} = 1", rep(".b", d), rep(".x", d.min(200))),
        "call-chain" => w!(s, "---@alias CC fun(): CC\n---@type CC\nlocal a\nlocal r = a{}", rep("()", d)),
        "method-chain" => w!(s, "---@class MC\nlocal MC = {{}}\n---@return MC\nfunction MC:m() return self end\nlocal r = MC{}", rep(":m()", d)),
        "closure" => w!(s, "local up = 1\nlocal f = {}up{}\nlocal r = f{}", rep("function(a) up = a; return ", d), rep(" end", d), rep("(1)", d)),
        "block" => w!(s, "local x = 1\n{}x = 's'{}\nlocal y = x", rep("do local x = x\n", d), rep("\nend", d)),
        "if-nest" => w!(s, "---@type string|number|nil\nlocal x\n{}x = 1{}\nlocal y = x", rep("if type(x) == 'string' then x = nil else\n", d), rep("\nend", d)),
        "elseif-chain" => {
            w!(s, "---@type string|number|nil|boolean|table\nlocal x\nif x == nil then x = 0");
            for i in 0..d {
                let c = *rng.pick(&["type(x) == 'string'", "type(x) == 'number'", "x == true", "not x", "type(x) == 'table'", "x"]);
                w!(s, "elseif {c} and x ~= {i} then x = {}", *rng.pick(&["'s'", "1", "nil", "{}", "x", "#x"]));
            }
            w!(s, "else x = nil end\nlocal y = x");
        }
        "and-or" => w!(s, "---@type string?\nlocal a\n---@type integer?\nlocal b\nlocal r = a{}", rep(*rng.pick(&[" and b or a", " or b", " and a"]), d)),
        "concat-strings" => w!(s, "local r = 'a'{}", rep(" .. 'b' .. 1", d)),
        "loop-nest" => w!(s, "local t = {{}}\n{}t = t[1]{}\nlocal r = t", rep("for i, v in ipairs(t) do while v do repeat local t = v\n", d), rep("\nuntil t end end", d)),
        "type-array" => ty_use(&mut s, format!("integer{}", rep("[]", d))),
        "type-paren" => ty_use(&mut s, format!("{}integer{}", rep("(", d), rep(")", d))),
        "type-tuple" => ty_use(&mut s, format!("{}integer{}", rep("[", d), rep("]", d))),
        "type-object" => ty_use(&mut s, format!("{}integer{}", rep("{ f: ", d), rep(" }", d))),
        "type-fun-ret" => ty_use(&mut s, format!("{}integer", rep("fun(): ", d))),
        "type-fun-param" => ty_use(&mut s, format!("{}integer{}", rep("fun(a: ", d), rep(")", d))),
        "type-generic" => ty_use(&mut s, format!("{}integer{}", rep("DBox<", d), rep(">", d))),
        "type-table" => ty_use(&mut s, format!("{}integer{}", rep("table<string, ", d), rep(">", d))),
        "type-union-nest" => ty_use(&mut s, format!("{}integer{}", rep("(string | ", d), rep(")", d))),
        "type-union-wide" => ty_use(&mut s, (0..d).map(|i| format!("\"k{i}\"")).collect::<Vec<_>>().join(" | ")),
        "type-optional" => ty_use(&mut s, format!("integer{}", rep("?", d))),
        "assign-chain" => {
            w!(s, "local x0 = {}", *rng.pick(&["1", "{ f = 1 }", "function() return 1 end", "nil"]));
            for i in 1..=d {
                w!(s, "local x{i} = x{}", i - 1);
            }
            w!(s, "local r = x{d}");
        }
        _ => {
            // return-chain: f_i returns f_{i+1}(), declared in reverse so every call is a forward reference
            for i in 0..d {
                w!(s, "local function rc{i}() return rc{}() end", i + 1);
            }
            w!(s, "function rc{d}() return rc0() end\nlocal r = rc0()");
        }
    }
    s
}

fn fam_deep(rng: &mut Rng) -> Gen {
    let k = &DEEP[rng.below(DEEP.len())];
    let d = pick_depth(rng, k.max);
    let mut s = deep_text(k.name, d, rng);
    if rng.chance(1, 4) {
        let k2 = &DEEP[rng.below(DEEP.len())];
        let d2 = pick_depth(rng, k2.max.min(60));
        s = format!("do\n{}\nend\ndo\n{}\nend\n", s, deep_text(k2.name, d2, rng));
    }
    single(k.name, d, s)
}

// ---- e. flow / narrowing stress
const FLOW_SNIPS: &[&str] = &[
    "local x$n = nil\nfor i = 1, 10 do\n  if x$n then x$n = x$n.next else x$n = { next = x$n } end\nend\nlocal y$n = x$n",
    "local a$n, b$n = 1, 's'\nwhile true do\n  a$n, b$n = b$n, a$n\n  if type(a$n) == 'string' then break end\nend\nlocal _$n = a$n .. b$n",
    "local t$n = {}\nrepeat\n  local done = t$n.done\n  t$n = t$n.next or {}\nuntil done or t$n.x",
    "local n$n = 0\n::top$n::\nif n$n then n$n = n$n + 1 goto top$n end\ngoto bottom$n\nlocal skipped$n = n$n\n::bottom$n::",
    "local up$n = 1\nlocal function inc$n() up$n = up$n .. 's'; return up$n end\nup$n = inc$n\nlocal r$n = up$n()\nup$n = { inc = inc$n }\nlocal f$n = function() return up$n.inc, up$n end\nlocal _$n = f$n()()",
    "local ok$n, err$n = pcall(function() error({ code = 1 }) end)\nif not ok$n then local c = err$n.code end\nlocal cnt$n = select('#', ...)\nlocal first$n = select(1, ...)\nlocal last$n = select(-1, ...)",
    "local mt$n = setmetatable({}, { __index = function(t, k) return t[k] end, __call = function(self) return self end })\nlocal v$n = mt$n.foo.bar\nlocal w$n = mt$n()()",
    "local pa$n = setmetatable({}, { __index = pb$n })\npb$n = setmetatable({}, { __index = pa$n })\nlocal _$n = pa$n.x.y + pb$n.z",
    "---@type string|number|nil|boolean|table|fun()\nlocal u$n\nif type(u$n) == 'string' then u$n = #u$n elseif type(u$n) == 'number' then u$n = tostring(u$n) elseif not u$n then u$n = {} elseif u$n == true then u$n = nil else u$n = u$n end\n---@cast u$n +string, -nil\nlocal z$n = u$n --[[@as integer]]",
    "local a$n = b$n\nlocal b$n = a$n\na$n = b$n; b$n = a$n\nlocal function f$n() return g$n() end\nfunction g$n() return f$n() end\nlocal t$n = {}; t$n.t = t$n; t$n.f = function() return t$n.f() end\nlocal r$n = t$n.t.t.t.t.f()",
    "local function fa$n(x) if x then return fb$n(x - 1) end return x end\nfunction fb$n(x) return fa$n(x), fb$n end\nlocal p$n, q$n = fb$n(3)\nlocal s$n = q$n(p$n)",
    "local v$n = assert(tonumber('1'))\nlocal w$n = assert(v$n, 'msg')\nlocal e$n = error\nlocal function never$n() e$n('x') end\nlocal nv$n = never$n()\nif not nv$n then return end\nlocal after$n = nv$n.x",
    "---@diagnostic disable-next-line: undefined-global\nlocal g$n = undefined_global_$n.x.y\n---@diagnostic disable: unused\nlocal unused$n = 1\n---@diagnostic enable: unused\n---@diagnostic disable-next-line\nlocal h$n = undefined_global_$n()",
    "local x$n ---@type integer|string\nx$n = 1\nlocal c$n = function() x$n = 's' end\nc$n()\nif x$n == 1 then x$n = nil end\nwhile x$n do x$n = x$n and x$n.f end\nlocal y$n = x$n",
    "local obj$n = {}\nfunction obj$n:init() self.a = self.b; self.b = self.c; self.c = self.a; return self end\nfunction obj$n.new() return setmetatable({}, { __index = obj$n }):init() end\nlocal o$n = obj$n.new().a.b.c",
    "for i$n = 1, 3 do\n  for k$n, v$n in pairs({ i$n }) do\n    if v$n == k$n then goto cont$n end\n    i$n = v$n\n    ::cont$n::\n  end\nend",
    "local function co$n() local x = coroutine.yield(1); return x end\nlocal th$n = coroutine.wrap(co$n)\nlocal r$n = th$n(th$n)\nlocal s$n = string.format('%s', r$n):rep(2):upper()\nlocal l$n = ('x'):len() + #s$n",
    "local t$n = { 1, 's', { 2 }, n = { m = {} } }\nt$n[#t$n + 1] = t$n\nt$n.n.m.t = t$n\nlocal a$n, b$n, c$n = table.unpack(t$n)\nlocal d$n = t$n[3][1] + t$n.n.m.t[1]\nfor _, v in ipairs(t$n) do t$n = v end",
    "---@param x integer|string|nil\n---@return integer\n---@return string?\nlocal function two$n(x) if x then return 1, 's' end return 2 end\nlocal r1$n, r2$n, r3$n = two$n(two$n(two$n()))\nlocal pk$n = { two$n() }\nlocal u$n = (two$n())",
    "---@return_cast x string\nlocal function isstr$n(x) return type(x) == 'string' end\n---@type string|integer\nlocal sv$n\nif isstr$n(sv$n) then local _ = sv$n:len() else local _ = sv$n + 1 end",
    "local x$n <const> = 1\nlocal y$n <close> = nil\nx$n = 2\nlocal z$n <foo> = x$n",
    "local s$n = 0\nfor i = 1, 3 do s$n = s$n + i; if s$n > 2 then s$n = tostring(s$n) end end\nlocal t$n = s$n",
];

fn fam_flow(rng: &mut Rng) -> Gen {
    let mut ctr = Ctr(0);
    let mut snips = |rng: &mut Rng, n: usize| -> String {
        let mut s = String::new();
        for _ in 0..n {
            ctr.0 += 1;
            let t = rng.pick(FLOW_SNIPS).replace("$n", &ctr.0.to_string());
            match rng.below(5) {
                0 => w!(s, "do\n{t}\nend"),
                1 => w!(s, "local function wrap{}(...)\n{t}\nend", ctr.0),
                2 => w!(s, "if cond{} then\n{t}\nelse\n{t}\nend", ctr.0),
                _ => w!(s, "{t}"),
            }
        }
        s
    };
    match rng.below(4) {
        0 => {
            let n = rng.range(3, 10);
            let body = snips(rng, n);
            single("snippets", 0, body)
        }
        1 => {
            // module cycle a <-> b (<-> c)
            let k = rng.range(2, 4);
            let names: Vec<String> = (0..k).map(|i| format!("mod{i}")).collect();
            let mut files = Vec::new();
            for i in 0..k {
                let nx = &names[(i + 1) % k];
                let mut s = String::new();
                if rng.chance(1, 4) {
                    w!(s, "---@meta {}", if rng.chance(1, 2) { names[i].as_str() } else { "" });
                }
                w!(s, "local nx = require('{nx}')\nlocal M = {{}}\nM.next = nx\nM.val = nx.val\nfunction M.f() return nx.f() end\nfunction M:g() return nx.g(self), M end");
                if rng.chance(1, 2) {
                    w!(s, "---@module '{}'\nlocal lazy\nM.lazy = lazy.next.next.val", names[rng.below(k)]);
                }
                if rng.chance(1, 2) {
                    w!(s, "---@class {}: {}\n---@field next {}", names[i], nx, nx);
                }
                let n = rng.below(3);
                s.push_str(&snips(rng, n));
                match rng.below(4) {
                    0 => w!(s, "return nx"),
                    1 => w!(s, "return require('{}')", names[i]),
                    2 => w!(s, "return {{ M = M, nx = nx, f = M.f() }}"),
                    _ => w!(s, "return M"),
                }
                files.push((format!("{}.lua", names[i]), s));
            }
            let mut u = String::new();
            w!(u, "local m = require('mod0')\nlocal a = m.next.next.next.next.val\nlocal b = m.f()\nlocal c = m:g()\nlocal d = require('nonexistent').x\nlocal e = require(m)\nlocal f = import and import('mod1').next");
            files.push(("use.lua".into(), u));
            Gen { files, sub: "module-cycle".into(), depth: k }
        }
        2 => {
            // globals that reference each other across files
            let k = rng.range(2, 4);
            let mut files = Vec::new();
            for i in 0..k {
                let j = (i + 1) % k;
                let mut s = String::new();
                w!(s, "G{i} = G{j}\nfunction F{i}(...) return F{j}(...) end\nT{i} = {{ next = T{j}, f = F{j}, v = G{i} }}\nT{i}.self = T{i}.next.next\nlocal x = F{i}()\nlocal y = T{i}.next.next.next.f().v\nG{i} = G{i} or T{j} or x");
                let n = rng.below(3);
                s.push_str(&snips(rng, n));
                files.push((format!("g{i}.lua"), s));
            }
            Gen { files, sub: "global-cycle".into(), depth: k }
        }
        _ => {
            let mut s = String::new();
            if rng.chance(1, 2) {
                w!(s, "---@meta");
            }
            let al = *rng.pick(&["Cls | NS.Inner.Al", "Cls | string", "Cls[]", "NS.Inner.Cls?", "fun(): NS.Inner.Al"]);
            w!(s, "---@namespace NS.Inner\n---@class Cls: NS.Inner.Cls\n---@field f Cls\n---@alias Al {al}\n");
            let mut t = String::new();
            w!(t, "---@using NS.Inner\n---@type Cls\nlocal c\nlocal d = c.f.f.f\n---@type NS.Inner.Al\nlocal e\n---@cast e +Cls, -nil\nlocal f = e --[[@as Al]]\n---@namespace NS\n---@using NS\n---@type Inner.Cls\nlocal g = c");
            let n = rng.range(1, 4);
            t.push_str(&snips(rng, n));
            Gen { files: vec![("ns.lua".into(), s), ("use.lua".into(), t)], sub: "namespace".into(), depth: 0 }
        }
    }
}

// ---- f. mutations of std library files
const STD_REDEF: &[&str] = &[
    "---@alias string string[]",
    "---@class table: table",
    "---@alias integer integer|number",
    "---@class number: integer",
    "---@class string: stringlib",
    "---@class stringlib: string",
    "---@alias any any[]",
    "---@alias nil nil|nil",
    "---@class function: function",
    "---@alias boolean boolean?",
    "---@class self: self",
    "---@alias std.NotNull<T> std.NotNull<T>",
    "---@alias Partial<T> Partial<Partial<T>>",
    "---@class unknown: never",
    "---@alias table<K, V> table<V, K>",
];

fn std_files() -> Vec<(String, String)> {
    let mut v: Vec<(String, String)> = load_resource_from_include_dir().into_iter().filter(|f| f.path.ends_with(".lua")).map(|f| (f.path, f.content)).collect();
    v.sort();
    v
}

fn idents(text: &str) -> Vec<String> {
    let mut out = Vec::new();
    let mut cur = String::new();
    for c in text.chars() {
        if c.is_ascii_alphanumeric() || c == '_' {
            cur.push(c);
        } else {
            if cur.len() > 1 && !cur.chars().next().map(|c| c.is_ascii_digit()).unwrap_or(true) {
                out.push(std::mem::take(&mut cur));
            }
            cur.clear();
        }
        if out.len() > 400 {
            break;
        }
    }
    out
}

fn mutate_lines(rng: &mut Rng, lines: &mut Vec<String>, n: usize, ids: &[String]) {
    for _ in 0..n {
        if lines.is_empty() {
            return;
        }
        let i = rng.below(lines.len());
        match rng.below(9) {
            0 => {
                lines.remove(i);
            }
            1 => {
                let l = lines[i].clone();
                lines.insert(i, l);
            }
            2 => {
                let j = rng.below(lines.len());
                lines.swap(i, j);
            }
            3 => {
                // drop one char
                let cs: Vec<char> = lines[i].chars().collect();
                if !cs.is_empty() {
                    let k = rng.below(cs.len());
                    lines[i] = cs.iter().enumerate().filter(|(x, _)| *x != k).map(|(_, c)| *c).collect();
                }
            }
            4 => {
                // replace an identifier by another one
                if !ids.is_empty() {
                    let from = rng.pick(ids).clone();
                    let to = rng.pick(ids).clone();
                    lines[i] = lines[i].replacen(&from, &to, 1);
                    let j = rng.below(lines.len());
                    lines[j] = lines[j].replacen(&from, &to, 1);
                }
            }
            5 => {
                // truncate in the middle
                let cs: Vec<char> = lines[i].chars().collect();
                let k = rng.below(cs.len() + 1);
                lines[i] = cs[..k].iter().collect();
            }
            6 => lines.insert(i, rng.pick(STD_REDEF).to_string()),
            7 => {
                let t = *rng.pick(&["<", ">", "(", ")", "[", "]", "{", "}", "|", "?", ":", ",", "fun(", "---@", "...", "`", "\"", "--[[", "]]", "end", "function"]);
                let cs: Vec<char> = lines[i].chars().collect();
                let k = rng.below(cs.len() + 1);
                let mut l: String = cs[..k].iter().collect();
                l.push_str(t);
                l.extend(cs[k..].iter());
                lines[i] = l;
            }
            _ => {
                // join with the next line
                if i + 1 < lines.len() {
                    let nx = lines.remove(i + 1);
                    lines[i].push(' ');
                    lines[i].push_str(&nx);
                }
            }
        }
    }
}

fn fam_stdmut(rng: &mut Rng) -> Gen {
    let std = std_files();
    if std.is_empty() {
        return single("no-std", 0, "local x = 1\n".into());
    }
    let (path, text) = rng.pick(&std).clone();
    let all: Vec<&str> = text.lines().collect();
    let win = rng.range(20, 200).min(all.len());
    let start = rng.below(all.len() - win + 1);
    let mut lines: Vec<String> = all[start..start + win].iter().map(|s| s.to_string()).collect();
    let ids = idents(&lines.join("\n"));
    let n = rng.range(1, 12);
    mutate_lines(rng, &mut lines, n, &ids);
    let mut s = String::new();
    if rng.chance(1, 3) {
        w!(s, "---@meta");
    }
    for l in &lines {
        w!(s, "{l}");
    }
    let mut ctr = Ctr(0);
    if rng.chance(1, 2) {
        let t = *rng.pick(&["string", "table", "integer", "number", "function", "any", "stringlib", "std.NotNull<string>", "Partial<table>"]);
        let k = rng.range(2, 6);
        usage(rng, &mut ctr, &mut s, t, k);
        w!(s, "local s1 = ('x'):rep(2):sub(1)\nlocal s2 = string.format('%d', 1):len()\nlocal s3 = table.concat({{}}, ','):upper()\nlocal s4 = math.floor(1.5) + #s1");
    }
    let name = path.rsplit('/').next().unwrap_or("std.lua").to_string();
    Gen { files: vec![(name.clone(), s)], sub: format!("std:{}", name.trim_end_matches(".lua")), depth: 0 }
}

// ---- g. malformed stream
const SOUP: &[&str] = &[
    "---@", "---@class ", "---@alias ", "---@type ", "---@param ", "---@return ", "---@generic ", "---@field ", "---@cast ", "---@overload ",
    "---@operator ", "---@enum ", "---@as ", "--[[@as ", "]]", "---@diagnostic ", "---@see ", "---@module ", "---@meta", "---@namespace ", "---@using ",
    "---|", "--- ", "-- ", "--[[", "--[==[", "]==]", "<", ">", "fun(", "fun", "|", "&", "[", "]", "{", "}", "(", ")", ",", ":", "::", ";", ".", "..", "...", "?", "=", "==", "~=",
    "+", "-", "*", "/", "//", "%", "^", "#", "~", "<<", ">>", "<=", ">=", "`", "@", "\\", "!", "$",
    "local ", "function ", "end ", "if ", "then ", "else ", "elseif ", "for ", "in ", "do ", "while ", "repeat ", "until ", "return ", "break ", "goto ", "and ", "or ", "not ",
    "nil ", "true ", "false ", "self", "A", "B", "T", "K", "x", "y", "f", "Box", "string", "integer", "table", "any", "keyof ", "extends ", "infer ", "new ", "readonly ",
    "0", "1", "42", "0x", "0xFFp", "1e", "1e+309", "3.", ".5", "1..2", "9223372036854775808", "0b12",
    "'s'", "\"d\"", "'unterminated", "\"unterminated", "[[long]]", "[==[long", "'\\z'", "'\\u{110000}'", "'\\xZZ'", "\"\\", "é", "中文", "😀", "\u{feff}", "\u{a0}", "\u{2028}",
    " ", " ", "\t", "\n", "\n", "\r\n", "\r",
];

fn fam_soup(rng: &mut Rng) -> Gen {
    let n = if rng.chance(1, 10) { rng.range(400, 1500) } else { rng.range(5, 300) };
    let mut s = String::new();
    let mode = rng.below(4);
    for _ in 0..n {
        match mode {
            0 if rng.chance(1, 2) => s.push_str(*rng.pick(&SOUP[..22])),
            1 if rng.chance(1, 2) => s.push_str(*rng.pick(&["(", "{", "[", "<", "fun(", "function ", "do ", "if ", "then ", "--[[", "'"])),
            _ => s.push_str(*rng.pick(SOUP)),
        }
    }
    if mode == 2 {
        s = s.replace('\n', "\r\n");
    }
    single(["doc-heavy", "unbalanced", "crlf", "uniform"][mode], 0, s)
}

// ---- mix: several families in one workspace
fn fam_mix(rng: &mut Rng) -> Gen {
    let mut files = Vec::new();
    let mut subs = Vec::new();
    let mut depth = 0;
    for i in 0..rng.range(2, 4) {
        let g = match rng.below(6) {
            0 => fam_class(rng),
            1 => fam_alias(rng),
            2 => fam_generic(rng),
            3 => fam_flow(rng),
            4 => fam_soup(rng),
            _ => fam_deep(rng),
        };
        if g.depth >= 1000 {
            continue;
        }
        depth = depth.max(g.depth);
        subs.push(g.sub);
        for (n, t) in g.files {
            files.push((format!("m{i}_{n}"), t));
        }
    }
    if files.is_empty() {
        files.push(("main.lua".into(), "local x = 1\n".into()));
    }
    Gen { files, sub: "mix".into(), depth }
}

const FAMILIES: &[(&str, usize)] = &[("class", 18), ("alias", 16), ("generic", 18), ("deep", 16), ("flow", 12), ("stdmut", 7), ("soup", 7), ("mix", 6)];

fn gen_case(seed: u64, i: usize) -> Case {
    let mut rng = case_rng(seed, i);
    let total: usize = FAMILIES.iter().map(|f| f.1).sum();
    let mut r = rng.below(total);
    let mut fam = FAMILIES[0].0;
    for (n, wgt) in FAMILIES {
        if r < *wgt {
            fam = n;
            break;
        }
        r -= wgt;
    }
    let mut g = match fam {
        "class" => fam_class(&mut rng),
        "alias" => fam_alias(&mut rng),
        "generic" => fam_generic(&mut rng),
        "deep" => fam_deep(&mut rng),
        "flow" => fam_flow(&mut rng),
        "stdmut" => fam_stdmut(&mut rng),
        "soup" => fam_soup(&mut rng),
        _ => fam_mix(&mut rng),
    };
    let cfg = gen_cfg(&mut rng);
    let std = if fam == "stdmut" { rng.chance(1, 3) } else { rng.chance(1, 8) };
    let mut mutated = false;
    if fam != "soup" && fam != "stdmut" && fam != "deep" && rng.chance(1, 6) {
        mutated = true;
        for f in g.files.iter_mut() {
            let mut lines: Vec<String> = f.1.lines().map(|s| s.to_string()).collect();
            let ids = idents(&f.1);
            let n = rng.range(1, 4);
            mutate_lines(&mut rng, &mut lines, n, &ids);
            f.1 = lines.join("\n") + "\n";
        }
    }
    if rng.chance(1, 12) {
        for f in g.files.iter_mut() {
            f.1 = f.1.replace('\n', "\r\n");
        }
    }
    Case {
        files: g.files,
        cfg,
        family: format!("{fam}:{}", g.sub),
        opts: Opts { std, batch: rng.chance(1, 2), all_diag: rng.chance(1, 2), depth: g.depth, mutated },
        minimal: false,
        sig_hint: None,
    }
}

fn load_corpus(dir: &str) -> Vec<Case> {
    let mut out = Vec::new();
    if let Ok(rd) = std::fs::read_dir(dir) {
        let mut ps: Vec<_> = rd.filter_map(|e| e.ok()).map(|e| e.path()).filter(|p| p.extension().map(|x| x == "json").unwrap_or(false)).collect();
        ps.sort();
        for p in ps {
            match std::fs::read_to_string(&p).ok().and_then(|s| serde_json::from_str::<Value>(&s).ok()) {
                Some(v) => {
                    let mut c = Case::from_json(&v);
                    if v["family"].is_null() {
                        c.family = format!("corpus:{}", p.file_stem().and_then(|s| s.to_str()).unwrap_or("?"));
                    }
                    out.push(c);
                }
                None => eprintln!("c12: unreadable corpus file {}", p.display()),
            }
        }
    }
    out
}

/// case `i` of a run: corpus first, then generated ones
fn case_at(corpus: &[Case], seed: u64, i: usize) -> Case {
    if i < corpus.len() { corpus[i].clone() } else { gen_case(seed, i - corpus.len()) }
}

// ------------------------------------------------------------------ parent side: children, attribution, shrinking

#[derive(Clone, Debug, PartialEq)]
enum Outcome {
    Ok,
    Panic { msg: String, loc: String },
    Signal { sig: i32, code: i32, cause: String }, // cause: stack-overflow | alloc-failure | unknown
    Timeout,
}

impl Outcome {
    fn kind(&self) -> &'static str {
        match self {
            Outcome::Ok => "ok",
            Outcome::Panic { .. } => "panic",
            Outcome::Signal { .. } => "signal",
            Outcome::Timeout => "timeout",
        }
    }
    /// same failure class (what the shrinker must preserve)
    fn same_class(&self, o: &Outcome) -> bool {
        match (self, o) {
            (Outcome::Panic { loc: a, .. }, Outcome::Panic { loc: b, .. }) => a == b,
            (Outcome::Signal { sig: a, code: ca, cause: x }, Outcome::Signal { sig: b, code: cb, cause: y }) => a == b && ca == cb && (x == y || x == "unknown" || y == "unknown"),
            (Outcome::Timeout, Outcome::Timeout) => true,
            _ => false,
        }
    }
}

#[derive(Clone)]
struct Ctx {
    exe: PathBuf,
    seed: u64,
    case_ms: u64,
    stack_kib: usize,
    mem_mib: usize,
    corpus_dir: String,
}

impl Ctx {
    fn command(&self, args: &[String]) -> Command {
        let mut c;
        if self.mem_mib > 0 {
            c = Command::new("sh");
            c.arg("-c").arg(format!("ulimit -c 0; ulimit -v {}; exec \"$0\" \"$@\"", self.mem_mib * 1024)).arg(&self.exe);
        } else {
            c = Command::new(&self.exe);
        }
        // no backtrace capture in children: symbolising the first panic costs seconds of CPU on a loaded machine
        c.args(args).env("RUST_BACKTRACE", "0").stdin(Stdio::null()).stdout(Stdio::piped()).stderr(Stdio::piped());
        c
    }
}

struct Running {
    child: Child,
    rx: Receiver<String>,
    err: Arc<Mutex<Vec<u8>>>,
    err_thread: Option<std::thread::JoinHandle<()>>,
}

fn start(ctx: &Ctx, args: &[String]) -> Running {
    let mut child = ctx.command(args).spawn().expect("spawn child");
    let out = child.stdout.take().expect("stdout");
    let mut errp = child.stderr.take().expect("stderr");
    let (tx, rx) = channel();
    std::thread::spawn(move || {
        for l in BufReader::new(out).lines() {
            match l {
                Ok(l) => {
                    if tx.send(l).is_err() {
                        break;
                    }
                }
                Err(_) => break,
            }
        }
    });
    let err = Arc::new(Mutex::new(Vec::new()));
    let e2 = err.clone();
    let err_thread = std::thread::spawn(move || {
        let mut buf = [0u8; 4096];
        while let Ok(n) = errp.read(&mut buf) {
            if n == 0 {
                break;
            }
            if let Ok(mut g) = e2.lock() {
                g.extend_from_slice(&buf[..n]);
                if g.len() > 8192 {
                    let cut = g.len() - 4096;
                    g.drain(..cut);
                }
            }
        }
    });
    Running { child, rx, err, err_thread: Some(err_thread) }
}

fn reap(child: &mut Child, ms: u64) -> Option<std::process::ExitStatus> {
    let t0 = Instant::now();
    loop {
        match child.try_wait() {
            Ok(Some(st)) => return Some(st),
            Ok(None) => {
                if t0.elapsed() > Duration::from_millis(ms) {
                    let _ = child.kill();
                    return child.wait().ok();
                }
                std::thread::sleep(Duration::from_millis(3));
            }
            Err(_) => return None,
        }
    }
}

fn death(st: Option<std::process::ExitStatus>, r: &mut Running) -> Outcome {
    // the child is gone, so its stderr reaches EOF: wait for the reader to have all of it
    if let Some(h) = r.err_thread.take() {
        let _ = h.join();
    }
    let err = &r.err;
    let tail = err.lock().map(|g| String::from_utf8_lossy(&g).to_string()).unwrap_or_default();
    let cause = if tail.contains("overflowed its stack") {
        "stack-overflow"
    } else if tail.contains("memory allocation of") || tail.contains("capacity overflow") {
        "alloc-failure"
    } else {
        "unknown"
    };
    let (sig, code) = match st {
        Some(s) => (s.signal().unwrap_or(0), s.code().unwrap_or(-1)),
        None => (0, -1),
    };
    Outcome::Signal { sig, code, cause: cause.into() }
}

static TMP_CTR: AtomicUsize = AtomicUsize::new(0);

fn tmp_case_file(case: &Case) -> PathBuf {
    let p = std::env::temp_dir().join(format!("c12-{}-{}.json", std::process::id(), TMP_CTR.fetch_add(1, Ordering::SeqCst)));
    let _ = std::fs::write(&p, case.to_json().to_string());
    p
}

/// run one case in a child (`one` or `parse-only`), with a wall-clock budget
fn probe(ctx: &Ctx, mode: &str, case: &Case, budget_ms: u64) -> Outcome {
    let p = tmp_case_file(case);
    let args = vec![mode.to_string(), "--case-file".into(), p.display().to_string(), "--stack-kib".into(), ctx.stack_kib.to_string()];
    let mut r = start(ctx, &args);
    let started = Instant::now();
    let mut deadline = started + Duration::from_millis(budget_ms);
    let pid = r.child.id().to_string();
    let mut last: Option<Value> = None;
    let out = loop {
        let now = Instant::now();
        let ev = if now >= deadline { Err(RecvTimeoutError::Timeout) } else { r.rx.recv_timeout(deadline - now) };
        if let Err(RecvTimeoutError::Timeout) = ev {
            // wall clock exceeded: only a real timeout when the CPU budget is used up too (or 15x wall)
            if let Some(used) = cpu_ms(&pid) {
                if used < budget_ms && started.elapsed() < Duration::from_millis(budget_ms * 15) {
                    deadline = Instant::now() + Duration::from_millis((budget_ms - used).max(200));
                    continue;
                }
            }
        }
        match ev {
            Ok(l) => {
                if let Ok(v) = serde_json::from_str::<Value>(&l) {
                    if !v["end"].is_null() {
                        last = Some(v);
                    }
                }
            }
            Err(RecvTimeoutError::Timeout) => {
                let _ = r.child.kill();
                let _ = r.child.wait();
                break Outcome::Timeout;
            }
            Err(RecvTimeoutError::Disconnected) => {
                let st = reap(&mut r.child, 30_000);
                break match (&last, st) {
                    (Some(v), _) if v["panic"].is_string() => Outcome::Panic {
                        msg: v["panic"].as_str().unwrap_or("").to_string(),
                        loc: short_loc(v["loc"].as_str().unwrap_or("?")),
                    },
                    (Some(_), Some(s)) if s.success() => Outcome::Ok,
                    (_, st) => death(st, &mut r),
                };
            }
        }
    };
    let _ = std::fs::remove_file(&p);
    out
}

#[derive(Default)]
struct Stats {
    cases: usize,
    max_ms: u64,
    sum_ms: u64,
    tokens: u64,
    exprs: u64,
    diags: u64,
    infos: u64,
    slowest: Option<(u64, usize)>,
}

struct Fail {
    idx: usize,
    outcome: Outcome,
}

/// run cases [from, to) in child processes; every failure is attributed to the in-flight case
fn run_range(ctx: &Ctx, from: usize, to: usize, stats: &Mutex<Stats>, on_fail: &(dyn Fn(Fail) + Sync), stop: &AtomicUsize, cap: usize, run_deadline: Option<Instant>) {
    let mut next = from;
    let past = |d: Option<Instant>| d.map(|d| Instant::now() >= d).unwrap_or(false);
    while next < to && stop.load(Ordering::SeqCst) < cap && !past(run_deadline) {
        let args: Vec<String> = vec![
            "batch".into(), "--seed".into(), ctx.seed.to_string(), "--from".into(), next.to_string(), "--to".into(), to.to_string(),
            "--stack-kib".into(), ctx.stack_kib.to_string(), "--corpus".into(), ctx.corpus_dir.clone(),
        ];
        let mut r = start(ctx, &args);
        let batch_deadline = Instant::now() + Duration::from_millis((ctx.case_ms * 15 * (to - next) as u64 + 20_000).min(3_600_000));
        let pid = r.child.id().to_string();
        let mut inflight: Option<(usize, Instant, u64, Instant)> = None; // index, start, cpu at start, deadline
        let mut last_event = Instant::now();
        let idle_ms = ctx.case_ms.max(15_000);
        let push = |idx: usize, outcome: Outcome| on_fail(Fail { idx, outcome });
        loop {
            let dl = match inflight {
                Some((_, _, _, d)) => d,
                None => (last_event + Duration::from_millis(idle_ms)).min(batch_deadline),
            };
            let now = Instant::now();
            let ev = if dl <= now { Err(RecvTimeoutError::Timeout) } else { r.rx.recv_timeout(dl - now) };
            if let (Err(RecvTimeoutError::Timeout), Some((i, t0, c0, _))) = (&ev, inflight) {
                // wall clock exceeded: a timeout only when the case also used its CPU budget (or 15x wall)
                if let Some(c) = cpu_ms(&pid) {
                    let used = c.saturating_sub(c0);
                    if used < ctx.case_ms && t0.elapsed() < Duration::from_millis(ctx.case_ms * 15) {
                        inflight = Some((i, t0, c0, Instant::now() + Duration::from_millis((ctx.case_ms - used).max(200))));
                        continue;
                    }
                }
            }
            match ev {
                Ok(l) => {
                    last_event = Instant::now();
                    let Ok(v) = serde_json::from_str::<Value>(&l) else { continue };
                    if let Some(i) = v["begin"].as_u64() {
                        let now = Instant::now();
                        inflight = Some((i as usize, now, cpu_ms(&pid).unwrap_or(0), now + Duration::from_millis(ctx.case_ms)));
                    } else if let Some(i) = v["end"].as_u64() {
                        let i = i as usize;
                        inflight = None;
                        next = i + 1;
                        let ms = v["ms"].as_u64().unwrap_or(0);
                        if let Ok(mut s) = stats.lock() {
                            s.cases += 1;
                            s.sum_ms += ms;
                            if ms >= s.max_ms {
                                s.max_ms = ms;
                                s.slowest = Some((ms, i));
                            }
                            s.tokens += v["tok"].as_u64().unwrap_or(0);
                            s.exprs += v["expr"].as_u64().unwrap_or(0);
                            s.diags += v["diag"].as_u64().unwrap_or(0);
                            s.infos += v["info"].as_u64().unwrap_or(0);
                        }
                        if let Some(m) = v["panic"].as_str() {
                            push(i, Outcome::Panic { msg: m.to_string(), loc: short_loc(v["loc"].as_str().unwrap_or("?")) });
                        }
                        if stop.load(Ordering::SeqCst) >= cap || past(run_deadline) {
                            let _ = r.child.kill();
                            let _ = r.child.wait();
                            break;
                        }
                    }
                }
                Err(RecvTimeoutError::Timeout) => {
                    let _ = r.child.kill();
                    let _ = r.child.wait();
                    let i = inflight.map(|x| x.0).unwrap_or(next);
                    if inflight.is_none() {
                        eprintln!("c12: child made no progress before case {i}; attributing the stall to it");
                    }
                    if let Ok(mut s) = stats.lock() {
                        s.cases += 1;
                        s.max_ms = s.max_ms.max(ctx.case_ms);
                    }
                    push(i, Outcome::Timeout);
                    next = i + 1;
                    break;
                }
                Err(RecvTimeoutError::Disconnected) => {
                    let st = reap(&mut r.child, 30_000);
                    match inflight {
                        Some((i, ..)) => {
                            if let Ok(mut s) = stats.lock() {
                                s.cases += 1;
                            }
                            push(i, death(st, &mut r));
                            next = i + 1;
                        }
                        None => {
                            if next < to {
                                eprintln!("c12: child exited between cases before {next} ({st:?}); attributing to it");
                                if let Ok(mut s) = stats.lock() {
                                    s.cases += 1;
                                }
                                push(next, death(st, &mut r));
                                next += 1;
                            }
                        }
                    }
                    break;
                }
            }
        }
    }
}

/// `units` are (file index, piece); the pieces of a file are concatenated
fn rebuild(case: &Case, units: &[(usize, String)]) -> Case {
    let mut c = case.clone();
    let mut files = Vec::new();
    for (fi, (name, _)) in case.files.iter().enumerate() {
        let text: String = units.iter().filter(|u| u.0 == fi).map(|u| u.1.as_str()).collect();
        if !text.is_empty() {
            files.push((name.clone(), text));
        }
    }
    if files.is_empty() {
        files.push((case.files.first().map(|f| f.0.clone()).unwrap_or("main.lua".into()), String::new()));
    }
    c.files = files;
    c
}

fn ddmin(base: &Case, mut units: Vec<(usize, String)>, best: &mut Case, fails: &mut dyn FnMut(&Case) -> Option<bool>) {
    let mut n = 2usize;
    while units.len() >= 2 {
        let chunk = units.len().div_ceil(n);
        let mut reduced = false;
        for k in 0..n {
            let (a, b) = (k * chunk, ((k + 1) * chunk).min(units.len()));
            if a >= b {
                continue;
            }
            let cand: Vec<(usize, String)> = units[..a].iter().chain(units[b..].iter()).cloned().collect();
            if cand.is_empty() {
                continue;
            }
            let c = rebuild(base, &cand);
            match fails(&c) {
                None => return, // budget exhausted
                Some(true) => {
                    units = cand;
                    *best = c;
                    n = (n - 1).max(2);
                    reduced = true;
                    break;
                }
                Some(false) => {}
            }
        }
        if !reduced {
            if n >= units.len() {
                break;
            }
            n = (n * 2).min(units.len());
        }
    }
}

/// bounded ddmin over options, files, lines, then pieces of lines; every candidate runs in a child via `one`
fn shrink(ctx: &Ctx, case: &Case, want: &Outcome, max_runs: usize, max_ms: u64) -> (Case, usize) {
    let t0 = Instant::now();
    let mut runs = 0usize;
    let budget = ctx.case_ms + 3000;
    let mut best = case.clone();
    let mut fails = |c: &Case| -> Option<bool> {
        if runs >= max_runs || t0.elapsed() > Duration::from_millis(max_ms) {
            return None;
        }
        runs += 1;
        Some(probe(ctx, "one", c, budget).same_class(want))
    };
    // options first (a case without the std library is ~10x cheaper to replay)
    for k in 0..4 {
        let mut c = best.clone();
        match k {
            0 if c.opts.std => c.opts.std = false,
            1 if c.opts.all_diag => c.opts.all_diag = false,
            2 if c.cfg != json!({}) => c.cfg = json!({}),
            3 if c.opts.batch => c.opts.batch = false,
            _ => continue,
        }
        if fails(&c) == Some(true) {
            best = c;
        }
    }
    // whole files
    let mut fi = 0;
    while best.files.len() > 1 && fi < best.files.len() {
        let mut c = best.clone();
        c.files.remove(fi);
        if fails(&c) == Some(true) {
            best = c;
        } else {
            fi += 1;
        }
    }
    // lines (each keeps its terminator)
    let mut units: Vec<(usize, String)> = Vec::new();
    for (fi, f) in best.files.iter().enumerate() {
        for l in f.1.split_inclusive('\n') {
            units.push((fi, l.to_string()));
        }
    }
    let base = best.clone();
    ddmin(&base, units, &mut best, &mut fails);
    // pieces of the remaining lines (words, then characters) when what is left is still long
    for pass in 0..2 {
        let len = best.total_len();
        // only where the failure class is pinned by a location; an overflow could drift to another recursion
        if !matches!(want, Outcome::Panic { .. }) {
            break;
        }
        if len < 60 || len > 6000 || (pass == 1 && len > 400) {
            continue;
        }
        let mut units: Vec<(usize, String)> = Vec::new();
        for (fi, f) in best.files.iter().enumerate() {
            if pass == 0 {
                for w in f.1.split_inclusive(|c: char| c == ' ' || c == '\n' || c == '-' || c == '\t') {
                    units.push((fi, w.to_string()));
                }
            } else {
                for ch in f.1.chars() {
                    units.push((fi, ch.to_string()));
                }
            }
        }
        let base = best.clone();
        ddmin(&base, units, &mut best, &mut fails);
    }
    (best, runs)
}

/// where a stack overflow recurses: the most frequent emmylua function among the innermost frames (needs gdb)
fn overflow_site(ctx: &Ctx, case: &Case) -> Option<(String, String)> {
    let p = tmp_case_file(case);
    let mut cmd = Command::new("timeout");
    cmd.args(["-k", "5", "240", "gdb", "-nx", "-batch", "-iex", "set debuginfod enabled off", "-ex", "set startup-with-shell off", "-ex", "run", "-ex", "bt 96", "-ex", "bt -24", "--args"])
        .arg(&ctx.exe)
        .args(["one", "--case-file"])
        .arg(&p)
        .args(["--stack-kib", &ctx.stack_kib.to_string()])
        .stdin(Stdio::null())
        .stderr(Stdio::null());
    let out = cmd.output().ok();
    let _ = std::fs::remove_file(&p);
    let text = String::from_utf8_lossy(&out?.stdout).to_string();
    let mut counts: Vec<(String, usize)> = Vec::new();
    let mut entry = String::new();
    let mut prev_fn = String::new();
    for l in text.lines() {
        if !l.starts_with('#') {
            continue;
        }
        let Some(pos) = l.find(" in ") else { continue };
        let f = l[pos + 4..].split(" (").next().unwrap_or("").trim();
        let f = match f.rfind("::h") {
            Some(k) if f.len() - k == 19 => &f[..k],
            _ => f,
        };
        let num: usize = l[1..].split_whitespace().next().and_then(|x| x.parse().ok()).unwrap_or(0);
        if f.starts_with("c12::exercise") && entry.is_empty() {
            entry = prev_fn.clone();
        }
        prev_fn = f.to_string();
        if num < 96 && f.starts_with("emmylua_") {
            match counts.iter_mut().find(|c| c.0 == f) {
                Some(c) => c.1 += 1,
                None => counts.push((f.to_string(), 1)),
            }
        }
    }
    // the recursion cycle = the functions that fill the innermost frames; name it by its alphabetically first member so
    // that the name does not depend on where in the cycle the guard page was hit (nor on shrinking)
    let best = counts.iter().map(|c| c.1).max()?;
    let site = counts.iter().filter(|c| c.1 * 5 >= best * 3).map(|c| c.0.clone()).min()?;
    let segs: Vec<&str> = site.split("::").collect();
    let short = segs[segs.len().saturating_sub(2)..].join("::");
    let entry_short = entry.rsplit("::").next().unwrap_or("").to_string();
    Some((short, entry_short))
}

fn depth_bucket(d: usize) -> String {
    if d == 0 {
        return String::new();
    }
    let mut b = 1usize;
    while b * 2 <= d {
        b *= 2;
    }
    format!(":depth>={b}")
}

fn signature(case: &Case, o: &Outcome, site: Option<&str>) -> String {
    let fam = &case.family;
    match o {
        Outcome::Panic { loc, .. } => format!("panic@{loc}"),
        Outcome::Signal { sig, code, cause } => {
            let head = if *sig != 0 { format!("signal{sig}") } else { format!("exit{code}") };
            let deep = if fam.starts_with("deep:") { depth_bucket(case.opts.depth) } else { String::new() };
            match site {
                Some(s) => format!("{head}:{cause}@{s}{deep}"),
                None => format!("{head}:{cause}:{fam}{deep}"),
            }
        }
        Outcome::Timeout => match site {
            Some(s) => format!("timeout@{s}"),
            None => format!("timeout:{fam}"),
        },
        Outcome::Ok => "ok".into(),
    }
}

fn what(o: &Outcome, ctx: &Ctx) -> String {
    match o {
        Outcome::Panic { msg, loc } => format!("panicked at {loc}: {msg}"),
        Outcome::Signal { sig, code, cause } => format!("child died (signal {sig}, exit code {code}, {cause}) with a {} KiB stack while this case was in flight", ctx.stack_kib),
        Outcome::Timeout => format!("no result within {} ms", ctx.case_ms),
        Outcome::Ok => "ok".into(),
    }
}

/// order-preserving parallel map over a slice with `jobs` worker threads
fn par_map<T: Sync, R: Send>(jobs: usize, items: &[T], f: impl Fn(&T) -> Option<R> + Sync) -> Vec<Option<R>> {
    let next = AtomicUsize::new(0);
    let out: Mutex<Vec<Option<R>>> = Mutex::new((0..items.len()).map(|_| None).collect());
    std::thread::scope(|sc| {
        for _ in 0..jobs.min(items.len()).max(1) {
            sc.spawn(|| {
                loop {
                    let k = next.fetch_add(1, Ordering::SeqCst);
                    if k >= items.len() {
                        break;
                    }
                    let r = f(&items[k]);
                    if let Ok(mut g) = out.lock() {
                        g[k] = r;
                    }
                }
            });
        }
    });
    out.into_inner().unwrap_or_default()
}

fn text_hash(s: &str) -> u64 {
    let mut h: u64 = 0xcbf29ce484222325;
    for b in s.bytes() {
        h ^= b as u64;
        h = h.wrapping_mul(0x100000001b3);
    }
    h
}

/// where a slow case spends its time: sample the child once with gdb after `after_ms` (informational only)
fn hot_site(ctx: &Ctx, case: &Case, after_ms: u64) -> Option<String> {
    let p = tmp_case_file(case);
    let args = vec!["one".to_string(), "--case-file".into(), p.display().to_string(), "--stack-kib".into(), ctx.stack_kib.to_string()];
    let mut child = ctx.command(&args).stdout(Stdio::null()).stderr(Stdio::null()).spawn().ok()?;
    // sample once the child has burnt `after_ms` of CPU (at most 30 s of wall clock)
    let t0 = Instant::now();
    let pid = child.id().to_string();
    while cpu_ms(&pid).unwrap_or(u64::MAX) < after_ms && t0.elapsed() < Duration::from_secs(30) {
        std::thread::sleep(Duration::from_millis(50));
    }
    let out = Command::new("timeout")
        .args(["-k", "5", "120", "gdb", "-nx", "-batch", "-iex", "set debuginfod enabled off", "-p", &child.id().to_string(), "-ex", "thread apply all bt 96"])
        .stdin(Stdio::null())
        .stderr(Stdio::null())
        .output()
        .ok();
    let _ = child.kill();
    let _ = child.wait();
    let _ = std::fs::remove_file(&p);
    let text = String::from_utf8_lossy(&out?.stdout).to_string();
    let mut counts: Vec<(String, usize)> = Vec::new();
    for l in text.lines() {
        if !l.starts_with('#') {
            continue;
        }
        let Some(pos) = l.find(" in ") else { continue };
        let f = l[pos + 4..].split(" (").next().unwrap_or("").trim();
        let f = match f.rfind("::h") {
            Some(k) if f.len() - k == 19 => &f[..k],
            _ => f,
        };
        if f.starts_with("emmylua_") {
            match counts.iter_mut().find(|c| c.0 == f) {
                Some(c) => c.1 += 1,
                None => counts.push((f.to_string(), 1)),
            }
        }
    }
    let best = counts.iter().map(|c| c.1).max()?;
    let site = counts.iter().filter(|c| c.1 * 5 >= best * 3).map(|c| c.0.clone()).min()?;
    let segs: Vec<&str> = site.split("::").collect();
    Some(segs[segs.len().saturating_sub(2)..].join("::"))
}

/// a failure replayed alone and given its class; the signature is computed from the UNSHRUNK case
struct Pre {
    idx: usize,
    outcome: Outcome,
    case: Case,
    reproduced: bool,
    site: Option<(String, String)>,
    sig: String,
    known: bool,
}

fn search(args: &Args) {
    let t_all = Instant::now();
    let ctx = Ctx {
        exe: std::env::current_exe().expect("current_exe"),
        seed: args.u64("seed", 1),
        case_ms: args.u64("case-ms", 4000),
        stack_kib: args.usize("stack-kib", 2048),
        mem_mib: args.usize("mem-mib", 4096),
        corpus_dir: args.str("corpus", "/verif/corpus/C12"),
    };
    let n = args.usize("n", 400);
    let batch = args.usize("batch", 25).max(1);
    let jobs = args.usize("jobs", 4).max(1);
    let cap = args.usize("max-violations", 20);
    let budget_ms = args.u64("budget-ms", 0);
    // 70% of the budget for running cases (classification happens as failures arrive), the rest for shrinking
    let run_deadline = if budget_ms > 0 { Some(t_all + Duration::from_millis(budget_ms * 7 / 10)) } else { None };
    let end_deadline = if budget_ms > 0 { Some(t_all + Duration::from_millis(budget_ms)) } else { None };
    let mut known: HashSet<String> = HashSet::new();
    if args.flag("known-file") {
        let path = args.str("known-file", "");
        match std::fs::read_to_string(&path).ok().and_then(|s| serde_json::from_str::<Value>(&s).ok()) {
            Some(Value::Array(a)) => {
                for x in a {
                    match (x.as_str(), x["signature"].as_str()) {
                        (Some(s), _) | (None, Some(s)) => {
                            known.insert(s.to_string());
                        }
                        _ => {}
                    }
                }
            }
            _ => eprintln!("c12: --known-file {path} is not a JSON list; ignored"),
        }
    }
    let corpus = load_corpus(&ctx.corpus_dir);
    let total = corpus.len() + n;
    let have_gdb = !args.flag("no-gdb") && Command::new("gdb").arg("--version").stdout(Stdio::null()).stderr(Stdio::null()).status().map(|s| s.success()).unwrap_or(false);
    let classify_extra = !args.flag("no-classify");

    // distribution (the parent regenerates the same cases as the children)
    let mut families: BTreeMap<String, usize> = BTreeMap::new();
    let mut top: BTreeMap<String, usize> = BTreeMap::new();
    let mut levels: BTreeMap<String, usize> = BTreeMap::new();
    let mut optd: BTreeMap<String, usize> = BTreeMap::new();
    let mut distinct: HashSet<u64> = HashSet::new();
    let mut bytes = 0usize;
    let mut max_bytes = 0usize;
    for i in 0..total {
        let c = case_at(&corpus, ctx.seed, i);
        *families.entry(c.family.clone()).or_default() += 1;
        *top.entry(c.family.split(':').next().unwrap_or("?").to_string()).or_default() += 1;
        *levels.entry(c.cfg["runtime"]["version"].as_str().unwrap_or("default").to_string()).or_default() += 1;
        for (k, b) in [("std", c.opts.std), ("batch_update", c.opts.batch), ("all_diagnostics", c.opts.all_diag), ("mutated", c.opts.mutated), ("multi_file", c.files.len() > 1), ("depth>=64", c.opts.depth >= 64)] {
            if b {
                *optd.entry(k.to_string()).or_default() += 1;
            }
        }
        if let Some(o) = c.cfg["strict"].as_object() {
            for (k, v) in o {
                *optd.entry(format!("strict.{k}={v}")).or_default() += 1;
            }
        }
        bytes += c.total_len();
        max_bytes = max_bytes.max(c.total_len());
        for f in &c.files {
            if f.1.contains("---@") || f.1.contains("--- @") {
                distinct.insert(text_hash(&f.1));
            }
        }
    }

    // run; every failure is replayed alone and classified by the worker that saw it
    let stats = Mutex::new(Stats::default());
    let pres: Mutex<Vec<Pre>> = Mutex::new(Vec::new());
    let unconfirmed = AtomicUsize::new(0);
    let new_count = AtomicUsize::new(0); // failures of generated cases with a signature outside the known list
    let verify_corpus = args.flag("verify-corpus");
    let on_fail = |f: Fail| {
        let case = case_at(&corpus, ctx.seed, f.idx);
        // a corpus witness that still fails the way its recorded signature says keeps that signature: no replay, no gdb
        if let (Some(h), false) = (&case.sig_hint, verify_corpus) {
            let same_kind = match &f.outcome {
                Outcome::Panic { .. } => signature(&case, &f.outcome, None) == *h,
                Outcome::Signal { sig, .. } => h.starts_with(&format!("signal{sig}:")),
                Outcome::Timeout => h.starts_with("timeout"),
                Outcome::Ok => false,
            };
            if same_kind && f.idx < corpus.len() {
                let is_known = known.contains(h);
                if let Ok(mut g) = pres.lock() {
                    g.push(Pre { idx: f.idx, outcome: f.outcome.clone(), case: case.clone(), reproduced: true, site: None, sig: h.clone(), known: is_known });
                }
                return;
            }
        }
        let mut again = probe(&ctx, "one", &case, ctx.case_ms + 3000);
        if !again.same_class(&f.outcome) {
            again = probe(&ctx, "one", &case, ctx.case_ms + 3000);
        }
        let mut outcome = f.outcome.clone();
        let mut reproduced = again.same_class(&outcome);
        if !reproduced {
            eprintln!("c12: case {} failed in the batch with {:?} but alone gives {:?}", f.idx, f.outcome, again);
            if again != Outcome::Ok {
                // it fails alone too, in another way (e.g. a slow overflow): report what the replay shows
                outcome = again.clone();
                reproduced = true;
            } else if f.outcome == Outcome::Timeout {
                // a timeout that does not reproduce alone was machine load, not the case
                unconfirmed.fetch_add(1, Ordering::SeqCst);
                return;
            }
        }
        let is_signal = matches!(outcome, Outcome::Signal { .. });
        let site = if is_signal && have_gdb && reproduced {
            overflow_site(&ctx, &case)
        } else if outcome == Outcome::Timeout && have_gdb && reproduced {
            // where the time goes: one sample of the stack after 1.5 s of CPU
            hot_site(&ctx, &case, 1500).map(|f| (f, String::new()))
        } else {
            None
        };
        let sig = signature(&case, &outcome, site.as_ref().map(|s| s.0.as_str()));
        let is_known = known.contains(&sig);
        // corpus witnesses are known failures by construction: only generated cases count towards the cap
        if !is_known && f.idx >= corpus.len() {
            new_count.fetch_add(1, Ordering::SeqCst);
        }
        if let Ok(mut g) = pres.lock() {
            g.push(Pre { idx: f.idx, outcome, case, reproduced, site, sig, known: is_known });
        }
    };
    // corpus witnesses (known crashes, each costs a replay and a classification) go one per chunk so that they spread
    // over the workers, and they always run; generated cases come in batches and stop at the run deadline
    let mut chunks: Vec<(usize, usize)> = (0..corpus.len()).map(|i| (i, i + 1)).collect();
    let mut i = corpus.len();
    while i < total {
        chunks.push((i, (i + batch).min(total)));
        i += batch;
    }
    let chunk_ctr = AtomicUsize::new(0);
    std::thread::scope(|sc| {
        for _ in 0..jobs.min(chunks.len().max(1)) {
            sc.spawn(|| {
                loop {
                    let k = chunk_ctr.fetch_add(1, Ordering::SeqCst);
                    if k >= chunks.len() {
                        break;
                    }
                    let (from, to) = chunks[k];
                    let is_corpus = from < corpus.len();
                    let late = run_deadline.map(|d| Instant::now() >= d).unwrap_or(false);
                    if !is_corpus && (new_count.load(Ordering::SeqCst) >= cap || late) {
                        break;
                    }
                    run_range(&ctx, from, to, &stats, &on_fail, &new_count, cap, run_deadline);
                }
            });
        }
    });
    let run_ms = t_all.elapsed().as_millis() as u64;
    let mut pres = pres.into_inner().unwrap_or_default();
    pres.sort_by_key(|p| p.idx);
    let st = stats.into_inner().unwrap_or_default();
    let budget_exhausted = st.cases < total && new_count.load(Ordering::SeqCst) < cap && run_deadline.is_some();

    // new signatures first: every failure is reported (at most `cap`), the first of each signature is shrunk
    let mut sigs: BTreeMap<String, usize> = BTreeMap::new();
    for p in &pres {
        *sigs.entry(p.sig.clone()).or_default() += 1;
    }
    let mut seen: HashSet<String> = HashSet::new();
    let new_plan: Vec<(&Pre, bool)> = pres.iter().filter(|p| !p.known).take(cap.max(1) + corpus.len()).map(|p| (p, p.reproduced && !p.case.minimal && seen.insert(p.sig.clone()))).collect();
    let left_ms = |d: Option<Instant>| -> u64 { d.map(|d| d.saturating_duration_since(Instant::now()).as_millis() as u64).unwrap_or(u64::MAX) };
    let new_recs: Vec<Value> = par_map(jobs, &new_plan, |(p, want_shrink)| {
        let is_signal = matches!(p.outcome, Outcome::Signal { .. });
        let max_runs = match p.outcome {
            Outcome::Panic { .. } => 400,
            Outcome::Signal { .. } => 150,
            _ => 60,
        };
        let shrink_ms = left_ms(end_deadline).min(60_000);
        let do_shrink = *want_shrink && shrink_ms > 3000;
        let (shrunk, runs) = if do_shrink { shrink(&ctx, &p.case, &p.outcome, max_runs, shrink_ms) } else { (p.case.clone(), 0) };
        let confirmed = if do_shrink {
            let mut o = probe(&ctx, "one", &shrunk, ctx.case_ms + 3000);
            if !o.same_class(&p.outcome) {
                o = probe(&ctx, "one", &shrunk, ctx.case_ms + 3000);
            }
            if !o.same_class(&p.outcome) {
                eprintln!("c12: shrunk case of {} gives {:?}, wanted {:?}", p.idx, o, p.outcome);
            }
            o.same_class(&p.outcome)
        } else {
            p.reproduced
        };
        let use_case = if confirmed && do_shrink { &shrunk } else { &p.case };
        let mut rec = json!({
            "signature": p.sig, "what": what(&p.outcome, &ctx), "kind": p.outcome.kind(), "index": p.idx, "known": false,
            "reproduced_alone": p.reproduced, "shrunk_confirmed": confirmed, "shrink_runs": runs, "shrink_skipped": !do_shrink,
            "case": p.case.to_json(), "shrunk": use_case.to_json(),
        });
        if let Some((fun, entry)) = &p.site {
            rec["recursion_in"] = json!(fun);
            rec["entry_point"] = json!(entry);
        }
        let time_for_extras = left_ms(end_deadline) > 20_000;
        if do_shrink && classify_extra && time_for_extras {
            if is_signal {
                // the class of the shrunk case, for information (the signature stays the one of the unshrunk case)
                if have_gdb && confirmed {
                    if let Some((fun, _)) = overflow_site(&ctx, use_case) {
                        rec["shrunk_recursion_in"] = json!(fun);
                    }
                }
                let po = probe(&ctx, "parse-only", use_case, ctx.case_ms + 3000);
                rec["parser_only_crashes"] = json!(matches!(po, Outcome::Signal { .. }));
                // unbounded or merely deep recursion? replay with a 32x stack
                let mut big = ctx.clone();
                big.stack_kib = ctx.stack_kib * 32;
                rec["survives_32x_stack"] = json!(probe(&big, "one", use_case, ctx.case_ms * 4 + 3000) == Outcome::Ok);
            }
            if p.outcome == Outcome::Timeout {
                // slow or (practically) unbounded? replay once with a budget of 10x, at most 60 s of CPU
                let t1 = Instant::now();
                let o = probe(&ctx, "one", use_case, (ctx.case_ms * 10).min(60_000));
                rec["finishes_within_10x"] = if o == Outcome::Ok { json!(t1.elapsed().as_millis() as u64) } else { Value::Null };
            }
        }
        Some(rec)
    })
    .into_iter()
    .flatten()
    .collect();
    // known signatures: one line per signature, never shrunk
    let mut known_recs: Vec<Value> = Vec::new();
    let mut seen_known: HashSet<String> = HashSet::new();
    for p in pres.iter().filter(|p| p.known) {
        if seen_known.insert(p.sig.clone()) {
            let mut rec = json!({
                "signature": p.sig, "what": what(&p.outcome, &ctx), "kind": p.outcome.kind(), "index": p.idx, "known": true,
                "reproduced_alone": p.reproduced, "shrunk_confirmed": false, "shrink_runs": 0, "shrink_skipped": true,
                "count": sigs.get(&p.sig).cloned().unwrap_or(1), "case": p.case.to_json(), "shrunk": p.case.to_json(),
            });
            if let Some((fun, entry)) = &p.site {
                rec["recursion_in"] = json!(fun);
                rec["entry_point"] = json!(entry);
            }
            known_recs.push(rec);
        }
    }
    {
        let out = std::io::stdout();
        let mut lk = out.lock();
        for rec in new_recs.iter().chain(known_recs.iter()) {
            let _ = writeln!(lk, "{rec}");
        }
        let _ = lk.flush();
    }
    let count_kind = |k: &str| pres.iter().filter(|p| p.outcome.kind() == k).count();
    let mut new_sigs: Vec<String> = pres.iter().filter(|p| !p.known).map(|p| p.sig.clone()).collect::<HashSet<_>>().into_iter().collect();
    new_sigs.sort();
    let mut known_seen: Vec<String> = seen_known.into_iter().collect();
    known_seen.sort();
    let summary = json!({"summary": {
        "cases": st.cases, "planned": total, "corpus": corpus.len(), "distinct_nontrivial": distinct.len(),
        "families": families, "top_families": top, "levels": levels, "options": optd,
        "panics": count_kind("panic"), "signals": count_kind("signal"), "timeouts": count_kind("timeout"),
        "timeouts_unconfirmed": unconfirmed.load(Ordering::SeqCst), "raw_failures": pres.len(),
        "signatures": sigs, "new_signatures": new_sigs, "known_signatures_seen": known_seen,
        "stopped_early": new_count.load(Ordering::SeqCst) >= cap, "budget_exhausted": budget_exhausted, "budget_ms": budget_ms,
        "max_case_ms": st.max_ms, "slowest_index": st.slowest.map(|s| s.1), "sum_case_ms": st.sum_ms, "run_ms": run_ms, "total_ms": t_all.elapsed().as_millis() as u64,
        "bytes": bytes, "max_case_bytes": max_bytes, "tokens_queried": st.tokens, "exprs_inferred": st.exprs, "semantic_infos": st.infos, "diagnostics_seen": st.diags,
        "stack_kib": ctx.stack_kib, "case_ms": ctx.case_ms, "jobs": jobs, "gdb": have_gdb,
    }});
    println!("{summary}");
}

// ------------------------------------------------------------------ limits: bisect nesting depth
fn limits(args: &Args) {
    let ctx = Ctx {
        exe: std::env::current_exe().expect("current_exe"),
        seed: 0,
        case_ms: args.u64("case-ms", 8000),
        stack_kib: args.usize("stack-kib", 2048),
        mem_mib: args.usize("mem-mib", 4096),
        corpus_dir: String::new(),
    };
    let hi_cap = args.usize("max", 6000);
    let only = args.str("kind", "");
    for k in DEEP {
        if !only.is_empty() && only != k.name {
            continue;
        }
        let mut res = serde_json::Map::new();
        res.insert("kind".into(), json!(k.name));
        res.insert("generator_max".into(), json!(k.max));
        for mode in ["parse-only", "one"] {
            let mk = |d: usize| -> Case {
                let mut rng = Rng::new(7);
                Case { files: vec![("main.lua".into(), deep_text(k.name, d, &mut rng))], cfg: json!({}), family: format!("deep:{}", k.name), opts: Opts { std: false, batch: false, all_diag: true, depth: d, mutated: false }, minimal: true, sig_hint: None }
            };
            // largest depth that survives, by doubling then bisection
            let mut lo = 1usize;
            let mut hi = 0usize;
            let mut bad: Option<Outcome> = None;
            let mut d = 16usize;
            loop {
                let o = probe(&ctx, mode, &mk(d), ctx.case_ms + 3000);
                if o == Outcome::Ok {
                    lo = d;
                    if d >= hi_cap {
                        break;
                    }
                    d = (d * 2).min(hi_cap);
                } else {
                    hi = d;
                    bad = Some(o);
                    break;
                }
            }
            if hi > 0 {
                while hi - lo > (lo / 50).max(1) {
                    let mid = (lo + hi) / 2;
                    let o = probe(&ctx, mode, &mk(mid), ctx.case_ms + 3000);
                    if o == Outcome::Ok {
                        lo = mid;
                    } else {
                        hi = mid;
                        bad = Some(o);
                    }
                }
            }
            let key = if mode == "one" { "analysis" } else { "parser" };
            res.insert(format!("{key}_survives"), json!(lo));
            res.insert(format!("{key}_fails_at"), if hi > 0 { json!(hi) } else { Value::Null });
            res.insert(format!("{key}_failure"), match &bad { Some(o) => json!(format!("{o:?}")), None => Value::Null });
        }
        println!("{}", Value::Object(res));
    }
}

// ------------------------------------------------------------------ main

fn read_case(args: &Args) -> Case {
    let s = if args.flag("case-file") {
        std::fs::read_to_string(args.str("case-file", "")).expect("case file")
    } else {
        args.str("case-json", "{}")
    };
    let v: Value = serde_json::from_str(&s).expect("case json");
    Case::from_json(&v)
}

fn main() {
    let args = Args::parse();
    let stack_kib = args.usize("stack-kib", 2048);
    match args.cmd.as_str() {
        "search" => search(&args),
        "limits" => limits(&args),
        "shrink" => {
            // development aid: a longer shrink of one failing case (`--runs`, `--ms`), prints the shrunk case
            let ctx = Ctx {
                exe: std::env::current_exe().expect("current_exe"),
                seed: 0,
                case_ms: args.u64("case-ms", 4000),
                stack_kib,
                mem_mib: args.usize("mem-mib", 4096),
                corpus_dir: String::new(),
            };
            let case = read_case(&args);
            let want = probe(&ctx, "one", &case, ctx.case_ms + 3000);
            eprintln!("c12 shrink: outcome to preserve: {want:?}");
            if want == Outcome::Ok {
                std::process::exit(1);
            }
            let (c, runs) = shrink(&ctx, &case, &want, args.usize("runs", 400), args.u64("ms", 600_000));
            eprintln!("c12 shrink: {runs} runs, {} -> {} bytes", case.total_len(), c.total_len());
            println!("{}", c.to_json());
        }
        "batch" => {
            install_hook();
            let seed = args.u64("seed", 1);
            let corpus = load_corpus(&args.str("corpus", "/verif/corpus/C12"));
            let (from, to) = (args.usize("from", 0), args.usize("to", 0));
            let out = std::io::stdout();
            for i in from..to {
                let case = case_at(&corpus, seed, i);
                {
                    let mut lk = out.lock();
                    let _ = writeln!(lk, "{}", json!({"begin": i}));
                    let _ = lk.flush();
                }
                let (line, _) = run_case_line(i, &case, stack_kib);
                let mut lk = out.lock();
                let _ = writeln!(lk, "{line}");
                let _ = lk.flush();
            }
        }
        "one" => {
            install_hook();
            let case = read_case(&args);
            let (line, panicked) = run_case_line(0, &case, stack_kib);
            println!("{line}");
            let _ = std::io::stdout().flush();
            std::process::exit(if panicked { 3 } else { 0 });
        }
        "parse-only" => {
            install_hook();
            let case = read_case(&args);
            let t0 = Instant::now();
            let r = on_small_stack(stack_kib, move || {
                let mut errs = 0usize;
                for (_, text) in &case.files {
                    let tree = LuaParser::parse(text, ParserConfig::default());
                    errs += tree.get_errors().len();
                    // walking and dropping the tree is part of what every consumer does
                    let _ = tree.get_red_root().descendants_with_tokens().count();
                }
                errs
            });
            let ms = t0.elapsed().as_millis() as u64;
            match r {
                Ok(e) => println!("{}", json!({"end": 0, "ms": ms, "panic": Value::Null, "loc": Value::Null, "parse_errors": e})),
                Err((m, loc)) => {
                    println!("{}", json!({"end": 0, "ms": ms, "panic": m, "loc": loc}));
                    std::process::exit(3);
                }
            }
        }
        "gen" => {
            let c = gen_case(args.u64("seed", 1), args.usize("index", 0));
            println!("{}", c.to_json());
        }
        _ => {
            eprintln!("usage: c12 search|batch|one|parse-only|gen|limits");
            std::process::exit(2);
        }
    }
}
