//! C16 harness: type assignability and union construction.
//!   c16 one    --case-json '{"defs":"…","types":["T:string|nil","E:1"],"pairs":[[0,1]],"unions":[[0,1]]}'
//!   c16 corr   --seed S --n N   -> JSON lines: one observation record per generated world (corpus first)
//!   c16 search --seed S --n N   -> JSON lines: violations of the five laws on the implementation + summary
//!
//! A *world* is a set of class/alias declarations plus a list of type expressions.  Types are obtained through
//! `VirtualWorkspace::ty` ("T:" prefix: `---@type <repr>`) or `expr_ty` ("E:" prefix: `local t = <expr>`), checks go
//! through `SemanticModel::type_check` (= `check_type_compact`), unions through `TypeOps::Union` / `TypeOps::union_all`.
use emmylua_code_analysis::{
    DbIndex, InferGuard, LuaType, LuaTypeDeclId, LuaUnionType, RenderLevel, TypeCheckFailReason, TypeHumanizer, TypeOps,
    VirtualWorkspace,
};
use serde_json::{Value, json};
use std::collections::HashMap;
use std::sync::Arc;
use vh_common::{Args, Rng, guarded};

/// pointer identities of union nodes, canonicalised to small integers in order of first appearance
#[derive(Default)]
struct Ptrs {
    map: HashMap<usize, u64>,
}
impl Ptrs {
    fn id(&mut self, p: usize) -> u64 {
        let n = self.map.len() as u64 + 1;
        *self.map.entry(p).or_insert(n)
    }
}

fn basic_index(t: &LuaType) -> Option<u32> {
    Some(match t {
        LuaType::Unknown => 0,
        LuaType::Any => 1,
        LuaType::Nil => 2,
        LuaType::Table => 3,
        LuaType::Userdata => 4,
        LuaType::Function => 5,
        LuaType::Thread => 6,
        LuaType::Boolean => 7,
        LuaType::String => 8,
        LuaType::Integer => 9,
        LuaType::Number => 10,
        LuaType::Io => 11,
        LuaType::SelfInfer => 12,
        LuaType::Global => 13,
        LuaType::Never => 14,
        _ => return None,
    })
}

/// structural dump of a type of the modelled grammar; anything else becomes {"other": "<variant>"}
fn tyjson(t: &LuaType, ps: &mut Ptrs) -> Value {
    if let Some(k) = basic_index(t) {
        return json!({"b": k});
    }
    match t {
        LuaType::BooleanConst(b) => json!({"bc": b}),
        LuaType::DocBooleanConst(b) => json!({"dbc": b}),
        LuaType::StringConst(s) => json!({"sc": s.as_str()}),
        LuaType::DocStringConst(s) => json!({"dsc": s.as_str()}),
        LuaType::IntegerConst(i) => json!({"ic": i}),
        LuaType::DocIntegerConst(i) => json!({"dic": i}),
        LuaType::Ref(id) => json!({"ref": id.get_name()}),
        LuaType::Def(id) => json!({"def": id.get_name()}),
        LuaType::Array(a) => {
            let len = match a.get_len() {
                emmylua_code_analysis::LuaArrayLen::None => Value::Null,
                emmylua_code_analysis::LuaArrayLen::Max(n) => json!(n),
            };
            json!({"arr": tyjson(a.get_base(), ps), "len": len})
        }
        LuaType::Tuple(tp) => {
            let v: Vec<Value> = tp.get_types().iter().map(|x| tyjson(x, ps)).collect();
            json!({"tup": v, "infer": tp.is_infer_resolve()})
        }
        LuaType::DocFunction(f) => {
            let params: Vec<Value> = f
                .get_params()
                .iter()
                .map(|(n, t)| json!([n, t.as_ref().map(|t| tyjson(t, ps))]))
                .collect();
            json!({"fn": {"params": params, "ret": tyjson(f.get_ret(), ps), "colon": f.is_colon_define(),
                           "variadic": f.is_variadic(), "async": format!("{:?}", f.get_async_state()),
                           "generic": !f.get_generic_params().is_empty()}})
        }
        LuaType::Union(u) => {
            let p = ps.id(Arc::as_ptr(u) as usize);
            let (k, m): (&str, Vec<Value>) = match &**u {
                LuaUnionType::Basic(b) => ("basic", b.iter().map(|x| tyjson(&x, ps)).collect()),
                LuaUnionType::Nullable(x) => ("nullable", vec![tyjson(x, ps)]),
                LuaUnionType::Multi(v) => ("multi", v.iter().map(|x| tyjson(x, ps)).collect()),
            };
            json!({"u": k, "m": m, "p": p})
        }
        other => {
            let d = format!("{:?}", other);
            let v: String = d.chars().take_while(|c| c.is_alphanumeric()).collect();
            json!({"other": v})
        }
    }
}

fn res_name(r: &Result<(), TypeCheckFailReason>) -> &'static str {
    match r {
        Ok(()) => "ok",
        Err(TypeCheckFailReason::DonotCheck) => "donot",
        Err(TypeCheckFailReason::TypeNotMatch) => "nomatch",
        Err(TypeCheckFailReason::TypeNotMatchWithReason(_)) => "nomatch",
        Err(TypeCheckFailReason::TypeRecursion) => "recursion",
    }
}

struct World {
    ws: VirtualWorkspace,
    probe_file: emmylua_code_analysis::FileId,
}

impl World {
    fn new(defs: &str, cfg: &Value) -> World {
        let mut ws = VirtualWorkspace::new();
        let mut rc = ws.get_emmyrc();
        if let Some(b) = cfg["array_index"].as_bool() {
            rc.strict.array_index = b;
        }
        if let Some(b) = cfg["doc_base_const_match_base_type"].as_bool() {
            rc.strict.doc_base_const_match_base_type = b;
        }
        ws.update_emmyrc(rc);
        ws.def(defs);
        let probe_file = ws.def("local c16_probe = 1\n");
        World { ws, probe_file }
    }
    fn ty(&mut self, spec: &str) -> LuaType {
        if let Some(e) = spec.strip_prefix("E:") {
            self.ws.expr_ty(e)
        } else {
            self.ws.ty(spec.strip_prefix("T:").unwrap_or(spec))
        }
    }
    fn db(&self) -> &DbIndex {
        self.ws.analysis.compilation.get_db()
    }
    /// check_type_compact(db, source = expected, compact = given)
    fn check(&self, source: &LuaType, compact: &LuaType) -> &'static str {
        let sm = self.ws.analysis.compilation.get_semantic_model(self.probe_file).expect("semantic model");
        match guarded(|| sm.type_check(source, compact)) {
            Ok(r) => res_name(&r),
            Err(_) => "panic",
        }
    }
    fn is_sub(&self, sub: &str, sup: &str) -> bool {
        let sm = self.ws.analysis.compilation.get_semantic_model(self.probe_file).expect("semantic model");
        sm.is_sub_type_of(&LuaTypeDeclId::global(sub), &LuaTypeDeclId::global(sup))
    }
    /// the declarations the model needs: kind, super types, alias origin
    fn decls(&self, names: &[String], ps: &mut Ptrs) -> Value {
        let db = self.db();
        let ti = db.get_type_index();
        let mut out = Vec::new();
        for n in names {
            let id = LuaTypeDeclId::global(n);
            match ti.get_type_decl(&id) {
                None => out.push(json!({"name": n, "kind": "missing"})),
                Some(d) => {
                    let kind = if d.is_alias() { "alias" } else if d.is_enum() { "enum" } else if d.is_class() { "class" } else { "other" };
                    let supers: Vec<Value> = ti.get_super_types_raw(&id).unwrap_or_default().iter().map(|t| tyjson(t, ps)).collect();
                    let eff: Vec<Value> = ti.get_super_types(&id).unwrap_or_default().iter().map(|t| tyjson(t, ps)).collect();
                    let origin = d.get_alias_ref().map(|t| tyjson(t, ps));
                    let generic = ti.get_generic_params(&id).is_some();
                    out.push(json!({"name": n, "kind": kind, "supers": supers, "eff_supers": eff, "origin": origin, "generic": generic}));
                }
            }
        }
        json!(out)
    }
    /// codes of the type-mismatch diagnostics of a program
    fn mismatch_diags(&mut self, prog: &str) -> Vec<String> {
        self.ws.enable_full_diagnostic();
        let fid = self.ws.def(prog);
        let ds = self.ws.analysis.diagnose_file(fid, tokio_util::sync::CancellationToken::new()).unwrap_or_default();
        let mut out = Vec::new();
        for d in ds {
            if let Some(lsp_types::NumberOrString::String(c)) = &d.code {
                if c == "assign-type-mismatch" || c == "param-type-mismatch" || c == "return-type-mismatch" {
                    out.push(format!("{}: {}", c, d.message));
                }
            }
        }
        out
    }
}

fn fold_union(db: &DbIndex, ts: &[LuaType]) -> LuaType {
    let mut r = LuaType::Never;
    for t in ts {
        r = TypeOps::Union.apply(db, &r, t);
    }
    r
}

fn strs(v: &Value) -> Vec<String> {
    v.as_array().map(|a| a.iter().map(|x| x.as_str().unwrap_or("").to_string()).collect()).unwrap_or_default()
}

/// observations of one world (what the model is compared with)
fn observe(case: &Value) -> Value {
    let defs = case["defs"].as_str().unwrap_or("");
    let specs = strs(&case["types"]);
    let names = strs(&case["names"]);
    let mut w = World::new(defs, &case["cfg"]);
    let mut ps = Ptrs::default();
    let tys: Vec<LuaType> = specs.iter().map(|s| w.ty(s)).collect();
    let tjs: Vec<Value> = tys.iter().map(|t| tyjson(t, &mut ps)).collect();
    let decls = w.decls(&names, &mut ps);
    let mut checks = Vec::new();
    if let Some(pairs) = case["pairs"].as_array() {
        for p in pairs {
            let (i, j) = (p[0].as_u64().unwrap_or(0) as usize, p[1].as_u64().unwrap_or(0) as usize);
            if i < tys.len() && j < tys.len() {
                checks.push(json!([i, j, w.check(&tys[i], &tys[j])]));
            }
        }
    }
    let mut unions = Vec::new();
    if let Some(us) = case["unions"].as_array() {
        for u in us {
            let idx: Vec<usize> = u.as_array().map(|a| a.iter().map(|x| x.as_u64().unwrap_or(0) as usize).filter(|i| *i < tys.len()).collect()).unwrap_or_default();
            let ts: Vec<LuaType> = idx.iter().map(|i| tys[*i].clone()).collect();
            let all = TypeOps::union_all(w.db(), ts.clone());
            let fold = fold_union(w.db(), &ts);
            // the results are alive together, so their nested pointer ids are consistent; the address of a
            // result's own (fresh) union node is meaningless and the consumer ignores it
            unions.push(json!({"idx": idx, "all": tyjson(&all, &mut ps), "fold": tyjson(&fold, &mut ps)}));
        }
    }
    let mut subs = Vec::new();
    if let Some(ss) = case["subs"].as_array() {
        for s in ss {
            let (a, b) = (s[0].as_str().unwrap_or(""), s[1].as_str().unwrap_or(""));
            subs.push(json!([a, b, w.is_sub(a, b)]));
        }
    }
    let strict = w.db().get_emmyrc().strict.clone();
    json!({"family": case["family"], "defs": defs, "specs": specs, "names": names, "types": tjs, "decls": decls, "checks": checks,
           "unions": unions, "subs": subs,
           "cfg": {"array_index": strict.array_index, "doc_base_const_match_base_type": strict.doc_base_const_match_base_type}})
}

// ------------------------------------------------------------------------------------------------ generator

const LEAVES: &[&str] = &[
    "nil", "boolean", "integer", "number", "string", "function", "any", "unknown", "userdata", "thread", "table",
    "string", "integer", "boolean", "nil", "'a'", "'b'", "\"c\"", "1", "2", "true", "false",
];
const EXPRS: &[&str] = &["E:1", "E:2", "E:'a'", "E:\"b\"", "E:true", "E:false"];
const PRIMS: &[&str] = &["string", "integer", "number", "table", "boolean", "function"];

struct Env {
    classes: Vec<String>,
    aliases: Vec<String>,
}

fn atom(rng: &mut Rng, env: &Env) -> String {
    let k = rng.below(10);
    if k < 3 && !env.classes.is_empty() {
        rng.pick(&env.classes).clone()
    } else if k < 4 && !env.aliases.is_empty() {
        rng.pick(&env.aliases).clone()
    } else if k == 4 && rng.chance(1, 6) {
        "never".to_string()
    } else {
        rng.pick(LEAVES).to_string()
    }
}

/// a type expression of the annotation grammar; composite sub-expressions are parenthesised
fn gen_ty(rng: &mut Rng, depth: usize, env: &Env) -> String {
    if depth == 0 || rng.chance(1, 3) {
        return atom(rng, env);
    }
    let sub = |rng: &mut Rng| {
        let t = gen_ty(rng, depth - 1, env);
        if t.chars().all(|c| c.is_alphanumeric() || c == '_' || c == '\'' || c == '"') { t } else { format!("({})", t) }
    };
    match rng.below(9) {
        0 | 1 => format!("{}[]", sub(rng)),
        2 => {
            let n = rng.range(1, 3);
            let ms: Vec<String> = (0..n).map(|i| { let t = sub(rng); if i > 0 && rng.chance(1, 3) { format!("{}?", t) } else { t } }).collect();
            format!("[{}]", ms.join(", "))
        }
        3 | 4 => {
            let n = rng.range(2, 4);
            let ms: Vec<String> = (0..n).map(|_| sub(rng)).collect();
            ms.join(" | ")
        }
        5 => format!("{}?", sub(rng)),
        6 => {
            let n = rng.below(3);
            let mut ps: Vec<String> = Vec::new();
            if rng.chance(1, 8) { ps.push("self".to_string()); }
            for i in 0..n {
                let nm = ["a", "b", "c"][i];
                match rng.below(4) {
                    0 => ps.push(format!("{}?: {}", nm, sub(rng))),
                    1 if rng.chance(1, 3) => ps.push(nm.to_string()),
                    _ => ps.push(format!("{}: {}", nm, sub(rng))),
                }
            }
            if rng.chance(1, 5) { ps.push(format!("...: {}", sub(rng))); }
            if rng.chance(1, 2) { format!("fun({}): {}", ps.join(", "), sub(rng)) } else { format!("fun({})", ps.join(", ")) }
        }
        7 => format!("{} | nil", sub(rng)),
        _ => atom(rng, env),
    }
}

fn nest(base: &str, d: usize) -> String {
    let mut s = base.to_string();
    for _ in 0..d { s.push_str("[]"); }
    s
}

/// a generated world: declarations, type expressions, what to observe; `edges` are the declared class edges
fn gen_case(seed: u64, idx: usize, for_model: bool) -> Value {
    let mut rng = Rng::new(seed ^ 0xC16 ^ ((idx as u64).wrapping_mul(0x9E3779B97F4A7C15)));
    rng.next();
    let fam = match idx % 12 { 0..=4 => "plain", 5 | 6 => "cyclic", 7 => "deep-chain", 8 => "alias-chain", 9 => "deep-nest", 10 => "prim-supers", _ => "braid" };
    let mut defs = String::new();
    let mut env = Env { classes: vec![], aliases: vec![] };
    let mut names: Vec<String> = vec![];
    let mut edges: Vec<(String, String)> = vec![];
    let mut types: Vec<String> = vec![];
    let mut acyclic = true;
    let mut deep = false;
    match fam {
        "deep-chain" => {
            let l = *rng.pick(if for_model { &[12usize, 30, 45][..] } else { &[20usize, 99, 100, 101, 150, 300, 400][..] });
            defs.push_str("---@class K0\n");
            for i in 1..l { defs.push_str(&format!("---@class K{}: K{}\n", i, i - 1)); edges.push((format!("K{}", i), format!("K{}", i - 1))); }
            for i in 0..l { names.push(format!("K{}", i)); }
            env.classes = vec!["K0".into(), format!("K{}", l - 1), format!("K{}", l / 2), format!("K{}", 1.min(l - 1))];
            types = env.classes.iter().cloned().collect();
            types.push(format!("K{}[]", l - 1)); types.push("K0[]".into()); types.push(format!("K0 | K{}", l - 1)); types.push(format!("K{}?", l - 1));
        }
        "alias-chain" => {
            let l = *rng.pick(&[5usize, 49, 50, 51, 99, 100, 101, 120]);
            let base = *rng.pick(&["string", "integer[]", "string|integer", "Z"]);
            defs.push_str("---@class Z\n"); names.push("Z".into()); env.classes.push("Z".into());
            defs.push_str(&format!("---@alias L0 {}\n", base));
            for i in 1..l { defs.push_str(&format!("---@alias L{} L{}\n", i, i - 1)); }
            for i in 0..l { names.push(format!("L{}", i)); }
            defs.push_str("---@alias R R[]\n---@alias R2 R2|string\n---@alias M1 M2\n---@alias M2 M1\n---@alias F fun(x: F): F\n");
            for n in ["R", "R2", "M1", "M2", "F"] { names.push(n.into()); }
            deep = l >= 49;
            types = vec!["L0".into(), format!("L{}", l - 1), format!("L{}", l / 2), base.to_string(), "string".into(), "integer".into(), "R".into(), "R[]".into(), "R2".into(), "M1".into(), "M2".into(), "F".into(), format!("L{}[]", l - 1), format!("L{} | nil", l - 1), "Z".into()];
        }
        "deep-nest" => {
            let d = *rng.pick(&[5usize, 10, 24, 25, 26, 33, 34, 49, 50, 51, 60]);
            deep = d >= 24;
            defs.push_str("---@class A\n---@class B: A\n"); names.push("A".into()); names.push("B".into());
            edges.push(("B".into(), "A".into()));
            env.classes = vec!["A".into(), "B".into()];
            types = vec![nest("string", d), nest("A", d), nest("B", d), nest("(string|A)", d), nest("string?", d.min(30))];
            let mut t = "string".to_string();
            for _ in 0..d.min(30) { t = format!("[{}]", t); }
            types.push(t);
            let mut t = "A".to_string();
            for i in 0..d.min(30) { t = if i % 2 == 0 { format!("({} | integer)[]", t) } else { format!("[{}, nil]", t) }; }
            types.push(t);
            let mut t = "string".to_string();
            for _ in 0..d.min(30) { t = format!("fun(a: {})", t); }
            types.push(t);
            types.push("string".into()); types.push("A".into());
        }
        _ => {
            let nc = if fam == "braid" { rng.range(4, 6) } else { rng.range(if fam == "plain" { 0 } else { 2 }, 7) };
            for i in 0..nc { env.classes.push(format!("C{}", i)); }
            // "braid": every class is on a ring (its ring successor is a parent) and lists one or two other ring classes as
            // parents as well, before or after it: several parents of one class lead back to it through shared classes
            let exact_braid = fam == "braid" && nc == 4 && rng.chance(1, 2);
            for i in 0..nc {
                let mut sups: Vec<String> = vec![];
                if fam == "braid" {
                    if exact_braid {
                        // A: P, B ; P: B ; B: Q, A ; Q: A   with A=C0 P=C1 B=C2 Q=C3
                        sups = match i { 0 => vec!["C1".into(), "C2".into()], 1 => vec!["C2".into()], 2 => vec!["C3".into(), "C0".into()], _ => vec!["C0".into()] };
                    } else {
                        let ring = format!("C{}", (i + 1) % nc);
                        let extra = rng.range(0, 2);
                        for _ in 0..extra { sups.push(format!("C{}", rng.below(nc))); }
                        let pos = rng.below(sups.len() + 1);
                        sups.insert(pos, ring);
                    }
                }
                let k = if fam == "braid" { 0 } else { rng.below(3) };
                for _ in 0..k {
                    if fam == "cyclic" && rng.chance(1, 2) {
                        let j = rng.below(nc);
                        sups.push(format!("C{}", j));
                    } else if i > 0 {
                        sups.push(format!("C{}", rng.below(i)));
                    }
                }
                if fam == "prim-supers" && rng.chance(1, 2) { sups.push(rng.pick(PRIMS).to_string()); }
                if fam == "prim-supers" && rng.chance(1, 6) { sups.push("Undefined1".into()); }
                sups.dedup();
                for s in &sups { if s.starts_with('C') { edges.push((format!("C{}", i), s.clone())); } }
                if sups.is_empty() { defs.push_str(&format!("---@class C{}\n", i)); } else { defs.push_str(&format!("---@class C{}: {}\n", i, sups.join(", "))); }
                names.push(format!("C{}", i));
            }
            let na = rng.below(4);
            for i in 0..na {
                let t = if rng.chance(1, 6) { format!("A{}[] | string", i) } else { gen_ty(&mut rng, 2, &env) };
                defs.push_str(&format!("---@alias A{} {}\n", i, t));
                env.aliases.push(format!("A{}", i));
                names.push(format!("A{}", i));
            }
            // is the declared class graph acyclic?
            let idx_of = |n: &str| n[1..].parse::<usize>().unwrap_or(0);
            let mut reach = vec![vec![false; nc]; nc];
            for (a, b) in &edges { reach[idx_of(a)][idx_of(b)] = true; }
            for k in 0..nc { for i in 0..nc { for j in 0..nc { if reach[i][k] && reach[k][j] { reach[i][j] = true; } } } }
            acyclic = (0..nc).all(|i| !reach[i][i]);
            let nt = rng.range(10, 16);
            for _ in 0..nt { types.push(gen_ty(&mut rng, 3, &env)); }
            if rng.chance(1, 3) {
                defs.push_str("---@alias AN any\n---@alias AV never\n");
                names.push("AN".into()); names.push("AV".into());
                types.push("AN".into()); types.push("never".into()); types.push("AV".into());
            }
            if rng.chance(1, 3) { types.push("never[]".into()); types.push("(never[]) | nil".into()); }
            for c in env.classes.iter().take(4) { types.push(c.clone()); }
            for a in env.aliases.iter() { types.push(a.clone()); }
            for p in PRIMS.iter().take(3) { types.push(p.to_string()); }
        }
    }
    let mut specs: Vec<String> = types.iter().map(|t| format!("T:{}", t)).collect();
    for _ in 0..2 { specs.push(rng.pick(EXPRS).to_string()); }
    let n = specs.len();
    let mut pairs: Vec<[usize; 2]> = (0..n).map(|i| [i, i]).collect();
    let extra = if for_model { 40 } else { 0 };
    for _ in 0..extra { pairs.push([rng.below(n), rng.below(n)]); }
    let mut unions: Vec<Vec<usize>> = vec![];
    for _ in 0..(if for_model { 10 } else { 16 }) {
        let l = rng.below(6);
        unions.push((0..l).map(|_| rng.below(n)).collect());
    }
    // an alias followed by never (and the reverse): the batch scan drops never, the fold does not
    for a in ["T:AN", "T:AV"] {
        if let (Some(i), Some(j)) = (specs.iter().position(|x| x == a), specs.iter().position(|x| x == "T:never")) {
            unions.push(vec![i, j]);
            unions.push(vec![j, i]);
            unions.push(vec![i, j, rng.below(n)]);
        }
    }
    let mut subs: Vec<[String; 2]> = vec![];
    let cls: Vec<String> = names.iter().filter(|x| x.starts_with('C') || x.starts_with('K') || *x == "A" || *x == "B").cloned().collect();
    if cls.len() <= 8 {
        for a in &cls { for b in &cls { subs.push([a.clone(), b.clone()]); } for p in ["string", "integer", "table", "number"] { subs.push([a.clone(), p.to_string()]); } }
    } else {
        for _ in 0..12 { subs.push([rng.pick(&cls).clone(), rng.pick(&cls).clone()]); }
        subs.push([cls[cls.len() - 1].clone(), cls[0].clone()]);
        subs.push([cls[0].clone(), cls[cls.len() - 1].clone()]);
    }
    let cfg = json!({"array_index": !rng.chance(1, 4), "doc_base_const_match_base_type": !rng.chance(1, 4)});
    json!({"family": fam, "defs": defs, "names": names, "types": specs, "pairs": pairs, "unions": unions, "subs": subs, "cfg": cfg,
           "edges": edges, "acyclic": acyclic, "deep": deep})
}

// ------------------------------------------------------------------------------------------------ search oracles

fn strip_p(v: &Value) -> Value {
    match v {
        Value::Object(m) => Value::Object(m.iter().filter(|(k, _)| k.as_str() != "p").map(|(k, x)| (k.clone(), strip_p(x))).collect()),
        Value::Array(a) => Value::Array(a.iter().map(strip_p).collect()),
        x => x.clone(),
    }
}

/// members of a type as a set of pointer-free structural dumps
fn member_set(t: &LuaType) -> std::collections::BTreeSet<String> {
    let mut ps = Ptrs::default();
    match t {
        LuaType::Union(u) => u.into_vec().iter().map(|m| strip_p(&tyjson(m, &mut ps)).to_string()).collect(),
        x => [strip_p(&tyjson(x, &mut ps)).to_string()].into_iter().collect(),
    }
}

/// nesting measure: how many guard levels a reflexive check of the type can need (upper estimate 3 per level)
fn nesting(t: &LuaType) -> usize {
    match t {
        LuaType::Array(a) => 1 + nesting(a.get_base()),
        LuaType::Tuple(tp) => 1 + tp.get_types().iter().map(nesting).max().unwrap_or(0),
        LuaType::Union(u) => 1 + u.into_vec().iter().map(nesting).max().unwrap_or(0),
        LuaType::DocFunction(f) => 1 + f.get_params().iter().filter_map(|p| p.1.as_ref()).map(nesting).max().unwrap_or(0),
        _ => 0,
    }
}

/// ids of the named types mentioned by a type (through every constructor of the grammar)
fn mentioned(t: &LuaType, out: &mut Vec<LuaTypeDeclId>) {
    match t {
        LuaType::Ref(id) => { if !out.contains(id) { out.push(id.clone()); } }
        LuaType::Array(a) => mentioned(a.get_base(), out),
        LuaType::Tuple(tp) => tp.get_types().iter().for_each(|m| mentioned(m, out)),
        LuaType::Union(u) => u.into_vec().iter().for_each(|m| mentioned(m, out)),
        LuaType::DocFunction(f) => { f.get_params().iter().filter_map(|p| p.1.as_ref()).for_each(|m| mentioned(m, out)); mentioned(f.get_ret(), out); }
        _ => {}
    }
}

/// all aliases reachable from `t` through alias origins
fn alias_closure(db: &DbIndex, t: &LuaType) -> Vec<LuaTypeDeclId> {
    let mut seen: Vec<LuaTypeDeclId> = vec![];
    let mut todo: Vec<LuaTypeDeclId> = vec![];
    mentioned(t, &mut todo);
    while let Some(id) = todo.pop() {
        if seen.contains(&id) { continue; }
        seen.push(id.clone());
        if let Some(d) = db.get_type_index().get_type_decl(&id) {
            if d.is_alias() {
                if let Some(o) = d.get_alias_ref() { mentioned(o, &mut todo); }
            }
        }
    }
    seen
}

/// how many distinct aliases that are defined in terms of themselves the type mentions (transitively)
fn recursive_aliases(db: &DbIndex, t: &LuaType) -> usize {
    let mut n = 0;
    for id in alias_closure(db, t) {
        if let Some(d) = db.get_type_index().get_type_decl(&id) {
            if d.is_alias() {
                if let Some(o) = d.get_alias_ref() {
                    if alias_closure(db, o).contains(&id) { n += 1; }
                }
            }
        }
    }
    n
}

/// length of the longest alias chain below the type (only meaningful without recursive aliases)
fn alias_depth(db: &DbIndex, t: &LuaType, fuel: usize) -> usize {
    if fuel == 0 { return 0; }
    match t {
        LuaType::Ref(id) => match db.get_type_index().get_type_decl(id) {
            Some(d) if d.is_alias() => match d.get_alias_ref() { Some(o) => 1 + alias_depth(db, o, fuel - 1), None => 0 },
            _ => 0,
        },
        LuaType::Array(a) => alias_depth(db, a.get_base(), fuel),
        LuaType::Union(u) => u.into_vec().iter().map(|m| alias_depth(db, m, fuel)).max().unwrap_or(0),
        LuaType::Tuple(tp) => tp.get_types().iter().map(|m| alias_depth(db, m, fuel)).max().unwrap_or(0),
        _ => 0,
    }
}

/// class of a type with respect to the recursion guard: "deep" (nesting / alias chain beyond what MAX_TYPE_CHECK_LEVEL
/// can cover), "several-recursive-aliases" (two or more self-referential aliases: their cross checks only end at the
/// guard), "recursive-alias" (exactly one), or "shallow"
fn depth_class(db: &DbIndex, t: &LuaType) -> &'static str {
    let max_level = 100usize;
    let rec = recursive_aliases(db, t);
    if rec >= 2 {
        "several-recursive-aliases"
    } else if rec == 1 {
        "recursive-alias"
    } else if 2 * nesting(t) + alias_depth(db, t, 400) + 2 > max_level {
        "nesting-exceeds-guard"
    } else {
        "shallow"
    }
}

struct Found {
    out: Vec<Value>,
    counts: std::collections::BTreeMap<String, usize>,
}

fn classify(res: &str, class: &str) -> String {
    match res {
        "recursion" => format!("recursion:{}", class),
        other => other.to_string(),
    }
}

/// the five laws + the diagnostics oracle on one world; returns number of law evaluations
fn search_case(case: &Value, found: &mut Found, laws: &mut [usize; 6]) {
    let defs = case["defs"].as_str().unwrap_or("").to_string();
    let specs = strs(&case["types"]);
    let mut w = World::new(&defs, &case["cfg"]);
    let tys: Vec<LuaType> = specs.iter().map(|s| w.ty(s)).collect();
    let any = LuaType::Any;
    let unknown = LuaType::Unknown;
    let mut report = |sig: String, what: String, extra: Value| {
        let same = found.out.iter().filter(|v| v["signature"].as_str() == Some(sig.as_str())).count();
        *found.counts.entry(sig.clone()).or_default() += 1;
        if same < 3 {
            found.out.push(json!({"signature": sig, "what": what, "defs": defs, "cfg": case["cfg"], "family": case["family"], "detail": extra}));
        }
    };
    let in_grammar = |t: &LuaType| { let mut ps = Ptrs::default(); !tyjson(t, &mut ps).to_string().contains("\"other\"") };
    for (i, t) in tys.iter().enumerate() {
        if !in_grammar(t) { continue; }
        let deep = depth_class(w.db(), t);
        // law 1: T is accepted where T is expected
        laws[0] += 1;
        let r = w.check(t, t);
        if r != "ok" {
            report(format!("refl:{}", classify(r, deep)), format!("check_type({0}, {0}) = {1}", specs[i], r), json!({"type": specs[i]}));
        }
        // law 4: any / unknown accept everything
        laws[3] += 2;
        for (nm, top) in [("any", &any), ("unknown", &unknown)] {
            let r = w.check(top, t);
            if r != "ok" {
                report(format!("top:{}:{}", nm, classify(r, deep)), format!("check_type({}, {}) = {}", nm, specs[i], r), json!({"type": specs[i]}));
            }
        }
        // law 2: every member of a union is accepted where the union is expected
        if let LuaType::Union(u) = t {
            for m in u.into_vec() {
                laws[1] += 1;
                let r = w.check(t, &m);
                if r != "ok" {
                    let mut ps = Ptrs::default();
                    report(format!("member:{}", classify(r, deep)), format!("member {} of {} is not accepted: {}", strip_p(&tyjson(&m, &mut ps)), specs[i], r),
                           json!({"type": specs[i]}));
                }
            }
        }
    }
    // law 3: a class is accepted where any of its ancestors is expected (declared graph acyclic)
    if case["acyclic"].as_bool().unwrap_or(false) {
        let edges: Vec<(String, String)> = case["edges"].as_array().map(|a| a.iter().map(|e| (e[0].as_str().unwrap_or("").to_string(), e[1].as_str().unwrap_or("").to_string())).collect()).unwrap_or_default();
        let names = strs(&case["names"]);
        let classes: Vec<&String> = names.iter().filter(|n| edges.iter().any(|(a, b)| a == *n || b == *n)).collect();
        let sample: Vec<&String> = if classes.len() > 10 { vec![classes[0], classes[classes.len() - 1], classes[classes.len() / 2], classes[1]] } else { classes.clone() };
        for c in &sample {
            // ancestors of c by BFS over the declared edges
            let mut anc: Vec<String> = vec![];
            let mut todo = vec![(*c).clone()];
            while let Some(x) = todo.pop() {
                for (a, b) in &edges { if *a == x && !anc.contains(b) { anc.push(b.clone()); todo.push(b.clone()); } }
            }
            let anc_sample: Vec<&String> = if anc.len() > 6 { vec![&anc[0], &anc[anc.len() - 1], &anc[anc.len() / 2]] } else { anc.iter().collect() };
            if anc_sample.is_empty() { continue; }
            let ct = w.ty(c);
            for a in anc_sample {
                let at = w.ty(a);
                laws[2] += 1;
                let r = w.check(&at, &ct);
                if r != "ok" {
                    report(format!("ancestor:{}", r), format!("class {} is not accepted where its ancestor {} is expected: {} (chain of {} ancestors)", c, a, r, anc.len()), json!({"class": c, "ancestor": a}));
                }
                if !w.is_sub(c, a) {
                    report("ancestor:is_sub_type_of-false".into(), format!("is_sub_type_of({}, {}) is false", c, a), json!({"class": c, "ancestor": a}));
                }
            }
        }
    }
    // law 5: unioning a batch = unioning one at a time (as sets of members)
    if let Some(us) = case["unions"].as_array() {
        for u in us {
            let idx: Vec<usize> = u.as_array().map(|a| a.iter().map(|x| x.as_u64().unwrap_or(0) as usize).filter(|i| *i < tys.len()).collect()).unwrap_or_default();
            if idx.iter().any(|i| !in_grammar(&tys[*i])) { continue; }
            let ts: Vec<LuaType> = idx.iter().map(|i| tys[*i].clone()).collect();
            laws[4] += 1;
            let all = TypeOps::union_all(w.db(), ts.clone());
            let fold = fold_union(w.db(), &ts);
            if member_set(&all) != member_set(&fold) {
                let names: Vec<&String> = idx.iter().map(|i| &specs[*i]).collect();
                // class of the input: does an alias (Ref to an alias) occur together with never / any ?
                let has_alias = ts.iter().any(|t| matches!(t, LuaType::Ref(id) if w.db().get_type_index().get_type_decl(id).map(|d| d.is_alias()).unwrap_or(false)));
                let has_never = ts.iter().any(|t| t.is_never());
                let sig = if has_alias && has_never { "union-batch:alias-then-never" } else if has_alias { "union-batch:alias" } else { "union-batch:other" };
                report(sig.into(), format!("union_all{:?} = {:?} but one at a time = {:?}", names, member_set(&all), member_set(&fold)), json!({"types": names}));
            }
        }
    }
    // diagnostics oracle: no *-type-mismatch when a T is assigned / passed / returned where T is expected
    for (i, s) in specs.iter().enumerate().take(8) {
        let Some(t) = s.strip_prefix("T:") else { continue };
        if !in_grammar(&tys[i]) || t == "never" { continue; }
        let deep = depth_class(w.db(), &tys[i]);
        laws[5] += 1;
        let prog = format!("---@type {0}\nlocal x\nx = x\n---@param a {0}\n---@param b {0}\n---@return {0}\nlocal function f(a, b)\n  a = b\n  return a\nend\n---@type {0}\nlocal y\n---@type {0}\nlocal z = f(y, y)\nreturn z\n", t);
        let ds = w.mismatch_diags(&prog);
        if let Some(d) = ds.first() {
            let kind = if d.contains("type recursion") { classify("recursion", deep) } else { "nomatch".to_string() };
            report(format!("diag:{}", kind), format!("self-assignment program for `{}` reports {}", t, d.chars().take(160).collect::<String>()), json!({"type": t}));
        }
    }
}

fn main() {
    let args = Args::parse();
    let seed = args.u64("seed", 1);
    let n = args.usize("n", 50);
    let corpus_dir = args.str("corpus", "/verif/corpus/C16");
    let mut corpus: Vec<Value> = vec![];
    if let Ok(rd) = std::fs::read_dir(&corpus_dir) {
        let mut paths: Vec<_> = rd.filter_map(|e| e.ok()).map(|e| e.path()).filter(|p| p.extension().map(|x| x == "json").unwrap_or(false)).collect();
        paths.sort();
        for p in paths {
            if let Ok(txt) = std::fs::read_to_string(&p) {
                if let Ok(v) = serde_json::from_str::<Value>(&txt) { corpus.push(v); }
            }
        }
    }
    match args.cmd.as_str() {
        "diag" => {
            let mut ws = VirtualWorkspace::new();
            ws.def(&args.str("defs", ""));
            ws.enable_full_diagnostic();
            let fid = ws.def(&args.str("prog", ""));
            let ds = ws.analysis.diagnose_file(fid, tokio_util::sync::CancellationToken::new()).unwrap_or_default();
            for d in ds {
                println!("{}", json!({"code": format!("{:?}", d.code), "msg": d.message, "line": d.range.start.line}));
            }
        }
        "guards" => {
            // C12 tie for semantic/guard.rs: random programs of new / fork / check on the real InferGuard;
            // one JSON line per program: the ops and what every check answered
            for case in 0..n {
                let mut rng = Rng::new(seed ^ 0x6A4D ^ ((case as u64).wrapping_mul(0x9E3779B97F4A7C15)));
                rng.next();
                let mut guards: Vec<std::rc::Rc<InferGuard>> = vec![InferGuard::new()];
                let mut ops: Vec<Value> = vec![json!(["new"])];
                let mut answers: Vec<Value> = vec![];
                let nops = rng.range(4, 40);
                let nids = rng.range(1, 6);
                for _ in 0..nops {
                    match rng.below(10) {
                        0 => { guards.push(InferGuard::new()); ops.push(json!(["new"])); }
                        1..=3 => { let g = rng.below(guards.len()); let c = guards[g].fork(); guards.push(c); ops.push(json!(["fork", g])); }
                        _ => {
                            let g = rng.below(guards.len());
                            let id = rng.below(nids) + 1;
                            let r = guards[g].check(&LuaTypeDeclId::global(&format!("G{}", id))).is_ok();
                            ops.push(json!(["check", g, id]));
                            answers.push(json!(r));
                        }
                    }
                }
                println!("{}", json!({"ops": ops, "answers": answers}));
            }
        }
        "humanize" => {
            // C12 tie for the depth guard of TypeHumanizer: nested types rendered with a chosen max_depth;
            // observed: does the text contain the cut marker "..."
            let mut w = World::new("---@class HA\n---@class HB: HA\n", &json!({}));
            for case in 0..n {
                let mut rng = Rng::new(seed ^ 0x4855 ^ ((case as u64).wrapping_mul(0x9E3779B97F4A7C15)));
                rng.next();
                let k = rng.below(18);
                let mut t = rng.pick(&["string", "HA", "integer", "'a'"]).to_string();
                for _ in 0..k {
                    t = match rng.below(6) {
                        0 | 1 | 2 => format!("({})[]", t),
                        3 => format!("({})?", t),
                        4 => format!("[{}, HB]", t),
                        _ => format!("({}) | HB", t),
                    };
                }
                let ty = w.ty(&t);
                let mut ps = Ptrs::default();
                let tj = tyjson(&ty, &mut ps);
                let d = rng.range(1, 16) as u8;
                let mut text = String::new();
                let _ = TypeHumanizer::new(w.db(), RenderLevel::Documentation).with_max_depth(d).write_type(&ty, &mut text);
                let mut text_default = String::new();
                let _ = TypeHumanizer::new(w.db(), RenderLevel::Documentation).write_type(&ty, &mut text_default);
                println!("{}", json!({"spec": t, "type": tj, "max_depth": d, "dots": text.contains("..."), "dots_default": text_default.contains("..."), "text": text}));
            }
        }
        "one" => {
            let case: Value = match args.kv.get("case-file") {
                Some(p) => serde_json::from_str(&std::fs::read_to_string(p).expect("case file")).expect("case json"),
                None => serde_json::from_str(&args.str("case-json", "{}")).expect("case json"),
            };
            println!("{}", observe(&case));
            let mut found = Found { out: vec![], counts: Default::default() };
            let mut laws = [0usize; 6];
            search_case(&case, &mut found, &mut laws);
            for v in &found.out { println!("{}", v); }
        }
        "gen" => println!("{}", gen_case(seed, args.usize("index", 0), args.flag("model"))),
        "corr" => {
            for c in &corpus { println!("{}", observe(c)); }
            for i in 0..n { println!("{}", observe(&gen_case(seed, i, true))); }
        }
        "search" => {
            let mut found = Found { out: vec![], counts: Default::default() };
            let mut laws = [0usize; 6];
            let mut fams: std::collections::BTreeMap<String, usize> = Default::default();
            let mut distinct = std::collections::HashSet::new();
            let mut cases = 0usize;
            for c in corpus.iter().cloned().chain((0..n).map(|i| gen_case(seed, i, false))) {
                search_case(&c, &mut found, &mut laws);
                cases += 1;
                *fams.entry(c["family"].as_str().unwrap_or("corpus").to_string()).or_default() += 1;
                let defs = c["defs"].as_str().unwrap_or("");
                for t in strs(&c["types"]) {
                    if t.contains(|ch: char| "[|?(".contains(ch)) || t.chars().skip(2).next().map(|ch| ch.is_uppercase()).unwrap_or(false) {
                        distinct.insert((defs.to_string(), t));
                    }
                }
            }
            for v in &found.out { println!("{}", v); }
            println!("{}", json!({"summary": {"cases": cases, "evaluations": laws.iter().sum::<usize>(), "distinct_nontrivial": distinct.len(),
                "laws": {"refl": laws[0], "union_member": laws[1], "ancestor": laws[2], "any_unknown_top": laws[3], "union_batch": laws[4], "diagnostics": laws[5]},
                "families": fams, "violations_by_signature": found.counts}}));
        }
        _ => {
            eprintln!("usage: c16 one|gen|corr|search|diag");
            std::process::exit(2);
        }
    }
}
