//! C08 / C09 / C10 harness: per-file fact stores of the analysis (`DbIndex` and its indexes).
//!   c08 corr   --seed S --n N   -> JSON lines: op sequences driven on the REAL LuaPropertyIndex / LuaGlobalIndex /
//!                                  DiagnosticIndex / LuaTypeIndex with observations (queries + H2 sizes) after every op
//!   c08 search --seed S --n N   -> JSON lines: violations of the C08/C09/C10 oracles found end-to-end through
//!                                  EmmyLuaAnalysis (each tagged "prop"), then a summary line
//!   c08 one    --case-json '{}' -> replay one search case
use emmylua_code_analysis::{
    DbIndex, DiagnosticCode, DiagnosticIndex, EmmyLuaAnalysis, Emmyrc, EmmyrcWorkspaceModuleMap, FileId, LuaDeclId, LuaDeclTypeKind, LuaGlobalIndex, LuaIndex,
    LuaMember, LuaMemberFeature, LuaMemberId, LuaMemberIndex, LuaMemberKey, LuaMemberOwner, LuaPropertyIndex, LuaReferenceIndex, LuaSemanticDeclId, LuaType, LuaTypeDecl, LuaTypeDeclId, LuaTypeIndex, RenderLevel,
    WorkspaceFolder, file_path_to_uri, humanize_type,
};
use emmylua_parser::{LuaAstNode, LuaCallExpr, LuaSyntaxId, LuaSyntaxKind, LuaTokenKind, VisibilityKind};
use rowan::{TextRange, TextSize};
use serde_json::{Value, json};
use std::collections::{BTreeMap, BTreeSet, HashSet};
use std::path::PathBuf;
use std::sync::Arc;
use tokio_util::sync::CancellationToken;
use vh_common::{Args, Rng, guarded};

// =====================================================================================================================
// part 1: correspondence — drive the real per-index structs directly
// =====================================================================================================================

fn sizes_json(v: Vec<(&'static str, usize)>) -> Value {
    Value::Array(v.into_iter().map(|(k, n)| json!([k, n])).collect())
}

fn owner_of(k: u64) -> LuaSemanticDeclId {
    LuaSemanticDeclId::TypeDecl(LuaTypeDeclId::global(&format!("T{k}")))
}

const NOWNERS: u64 = 4;
const NFILES: u64 = 4;

/// property index. facts of a file = list of [owner, kind, value]; kind 0 = description "d<value>", 1 = visibility,
/// 2 = deprecated (message "m<value>" or none when value = 0), 3 = source "s<value>", 4 = tag ("see", "t<value>")
fn prop_apply(idx: &mut LuaPropertyIndex, f: u32, facts: &Value) {
    for fact in facts.as_array().cloned().unwrap_or_default() {
        let o = owner_of(fact[0].as_u64().unwrap_or(0));
        let v = fact[2].as_u64().unwrap_or(0);
        let file = FileId { id: f };
        match fact[1].as_u64().unwrap_or(0) {
            0 => {
                idx.add_description(file, o, format!("d{v}"));
            }
            1 => {
                let vis = match v % 4 {
                    0 => VisibilityKind::Public,
                    1 => VisibilityKind::Protected,
                    2 => VisibilityKind::Private,
                    _ => VisibilityKind::Package,
                };
                idx.add_visibility(file, o, vis);
            }
            2 => {
                idx.add_deprecated(file, o, if v == 0 { None } else { Some(format!("m{v}")) });
            }
            3 => {
                idx.add_source(file, o, format!("s{v}"));
            }
            _ => {
                idx.add_see(file, o, format!("t{v}"), None);
            }
        }
    }
}

fn prop_obs(idx: &LuaPropertyIndex) -> Value {
    let mut owners = Vec::new();
    for k in 0..NOWNERS {
        let o = owner_of(k);
        owners.push(match idx.get_property(&o) {
            None => Value::Null,
            Some(p) => {
                let vis = match p.visibility {
                    VisibilityKind::Public => 0,
                    VisibilityKind::Protected => 1,
                    VisibilityKind::Private => 2,
                    VisibilityKind::Package => 3,
                    _ => 9,
                };
                let dep = match p.deprecated() {
                    None => Value::Null,
                    Some(emmylua_code_analysis::LuaDeprecated::Deprecated) => json!(0),
                    Some(emmylua_code_analysis::LuaDeprecated::DeprecatedWithMessage(m)) => json!(m[1..].parse::<u64>().unwrap_or(0)),
                };
                let num = |s: Option<&String>| s.map(|x| json!(x[1..].parse::<u64>().unwrap_or(0))).unwrap_or(Value::Null);
                let tags: Vec<u64> = p.tag_content().map(|t| t.get_all_tags().iter().map(|(_, c)| c[1..].parse::<u64>().unwrap_or(0)).collect()).unwrap_or_default();
                json!({"desc": num(p.description()), "vis": vis, "dep": dep, "src": num(p.source()), "tags": tags})
            }
        });
    }
    json!({"owners": owners, "sizes": sizes_json(idx.verif_sizes())})
}

/// global index. facts = list of [name k, position]
fn glob_apply(idx: &mut LuaGlobalIndex, f: u32, facts: &Value) {
    for fact in facts.as_array().cloned().unwrap_or_default() {
        let name = format!("G{}", fact[0].as_u64().unwrap_or(0));
        let pos = fact[1].as_u64().unwrap_or(0) as u32;
        idx.add_global_decl(&name, LuaDeclId::new(FileId { id: f }, TextSize::from(pos)));
    }
}

fn glob_obs(idx: &LuaGlobalIndex) -> Value {
    let mut names = Vec::new();
    for k in 0..NOWNERS {
        let name = format!("G{k}");
        let ids: Option<Vec<Value>> = idx.get_global_decl_ids(&name).map(|v| v.iter().map(|d| json!([d.file_id.id, u32::from(d.position)])).collect());
        names.push(json!({"ids": ids, "exists": idx.is_exist_global_decl(&name)}));
    }
    let mut all: Vec<(u32, u32)> = idx.get_all_global_decl_ids().iter().map(|d| (d.file_id.id, u32::from(d.position))).collect();
    all.sort();
    json!({"names": names, "all": all, "sizes": sizes_json(idx.verif_sizes())})
}

const CODES: &[DiagnosticCode] = &[DiagnosticCode::UndefinedGlobal, DiagnosticCode::Unused, DiagnosticCode::Deprecated];

/// diagnostic index. facts = list of [kind, code]; kind 0 = file disabled, 1 = file enabled
fn diag_apply(idx: &mut DiagnosticIndex, f: u32, facts: &Value) {
    for fact in facts.as_array().cloned().unwrap_or_default() {
        let code = CODES[(fact[1].as_u64().unwrap_or(0) as usize) % CODES.len()];
        if fact[0].as_u64().unwrap_or(0) == 0 {
            idx.add_file_diagnostic_disabled(FileId { id: f }, code);
        } else {
            idx.add_file_diagnostic_enabled(FileId { id: f }, code);
        }
    }
}

fn diag_obs(idx: &DiagnosticIndex) -> Value {
    let mut rows = Vec::new();
    for f in 1..=NFILES as u32 {
        for c in CODES {
            rows.push(json!([idx.is_file_disabled(&FileId { id: f }, c), idx.is_file_enabled(&FileId { id: f }, c)]));
        }
    }
    json!({"rows": rows, "sizes": sizes_json(idx.verif_sizes())})
}

/// type index. facts = list of [kind, ...]:
///   [0, ns]            add_file_namespace "N<ns>"
///   [1, ns]            add_file_using_namespace "N<ns>"
///   [2, t, start]      add_type_decl class "T<t>" at range start..start+1
///   [3, t, s]          add_super_type T<t> : T<s>
fn type_apply(idx: &mut LuaTypeIndex, f: u32, facts: &Value) {
    let file = FileId { id: f };
    for fact in facts.as_array().cloned().unwrap_or_default() {
        let a = fact[1].as_u64().unwrap_or(0);
        match fact[0].as_u64().unwrap_or(0) {
            0 => idx.add_file_namespace(file, format!("N{a}")),
            1 => idx.add_file_using_namespace(file, format!("N{a}")),
            2 => {
                let start = fact[2].as_u64().unwrap_or(0) as u32;
                let id = LuaTypeDeclId::global(&format!("T{a}"));
                let decl = LuaTypeDecl::new(file, TextRange::new(TextSize::from(start), TextSize::from(start + 1)), format!("T{a}"), LuaDeclTypeKind::Class, Default::default(), id);
                idx.add_type_decl(file, decl);
            }
            _ => {
                let s = fact[2].as_u64().unwrap_or(0);
                idx.add_super_type(LuaTypeDeclId::global(&format!("T{a}")), file, LuaType::Ref(LuaTypeDeclId::global(&format!("T{s}"))));
            }
        }
    }
}

fn type_obs(idx: &LuaTypeIndex) -> Value {
    let mut files = Vec::new();
    for f in 1..=NFILES as u32 {
        let file = FileId { id: f };
        let ns = idx.get_file_namespace(&file).map(|s| s[1..].parse::<u64>().unwrap_or(0));
        let us: Option<Vec<u64>> = idx.get_file_using_namespace(&file).map(|v| v.iter().map(|s| s[1..].parse::<u64>().unwrap_or(0)).collect());
        let decls: Vec<u64> = idx.get_file_type_decls(file).iter().map(|d| d.get_name()[1..].parse::<u64>().unwrap_or(0)).collect();
        files.push(json!({"ns": ns, "using": us, "decls": decls}));
    }
    let mut types = Vec::new();
    for t in 0..NOWNERS {
        let id = LuaTypeDeclId::global(&format!("T{t}"));
        let locs: Option<Vec<Value>> = idx.get_type_decl(&id).map(|d| d.get_locations().iter().map(|l| json!([l.file_id.id, u32::from(l.range.start())])).collect());
        let supers: Option<Vec<u64>> = idx.get_super_types_raw(&id).map(|v| {
            v.iter()
                .map(|s| match s {
                    LuaType::Ref(r) => r.get_name()[1..].parse::<u64>().unwrap_or(0),
                    _ => 99,
                })
                .collect()
        });
        let found = idx.find_type_decl(FileId { id: 1 }, &format!("T{t}"), None).is_some();
        types.push(json!({"locs": locs, "supers": supers, "found": found}));
    }
    json!({"files": files, "types": types, "sizes": sizes_json(idx.verif_sizes())})
}


/// member index. facts = list of [owner t, key k, pos]: add_member(Type(T<t>), member "k<k>" declared at pos)
fn member_id_of(f: u32, pos: u32) -> LuaMemberId {
    LuaMemberId::new(LuaSyntaxId::new(LuaSyntaxKind::TableFieldAssign.into(), TextRange::new(TextSize::from(pos), TextSize::from(pos + 1))), FileId { id: f })
}

const NMOWNERS: u64 = 7;
/// owners 0..3: types T0..T3; owners 4..6: a table literal (element) living in file 1, 2, 3
fn member_owner_of(t: u64) -> LuaMemberOwner {
    if t < NOWNERS {
        LuaMemberOwner::Type(LuaTypeDeclId::global(&format!("T{t}")))
    } else {
        LuaMemberOwner::Element(emmylua_code_analysis::InFiled::new(FileId { id: (t - NOWNERS + 1) as u32 }, TextRange::new(TextSize::from(0), TextSize::from(1))))
    }
}

fn member_owner_index(o: &LuaMemberOwner) -> Option<u64> {
    match o {
        LuaMemberOwner::Type(t) => t.get_name()[1..].parse::<u64>().ok(),
        LuaMemberOwner::Element(e) => Some(NOWNERS + e.file_id.id as u64 - 1),
        _ => None,
    }
}

fn member_apply(idx: &mut LuaMemberIndex, f: u32, facts: &Value) {
    for fact in facts.as_array().cloned().unwrap_or_default() {
        let t = fact[0].as_u64().unwrap_or(0);
        let k = fact[1].as_u64().unwrap_or(0);
        let pos = fact[2].as_u64().unwrap_or(0) as u32;
        let id = member_id_of(f, pos);
        let member = LuaMember::new(id, LuaMemberKey::Name(format!("k{k}").into()), LuaMemberFeature::FileFieldDecl, None);
        idx.add_member(member_owner_of(t), member);
    }
}

fn member_obs(idx: &LuaMemberIndex) -> Value {
    let mut owners = Vec::new();
    for t in 0..NMOWNERS {
        let owner = member_owner_of(t);
        let mut ms: Vec<(String, u32, u32)> = idx
            .get_members(&owner)
            .map(|v| v.iter().map(|m| (m.get_key().to_path(), m.get_file_id().id, u32::from(m.get_id().get_position()))).collect())
            .unwrap_or_default();
        ms.sort();
        owners.push(json!({"present": idx.get_members(&owner).is_some(), "members": ms, "len": idx.get_member_len(&owner)}));
    }
    let mut cur = Vec::new();
    for f in 1..=NFILES as u32 {
        for pos in 0..6u32 {
            let id = member_id_of(f, pos);
            let o = idx.get_current_owner(&id).and_then(member_owner_index);
            cur.push(json!([f, pos, idx.get_member(&id).is_some(), o]));
        }
    }
    json!({"owners": owners, "cur": cur, "sizes": sizes_json(idx.verif_sizes())})
}


/// reference index. facts = list of [kind, name k, pos]: kind 0 = add_global_reference("R<k>"), else add_index_reference(Name "r<k>")
fn sid_of(pos: u32) -> LuaSyntaxId {
    LuaSyntaxId::new(LuaSyntaxKind::NameExpr.into(), TextRange::new(TextSize::from(pos), TextSize::from(pos + 1)))
}

fn ref_apply(idx: &mut LuaReferenceIndex, f: u32, facts: &Value) {
    for fact in facts.as_array().cloned().unwrap_or_default() {
        let k = fact[1].as_u64().unwrap_or(0);
        let pos = fact[2].as_u64().unwrap_or(0) as u32;
        if fact[0].as_u64().unwrap_or(0) == 0 {
            idx.add_global_reference(&format!("R{k}"), FileId { id: f }, sid_of(pos));
        } else {
            idx.add_index_reference(LuaMemberKey::Name(format!("r{k}").into()), FileId { id: f }, sid_of(pos));
        }
    }
}

fn ref_obs(idx: &LuaReferenceIndex) -> Value {
    let canon = |v: Option<Vec<emmylua_code_analysis::InFiled<LuaSyntaxId>>>| -> Value {
        match v {
            None => Value::Null,
            Some(v) => {
                let mut l: Vec<(u32, u32)> = v.iter().map(|r| (r.file_id.id, u32::from(r.value.get_range().start()))).collect();
                l.sort();
                json!(l)
            }
        }
    };
    let mut g = Vec::new();
    let mut ix = Vec::new();
    for k in 0..NOWNERS {
        g.push(canon(idx.get_global_references(&format!("R{k}"))));
        ix.push(canon(idx.get_index_references(&LuaMemberKey::Name(format!("r{k}").into()))));
    }
    json!({"global": g, "index": ix, "sizes": sizes_json(idx.verif_sizes())})
}

fn gen_facts(rng: &mut Rng, index: &str) -> Value {
    let n = rng.below(4);
    let mut v = Vec::new();
    for _ in 0..n {
        match index {
            "property" => v.push(json!([rng.below(NOWNERS as usize), rng.below(5), rng.below(4)])),
            "global" => v.push(json!([rng.below(NOWNERS as usize), rng.below(6)])),
            "diagnostic" => v.push(json!([rng.below(2), rng.below(CODES.len())])),
            "member" => v.push(json!([rng.below(NMOWNERS as usize), rng.below(3), rng.below(6)])),
            "reference" => v.push(json!([rng.below(2), rng.below(NOWNERS as usize), rng.below(5)])),
            _ => match rng.below(6) {
                0 => v.push(json!([0, rng.below(2)])),
                1 => v.push(json!([1, rng.below(2)])),
                2 | 3 | 4 => v.push(json!([2, rng.below(NOWNERS as usize), rng.below(5)])),
                _ => v.push(json!([3, rng.below(NOWNERS as usize), rng.below(NOWNERS as usize)])),
            },
        }
    }
    Value::Array(v)
}


fn fresh_obs(index: &str) -> Value {
    match index {
        "property" => prop_obs(&LuaPropertyIndex::new()),
        "global" => glob_obs(&LuaGlobalIndex::new()),
        "diagnostic" => diag_obs(&DiagnosticIndex::new()),
        "member" => member_obs(&LuaMemberIndex::new()),
        "reference" => ref_obs(&LuaReferenceIndex::new()),
        _ => type_obs(&LuaTypeIndex::new()),
    }
}

/// model-independent oracles on the real per-index structs:
///   C09 kernel: after `clear()` every query and every container count equals those of a new index;
///   C10 kernel: after `remove(f)` no query result mentions file f (the observations carry file ids).
fn kernel_check(index: &str, ops: &[Value], out: &mut Vec<Value>) {
    let case = run_index_case(index, ops);
    let fresh = fresh_obs(index);
    for (i, st) in case["steps"].as_array().cloned().unwrap_or_default().iter().enumerate() {
        let op = &st["op"];
        if op[0] == "clear" && st["obs"] != fresh {
            // name the containers that are not back to zero
            let mut fields = Vec::new();
            for (a, b) in st["obs"]["sizes"].as_array().cloned().unwrap_or_default().iter().zip(fresh["sizes"].as_array().cloned().unwrap_or_default().iter()) {
                if a != b {
                    fields.push(a[0].as_str().unwrap_or("").to_string());
                }
            }
            let what = if fields.is_empty() { "queries".to_string() } else { fields.join("+") };
            out.push(json!({"prop": "C09", "signature": format!("C09:clear-is-not-init:{index}.{what}"), "what": format!("{index} index: after clear() (op {i}) the index differs from a new one: {}", st["obs"]), "case": {"index": index, "ops": ops}}));
        }
    }
}

/// ops: ["add", f, facts] | ["remove", f] | ["clear"]
fn run_index_case(index: &str, ops: &[Value]) -> Value {
    let mut steps = Vec::new();
    macro_rules! drive {
        ($idx:expr, $apply:ident, $obs:ident) => {{
            let mut idx = $idx;
            for op in ops {
                match op[0].as_str().unwrap_or("") {
                    "add" => $apply(&mut idx, op[1].as_u64().unwrap_or(0) as u32, &op[2]),
                    "remove" => idx.remove(FileId { id: op[1].as_u64().unwrap_or(0) as u32 }),
                    _ => idx.clear(),
                }
                steps.push(json!({"op": op, "obs": $obs(&idx)}));
            }
        }};
    }
    match index {
        "property" => drive!(LuaPropertyIndex::new(), prop_apply, prop_obs),
        "global" => drive!(LuaGlobalIndex::new(), glob_apply, glob_obs),
        "diagnostic" => drive!(DiagnosticIndex::new(), diag_apply, diag_obs),
        "member" => drive!(LuaMemberIndex::new(), member_apply, member_obs),
        "reference" => drive!(LuaReferenceIndex::new(), ref_apply, ref_obs),
        _ => drive!(LuaTypeIndex::new(), type_apply, type_obs),
    }
    json!({"index": index, "steps": steps})
}

fn gen_index_ops(rng: &mut Rng, index: &str) -> Vec<Value> {
    let n = rng.range(3, 12);
    let mut ops = Vec::new();
    for _ in 0..n {
        let f = rng.range(1, NFILES as usize);
        match rng.below(10) {
            0..=5 => ops.push(json!(["add", f, gen_facts(rng, index)])),
            6..=8 => ops.push(json!(["remove", f])),
            _ => ops.push(json!(["clear"])),
        }
    }
    ops
}

// =====================================================================================================================
// part 2: end-to-end search through EmmyLuaAnalysis
// =====================================================================================================================

#[derive(Clone, Debug)]
struct WFile {
    path: String, // absolute, e.g. /w/m0.lua or /lib/l1.lua
    text: String,
    alt: String,
}

fn snippet(rng: &mut Rng, idx: usize, nfiles: usize) -> String {
    let k = rng.below(3);
    let j = rng.below(3);
    let fty = ["integer", "string", "boolean"][idx % 3];
    let body = match rng.below(34) {
        // a module table returned by another file, extended / read through the require result
        30 | 31 => format!("require(\"m{}\").extra{idx} = {idx}\n", rng.below(nfiles)),
        32 => format!("local ex{idx}_{j} = require(\"m{}\").extra{}\n", rng.below(nfiles), rng.below(nfiles)),
        33 => format!("local ow{idx}_{j} = require(\"m{}\").own{}\n", rng.below(nfiles), rng.below(nfiles)),
        0 | 1 => format!("---Doc of C{k} written in file {idx}\n---@class C{k}\n---@field a{idx} number\nC{k} = C{k} or {{}}\n"),
        2 | 3 => format!("---@class C{k}\n---@field b{idx} string\n"),
        4 => format!("---@class D{idx}: C{k}\nlocal d{idx} = {{}}\nd{idx}.x = 1\n"),
        5 | 6 => format!("---doc for global G{k} from file {idx}\nG{k} = \"g\"\n"),
        7 | 8 => format!("print(G{k})\n"),
        9 | 10 => format!("local r{idx}_{j} = require(\"m{}\")\n", rng.below(nfiles)),
        11 => format!("---@alias A{k} string|number\n---@type A{k}\nlocal al{idx}_{j} = 1\n"),
        12 => format!("---@enum E{k}\nlocal E{k}_{idx} = {{ X = 1, Y = 2 }}\n"),
        13 => format!("---@diagnostic disable-next-line: unused\nlocal unused{idx}_{j} = 1\n"),
        14 | 15 => format!("---@type C{k}\nlocal v{idx}_{j} = nil\nlocal w{idx}_{j} = v{idx}_{j} and v{idx}_{j}.a{}\n", rng.below(nfiles)),
        16 => format!("function C{k}.m{idx}(x) return x end\n"),
        17 => format!("---@deprecated use other\n---@class C{k}\n"),
        18 => format!("---@class Box{idx}<T>\n---@field v T\n"),
        19 => format!("local mt{idx}_{j} = setmetatable({{}}, {{ __index = C{k} }})\n"),
        20 => format!("---@class C{k}\n---@operator add(C{k}): C{k}\n"),
        21 => format!("---@schema https://example.invalid/s{k}.json\nlocal sch{idx}_{j} = {{}}\n"),
        // the same field of one class declared in several files (with a type that depends on the file)
        22 | 23 => format!("---@class C{k}\n---@field level {fty}\n---@field only{idx} number\n"),
        24 => format!("---@type C{k}\nlocal cv{idx}_{j} = nil\nlocal lv{idx}_{j} = cv{idx}_{j} and cv{idx}_{j}.level\n"),
        // a class split across files whose super clause lives in one of them
        25 | 26 => format!("---@class C{k}: P{j}\n---@field sub{idx} number\n"),
        27 => format!("---@class P{j}\n---@field base_id integer\n"),
        28 => format!("---@type C{k}\nlocal pv{idx}_{j} = nil\nlocal pb{idx}_{j} = pv{idx}_{j} and pv{idx}_{j}.base_id\n"),
        _ => format!("local ra{idx}_{j} = require(\"alias_m{}\")\n", rng.below(nfiles)),
    };
    // a blank line keeps the doc comment of one snippet from merging with the next one
    format!("{body}\n")
}

fn gen_text(rng: &mut Rng, idx: usize, nfiles: usize) -> String {
    let mut s = String::new();
    if rng.chance(1, 10) {
        s.push_str("---@diagnostic disable: undefined-global\n");
    }
    s.push_str(&format!("local M{idx} = {{ own{idx} = {idx} }}\n\n"));
    let n = rng.range(1, 5);
    for _ in 0..n {
        s.push_str(&snippet(rng, idx, nfiles));
    }
    s.push_str(&format!("return M{idx}\n"));
    s
}

/// configurations a history can switch between (the LS applies a new configuration and reindexes)
const NCONFIGS: usize = 6;
fn config_of(k: usize) -> Emmyrc {
    let mut rc = Emmyrc::default();
    match k {
        1 => rc.workspace.module_map = vec![EmmyrcWorkspaceModuleMap { pattern: "^alias_(.*)$".into(), replace: "$1".into() }],
        2 => rc.workspace.module_map = vec![EmmyrcWorkspaceModuleMap { pattern: "^m0$".into(), replace: "m1".into() }, EmmyrcWorkspaceModuleMap { pattern: "^alias_m(.*)$".into(), replace: "sub.m$1".into() }],
        3 => rc.strict.require_path = true,
        4 => rc.runtime.require_pattern = vec!["?.lua".into(), "?/main.lua".into(), "sub/?.lua".into()],
        5 => rc.runtime.extensions = vec![".lua".into(), ".luau".into()],
        _ => {}
    }
    rc
}

fn gen_case(rng: &mut Rng) -> Value {
    let nfiles = rng.range(2, 5);
    let with_lib = rng.chance(1, 2);
    let mut files = Vec::new();
    for i in 0..nfiles {
        let path = if with_lib && i > 0 && rng.chance(1, 2) {
            format!("/lib/m{i}.lua")
        } else if rng.chance(1, 4) {
            format!("/w/sub/m{i}.lua")
        } else {
            format!("/w/m{i}.lua")
        };
        let text = gen_text(rng, i, nfiles);
        let alt = if rng.chance(1, 2) { gen_text(rng, i, nfiles) } else { format!("{text}\n-- trailing edit\nlocal extra{i} = G0\n") };
        files.push(json!({"path": path, "text": text, "alt": alt}));
    }
    let cfg0 = if rng.chance(1, 3) { rng.below(NCONFIGS) } else { 0 };
    let mut steps = Vec::new();
    let n = rng.range(2, 8);
    for _ in 0..n {
        let i = rng.below(nfiles);
        match rng.below(14) {
            0..=3 => steps.push(json!(["resubmit", i])),
            4 => {
                let mut set: Vec<usize> = (0..nfiles).filter(|_| rng.chance(1, 2)).collect();
                if set.is_empty() {
                    set.push(i);
                }
                steps.push(json!(["batch", set]));
            }
            5 | 6 => steps.push(json!(["editrestore", i])),
            7 | 8 => steps.push(json!(["remove", i])),
            9 => steps.push(json!(["readd", i])),
            10 => steps.push(json!(["edit", i])),
            11 => {
                // a configuration change is followed by a reindex, as in the server
                steps.push(json!(["config", if rng.chance(1, 3) { 0 } else { rng.below(NCONFIGS) }]));
                steps.push(json!(["reindex"]));
            }
            _ => steps.push(json!(["reindex"])),
        }
    }
    if rng.chance(1, 2) {
        steps.push(json!(["reindex"]));
    }
    json!({"lib": with_lib, "files": files, "steps": steps, "single": rng.chance(1, 4), "cfg": cfg0})
}

fn new_analysis(with_lib: bool, cfg: usize) -> EmmyLuaAnalysis {
    let mut a = EmmyLuaAnalysis::new();
    a.update_config(Arc::new(config_of(cfg)));
    a.add_main_workspace(PathBuf::from("/w"));
    if with_lib {
        a.add_library_workspace(&WorkspaceFolder::new(PathBuf::from("/lib"), true));
    }
    a
}

fn uri_of(path: &str) -> Option<lsp_types::Uri> {
    file_path_to_uri(&PathBuf::from(path))
}

fn loc(db: &DbIndex, f: FileId, what: String) -> String {
    match db.get_vfs().get_file_path(&f) {
        Some(p) if db.get_vfs().get_syntax_tree(&f).is_some() => format!("{}@{}", p.display(), what),
        _ => format!("<<gone:{}>>@{}", f.id, what),
    }
}

fn rng_str(r: TextRange) -> String {
    format!("{}..{}", u32::from(r.start()), u32::from(r.end()))
}

fn decl_str(db: &DbIndex, id: &LuaSemanticDeclId) -> String {
    match id {
        LuaSemanticDeclId::LuaDecl(d) => loc(db, d.file_id, format!("{}", u32::from(d.position))),
        LuaSemanticDeclId::Member(m) => loc(db, m.file_id, rng_str(m.get_syntax_id().get_range())),
        LuaSemanticDeclId::TypeDecl(t) => format!("type:{}", t.get_name()),
        LuaSemanticDeclId::Signature(s) => loc(db, s.get_file_id(), format!("sig{}", u32::from(s.get_position()))),
    }
}

fn prop_str(db: &DbIndex, owner: &LuaSemanticDeclId) -> Option<String> {
    let p = db.get_property_index().get_property(owner)?;
    Some(format!(
        "desc={:?} vis={:?} dep={:?} src={:?} tags={:?} ver={} attrs={}",
        p.description(),
        p.visibility,
        p.deprecated(),
        p.source(),
        p.tag_content().map(|t| t.get_all_tags().to_vec()),
        p.version_conds().map(|v| v.len()).unwrap_or(0),
        p.attribute_uses().map(|a| a.len()).unwrap_or(0)
    ))
}

fn key_str(db: &DbIndex, k: &LuaMemberKey) -> String {
    match k {
        LuaMemberKey::None => "<none>".into(),
        LuaMemberKey::Integer(i) => format!("[{i}]"),
        LuaMemberKey::Name(n) => n.to_string(),
        LuaMemberKey::TypeKey(t) => format!("[{}]", humanize_type(db, t, RenderLevel::Simple)),
    }
}

/// the full observable dump: one canonical line per fact, files named by path (never by id)
fn dump(a: &EmmyLuaAnalysis, live: &[(String, FileId)]) -> BTreeSet<String> {
    let mut out = BTreeSet::new();
    let db = a.compilation.get_db();
    for (path, id) in live {
        // diagnostics
        match a.diagnose_file(*id, CancellationToken::new()) {
            None => {
                out.insert(format!("diag|{path}|<none>"));
            }
            Some(ds) => {
                for d in ds {
                    let code = match &d.code {
                        Some(lsp_types::NumberOrString::String(s)) => s.clone(),
                        Some(lsp_types::NumberOrString::Number(n)) => n.to_string(),
                        None => "-".into(),
                    };
                    let related: Vec<String> = d.related_information.as_ref().map(|v| v.iter().map(|r| format!("{}:{}:{}", r.location.uri.as_str(), r.location.range.start.line, r.message)).collect()).unwrap_or_default();
                    out.insert(format!("diag|{path}|{}:{}-{}:{}|{code}|{}|{:?}", d.range.start.line, d.range.start.character, d.range.end.line, d.range.end.character, d.message, related));
                }
            }
        }
        // module info
        if let Some(m) = db.get_module_index().get_module(*id) {
            let export = m.export_type.as_ref().map(|t| humanize_type(db, t, RenderLevel::Detailed));
            out.insert(format!("mod|{path}|{}|ws={}|hidden={}|meta={}|export={:?}|sem={:?}", m.full_module_name, m.workspace_id.id, m.visible.is_hidden(), m.is_meta, export, m.semantic_id.as_ref().map(|s| decl_str(db, s))));
            // the members of the table the module returns (its own fields and the ones other files added through require)
            if let Some(LuaType::TableConst(inf)) = &m.export_type {
                if let Some(members) = db.get_member_index().get_members(&LuaMemberOwner::Element(inf.clone())) {
                    for mm in members {
                        let ty = db.get_type_index().get_type_cache(&mm.get_id().into()).map(|c| humanize_type(db, c.as_type(), RenderLevel::Simple));
                        out.insert(format!("member|export:{path}|{}|{}|type={ty:?}", key_str(db, mm.get_key()), loc(db, mm.get_file_id(), rng_str(mm.get_range()))));
                    }
                }
            }
        } else {
            out.insert(format!("mod|{path}|<none>"));
        }
        let Some(sm) = a.compilation.get_semantic_model(*id) else {
            out.insert(format!("sem|{path}|<none>"));
            continue;
        };
        let root = sm.get_root().clone();
        // per-token semantic info (types, definitions, hover-level docs)
        for el in root.syntax().descendants_with_tokens() {
            let Some(tok) = el.into_token() else { continue };
            let kind: LuaTokenKind = tok.kind().into();
            if kind != LuaTokenKind::TkName {
                continue;
            }
            let off = u32::from(tok.text_range().start());
            match sm.get_semantic_info(rowan::NodeOrToken::Token(tok.clone())) {
                None => {
                    out.insert(format!("tokty|{path}|{off}|{}|<none>", tok.text()));
                }
                Some(info) => {
                    let ty = humanize_type(db, &info.typ, RenderLevel::Detailed);
                    let (d, doc) = match &info.semantic_decl {
                        Some(d) => (decl_str(db, d), prop_str(db, d)),
                        None => ("-".to_string(), None),
                    };
                    out.insert(format!("tokty|{path}|{off}|{}|{ty}", tok.text()));
                    out.insert(format!("tokdef|{path}|{off}|{}|{d}", tok.text()));
                    out.insert(format!("tokdoc|{path}|{off}|{}|{doc:?}", tok.text()));
                }
            }
        }
        // requires
        for call in root.descendants::<LuaCallExpr>() {
            if !call.is_require() {
                continue;
            }
            let q = call.get_args_list().and_then(|l| l.get_args().next()).map(|e| e.syntax().text().to_string()).unwrap_or_default();
            let qq = q.trim_matches('"').to_string();
            let target = db.get_module_index().find_module(&qq).map(|m| loc(db, m.file_id, m.full_module_name.clone()));
            out.insert(format!("req|{path}|{}|{q}|{target:?}", u32::from(call.get_position())));
        }
        // files this file depends on (require edges)
        if let Some(deps) = db.get_file_dependencies_index().get_required_files(id) {
            let v: BTreeSet<String> = deps.iter().map(|d| loc(db, *d, "dep".into())).collect();
            out.insert(format!("dep|{path}|{v:?}"));
        }
        // local references of every declaration of the file
        if let Some(tree) = db.get_decl_index().get_decl_tree(id) {
            for (did, decl) in tree.get_decls() {
                let refs: BTreeSet<String> = db
                    .get_reference_index()
                    .get_decl_references(id, did)
                    .map(|r| r.cells.iter().map(|c| rng_str(c.range)).collect())
                    .unwrap_or_default();
                out.insert(format!("decl|{path}|{}|{}|global={}|refs={refs:?}", decl.get_name(), u32::from(did.position), decl.is_global()));
            }
        }
    }
    // globals
    let mut gnames = BTreeSet::new();
    for d in db.get_global_index().get_all_global_decl_ids() {
        let name = db.get_decl_index().get_decl(&d).map(|x| x.get_name().to_string()).unwrap_or_else(|| "<dangling>".into());
        gnames.insert(name.clone());
        out.insert(format!("global|{name}|{}", loc(db, d.file_id, format!("{}", u32::from(d.position)))));
    }
    for k in 0..3 {
        gnames.insert(format!("G{k}"));
        gnames.insert(format!("C{k}"));
    }
    gnames.insert("print".into());
    for name in &gnames {
        if let Some(ids) = db.get_global_index().get_global_decl_ids(name) {
            let v: Vec<String> = ids.iter().map(|d| loc(db, d.file_id, format!("{}", u32::from(d.position)))).collect();
            out.insert(format!("globalq|{name}|{v:?}"));
        }
        if let Some(refs) = db.get_reference_index().get_global_references(name) {
            let v: BTreeSet<String> = refs.iter().map(|r| loc(db, r.file_id, rng_str(r.value.get_range()))).collect();
            out.insert(format!("gref|{name}|{v:?}"));
        }
    }
    // types, supers, members, docs, type references
    let mut tnames: BTreeSet<String> = BTreeSet::new();
    for t in db.get_type_index().get_all_types() {
        let id = t.get_id();
        tnames.insert(id.get_name().to_string());
        let locs: BTreeSet<String> = t.get_locations().iter().map(|l| loc(db, l.file_id, rng_str(l.range))).collect();
        let supers: Vec<String> = db.get_type_index().get_super_types_raw(&id).map(|v| v.iter().map(|s| humanize_type(db, s, RenderLevel::Simple)).collect()).unwrap_or_default();
        let gp: Vec<String> = db.get_type_index().get_generic_params(&id).map(|v| v.iter().map(|p| p.name.to_string()).collect()).unwrap_or_default();
        let kind = if t.is_class() { "class" } else if t.is_enum() { "enum" } else { "alias" };
        let origin = t.get_alias_ref().map(|o| humanize_type(db, o, RenderLevel::Detailed));
        out.insert(format!("type|{}|{kind}|locs={locs:?}|supers={supers:?}|generics={gp:?}|alias={origin:?}|partial={}|exact={}", id.get_name(), t.is_partial(), t.is_exact()));
        out.insert(format!("doc|type:{}|{:?}", id.get_name(), prop_str(db, &LuaSemanticDeclId::TypeDecl(id.clone()))));
        if let Some(members) = db.get_member_index().get_members(&LuaMemberOwner::Type(id.clone())) {
            for m in members {
                let ty = db.get_type_index().get_type_cache(&m.get_id().into()).map(|c| humanize_type(db, c.as_type(), RenderLevel::Simple));
                out.insert(format!(
                    "member|{}|{}|{}|type={ty:?}|doc={:?}",
                    id.get_name(),
                    key_str(db, m.get_key()),
                    loc(db, m.get_file_id(), rng_str(m.get_range())),
                    prop_str(db, &LuaSemanticDeclId::Member(m.get_id()))
                ));
            }
        }
        if let Some(refs) = db.get_reference_index().get_type_references(&id) {
            let v: BTreeSet<String> = refs.iter().map(|r| loc(db, r.file_id, rng_str(r.value))).collect();
            if !v.is_empty() {
                out.insert(format!("tref|{}|{v:?}", id.get_name()));
            }
        }
        let ops = db.get_operator_index().get_operators(&id.clone().into(), emmylua_code_analysis::LuaOperatorMetaMethod::Add).map(|v| v.len());
        if let Some(n) = ops {
            out.insert(format!("op|{}|add|{n}", id.get_name()));
        }
    }
    for k in 0..3 {
        for pre in ["C", "A", "E"] {
            let name = format!("{pre}{k}");
            if !tnames.contains(&name) {
                // stale facts about a type that no longer exists
                let id = LuaTypeDeclId::global(&name);
                if let Some(s) = db.get_type_index().get_super_types_raw(&id) {
                    out.insert(format!("stale-supers|{name}|{}", s.len()));
                }
                if let Some(m) = db.get_member_index().get_members(&LuaMemberOwner::Type(id.clone())) {
                    for mm in m {
                        out.insert(format!("stale-member|{name}|{}|{}", key_str(db, mm.get_key()), loc(db, mm.get_file_id(), rng_str(mm.get_range()))));
                    }
                }
                if let Some(p) = prop_str(db, &LuaSemanticDeclId::TypeDecl(id)) {
                    out.insert(format!("stale-doc|type:{name}|{p}"));
                }
            }
        }
    }
    // string references to module names
    for i in 0..6 {
        let s = format!("m{i}");
        let v: BTreeSet<String> = db.get_reference_index().get_string_references(&s).iter().map(|r| loc(db, r.file_id, rng_str(r.value))).collect();
        if !v.is_empty() {
            out.insert(format!("sref|{s}|{v:?}"));
        }
    }
    out
}

fn sizes(a: &EmmyLuaAnalysis) -> BTreeMap<String, usize> {
    a.compilation.get_db().verif_sizes().into_iter().map(|(i, f, n)| (format!("{i}.{f}"), n)).collect()
}

/// containers whose count is allowed to differ from a fresh analysis: file-id slots are never re-used by design
fn size_exempt(k: &str) -> bool {
    k == "vfs.file_data/slots"
}

struct Fresh {
    dump: BTreeSet<String>,
    sizes: BTreeMap<String, usize>,
    deterministic: bool,
}

fn fresh_analysis(with_lib: bool, cfg: usize, files: &[(String, String)]) -> (EmmyLuaAnalysis, Vec<(String, FileId)>) {
    let mut a = new_analysis(with_lib, cfg);
    let batch: Vec<_> = files.iter().filter_map(|(p, t)| uri_of(p).map(|u| (u, Some(t.clone())))).collect();
    a.update_files_by_uri(batch);
    let live: Vec<(String, FileId)> = files.iter().filter_map(|(p, _)| uri_of(p).and_then(|u| a.get_file_id(&u)).map(|id| (p.clone(), id))).collect();
    (a, live)
}

/// fresh analysis of `files` (path, text) in this order; repeated `runs` times to detect non-determinism (C11)
fn fresh(with_lib: bool, cfg: usize, files: &[(String, String)], runs: usize) -> Fresh {
    let mut first: Option<(BTreeSet<String>, BTreeMap<String, usize>)> = None;
    let mut deterministic = true;
    for _ in 0..runs {
        let (a, live) = fresh_analysis(with_lib, cfg, files);
        let d = dump(&a, &live);
        let s = sizes(&a);
        match &first {
            None => first = Some((d, s)),
            Some((d0, s0)) => {
                if *d0 != d || *s0 != s {
                    deterministic = false;
                }
            }
        }
    }
    let (dump, sizes) = first.unwrap_or_default();
    Fresh { dump, sizes, deterministic }
}

fn diff_lines(a: &BTreeSet<String>, b: &BTreeSet<String>) -> (Vec<String>, Vec<String>) {
    (a.difference(b).cloned().collect(), b.difference(a).cloned().collect())
}

/// entities that several files contribute to
struct Shared {
    types: BTreeSet<String>,   // declared by @class/@enum/@alias in more than one file
    globals: BTreeSet<String>, // assigned in more than one file
    fields: BTreeSet<String>,  // @field of that name in more than one file
}

fn norm_supers(l: &str) -> String {
    // `...|supers=["P0", "P2"]|...` with the list sorted
    if let (Some(i), Some(j)) = (l.find("|supers=["), l.find("]|generics=")) {
        let inner = &l[i + 9..j];
        let mut items: Vec<&str> = inner.split(", ").collect();
        items.sort();
        return format!("{}{}{}", &l[..i + 9], items.join(", "), &l[j..]);
    }
    l.to_string()
}

/// which recorded mechanism, or else which part of the observable dump, each differing line belongs to.
/// Mechanisms (each a recorded finding: several files contribute to ONE key and the index keeps the contributions in
/// submission order, or keeps only the last one):
///   shared-owner-doc      : description / deprecation / visibility kept by LuaPropertyIndex per OWNER
///   global-decl-order     : declarations of one global in LuaGlobalIndex (active only when the `globalq|G` line differs)
///   member-decl-order     : declarations of one field of one class in LuaMemberIndex (definition target only)
///   supers-order          : super clauses of one class in LuaTypeIndex (same set, different order)
///   duplicate-module-path : files registered under one module path in LuaModuleIndex
/// everything else is named after the section of the dump that differs.
fn tags_of(only_before: &[String], only_after: &[String], sh: &Shared, dup_modules: bool) -> BTreeSet<String> {
    line_tags(only_before, only_after, sh, dup_modules).into_iter().map(|x| x.1).collect()
}

/// (line, tag) for every differing line
fn line_tags(only_before: &[String], only_after: &[String], sh: &Shared, dup_modules: bool) -> Vec<(String, String)> {
    let all: Vec<&String> = only_before.iter().chain(only_after.iter()).collect();
    let mut active_globals: BTreeSet<String> = BTreeSet::new();
    for l in &all {
        let f: Vec<&str> = l.splitn(3, '|').collect();
        if f[0] == "globalq" && f.len() > 1 && sh.globals.contains(f[1]) {
            active_globals.insert(f[1].to_string());
        }
    }
    let nb: BTreeSet<String> = only_before.iter().filter(|l| l.starts_with("type|")).map(|l| norm_supers(l)).collect();
    let na: BTreeSet<String> = only_after.iter().filter(|l| l.starts_with("type|")).map(|l| norm_supers(l)).collect();
    // a member line without its location: `member|T|key|<loc>|type=..|doc=..`
    let norm_member = |l: &str| -> String {
        let f: Vec<&str> = l.splitn(5, '|').collect();
        if f.len() == 5 { format!("{}|{}|{}|{}", f[0], f[1], f[2], f[4]) } else { l.to_string() }
    };
    let count = |ls: &[String], n: &str| ls.iter().filter(|l| l.starts_with("member|") && norm_member(l) == n).count();
    let mut tags: Vec<(String, String)> = Vec::new();
    for l in &all {
        let f: Vec<&str> = l.splitn(5, '|').collect();
        let name1 = f.get(1).copied().unwrap_or("");
        let tok_name = f.get(3).copied().unwrap_or("");
        let tag = match f[0] {
            "doc" | "stale-doc" => {
                if name1.strip_prefix("type:").map(|t| sh.types.contains(t)).unwrap_or(false) { "shared-owner-doc" } else { "hover-doc" }
            }
            "tokdoc" => {
                if active_globals.contains(tok_name) {
                    "global-decl-order"
                } else if sh.types.contains(tok_name) {
                    "shared-owner-doc"
                } else {
                    "hover-doc"
                }
            }
            "diag" => {
                if l.contains("|deprecated|") && !sh.types.is_empty() { "shared-owner-doc" } else { "diagnostics" }
            }
            "globalq" => {
                if active_globals.contains(name1) { "global-decl-order" } else { "globals" }
            }
            "tokdef" => {
                if active_globals.contains(tok_name) {
                    "global-decl-order"
                } else if sh.fields.contains(tok_name) {
                    "member-decl-order"
                } else {
                    "definition-target"
                }
            }
            "tokty" => "inferred-type",
            "member" => {
                // the same member (owner, key, type, doc) on both sides, the same number of times: only WHICH file's
                // declaration is listed changed
                let n = norm_member(l);
                if count(only_before, &n) == count(only_after, &n) { "member-decl-order" } else { "member-set" }
            }
            "stale-member" => "member-set",
            "type" => {
                let n = norm_supers(l);
                if nb.contains(&n) && na.contains(&n) { "supers-order" } else { "type-decl" }
            }
            "stale-supers" => "type-decl",
            "req" | "mod" | "dep" => {
                if dup_modules { "duplicate-module-path" } else if f[0] == "dep" { "dependency-edges" } else { "module-resolution" }
            }
            "global" | "gref" => "globals",
            "decl" => "declarations-and-references",
            "tref" | "sref" => "references",
            "op" => "operators",
            other => other,
        };
        tags.push(((*l).clone(), tag.to_string()));
    }
    tags
}

fn is_mechanism(t: &str) -> bool {
    matches!(t, "shared-owner-doc" | "global-decl-order" | "member-decl-order" | "supers-order" | "duplicate-module-path" | "library-before-main-order")
}

/// two live files registered under one full module name?
fn has_dup_modules(d: &BTreeSet<String>) -> bool {
    let mut seen = BTreeSet::new();
    for l in d {
        if let Some(rest) = l.strip_prefix("mod|") {
            let f: Vec<&str> = rest.splitn(3, '|').collect();
            if f.len() >= 2 && f[1] != "<none>" && !seen.insert(f[1].to_string()) {
                return true;
            }
        }
    }
    false
}

fn sections_of(only_before: &[String], only_after: &[String]) -> String {
    let mut sections: BTreeSet<String> = BTreeSet::new();
    for l in only_before.iter().chain(only_after.iter()) {
        sections.insert(l.split('|').next().unwrap_or("?").to_string());
    }
    sections.into_iter().collect::<Vec<_>>().join("+")
}

fn remap(path: &str, remap_lib: bool) -> String {
    if remap_lib {
        if let Some(rest) = path.strip_prefix("/lib/") {
            return format!("/w/lib_/{rest}");
        }
    }
    path.to_string()
}

fn shared_entities(files: &[WFile]) -> Shared {
    let mut types: BTreeMap<String, BTreeSet<usize>> = BTreeMap::new();
    let mut globals: BTreeMap<String, BTreeSet<usize>> = BTreeMap::new();
    let mut fields: BTreeMap<String, BTreeSet<usize>> = BTreeMap::new();
    let ident = |t: &str| -> String { t.chars().take_while(|c| c.is_alphanumeric() || *c == '_').collect() };
    for (i, f) in files.iter().enumerate() {
        for txt in [&f.text, &f.alt] {
            for line in txt.lines() {
                for tag in ["---@class ", "---@enum ", "---@alias "] {
                    if let Some(rest) = line.strip_prefix(tag) {
                        types.entry(ident(rest.trim_start_matches("(partial) "))).or_default().insert(i);
                    }
                }
                if let Some(rest) = line.strip_prefix("---@field ") {
                    fields.entry(ident(rest)).or_default().insert(i);
                }
                let t = line.trim_start();
                let name = ident(t);
                let rest = t[name.len()..].trim_start();
                if !name.is_empty() && rest.starts_with('=') && !rest.starts_with("==") {
                    globals.entry(name).or_default().insert(i);
                }
            }
        }
    }
    let multi = |m: BTreeMap<String, BTreeSet<usize>>| -> BTreeSet<String> { m.into_iter().filter(|(_, fs)| fs.len() > 1).map(|(t, _)| t).collect() };
    Shared { types: multi(types), globals: multi(globals), fields: multi(fields) }
}

/// returns whether anything was judged. `remap_lib`: run the same case with the library files moved into the main
/// workspace (used to classify a violation as caused by the library-before-main analysis order)
/// every `---@class X: ...` line gets the same (sorted, de-duplicated) parent list for X: neutralises the order of super clauses
fn canon_supers(texts: &mut [WFile]) {
    let mut parents: BTreeMap<String, BTreeSet<String>> = BTreeMap::new();
    let parse = |line: &str| -> Option<(String, Vec<String>)> {
        let rest = line.strip_prefix("---@class ")?;
        let (name, ps) = rest.split_once(':')?;
        Some((name.trim().to_string(), ps.split(',').map(|x| x.trim().to_string()).filter(|x| !x.is_empty()).collect()))
    };
    for f in texts.iter() {
        for txt in [&f.text, &f.alt] {
            for line in txt.lines() {
                if let Some((n, ps)) = parse(line) {
                    parents.entry(n).or_default().extend(ps);
                }
            }
        }
    }
    let fix = |txt: &str| -> String {
        txt.lines()
            .map(|line| match parse(line) {
                Some((n, _)) => format!("---@class {n}: {}", parents.get(&n).map(|p| p.iter().cloned().collect::<Vec<_>>().join(", ")).unwrap_or_default()),
                None => line.to_string(),
            })
            .collect::<Vec<_>>()
            .join("\n")
            + "\n"
    };
    for f in texts.iter_mut() {
        f.text = fix(&f.text);
        f.alt = fix(&f.alt);
    }
}

/// `mode`: 0 = the case as given; bit 1 = library files moved into the main workspace; bit 2 = super clauses made
/// identical in every declaration of a class.  The variants are used to attribute a difference to a recorded mechanism.
fn run_case(case: &Value, out: &mut Vec<Value>, stats: &mut BTreeMap<String, usize>, mode: u8) -> bool {
    let remap_lib = mode & 1 != 0;
    let with_lib = case["lib"].as_bool().unwrap_or(false) && !remap_lib;
    let single = case["single"].as_bool().unwrap_or(false);
    // bit 4: no moduleMap at all (every configuration replaced by the default one): no two files share a module path
    let no_map = mode & 4 != 0;
    let mut cfg = if no_map { 0 } else { case["cfg"].as_u64().unwrap_or(0) as usize };
    let mut files: Vec<WFile> = case["files"]
        .as_array()
        .map(|a| a.iter().map(|f| WFile { path: remap(f["path"].as_str().unwrap_or(""), remap_lib), text: f["text"].as_str().unwrap_or("").into(), alt: f["alt"].as_str().unwrap_or("").into() }).collect())
        .unwrap_or_default();
    if mode & 2 != 0 {
        canon_supers(&mut files);
    }
    let files = files;
    let steps: Vec<Value> = case["steps"].as_array().cloned().unwrap_or_default();
    let n = files.len();
    let mut cur: Vec<Option<String>> = files.iter().map(|f| Some(f.text.clone())).collect();
    let initial: Vec<(String, String)> = files.iter().map(|f| (f.path.clone(), f.text.clone())).collect();
    let fr0 = fresh(with_lib, cfg, &initial, 3);
    if !fr0.deterministic {
        *stats.entry("excluded_nondeterministic_fresh".into()).or_default() += 1;
        return false;
    }
    let mut a = new_analysis(with_lib, cfg);
    if single {
        for f in &files {
            if let Some(u) = uri_of(&f.path) {
                a.update_file_by_uri(&u, Some(f.text.clone()));
            }
        }
        a.reindex();
    } else {
        let batch: Vec<_> = files.iter().filter_map(|f| uri_of(&f.path).map(|u| (u, Some(f.text.clone())))).collect();
        a.update_files_by_uri(batch);
    }
    let live_of = |a: &EmmyLuaAnalysis, cur: &Vec<Option<String>>| -> Vec<(String, FileId)> {
        (0..n).filter(|i| cur[*i].is_some()).filter_map(|i| uri_of(&files[i].path).and_then(|u| a.get_file_id(&u)).map(|id| (files[i].path.clone(), id))).collect()
    };
    let survivors = |cur: &Vec<Option<String>>| -> Vec<(String, String)> { (0..n).filter_map(|j| cur[j].clone().map(|t| (files[j].path.clone(), t))).collect() };
    let sh = shared_entities(&files);
    let mut baseline_dump = dump(&a, &live_of(&a, &cur));
    let mut baseline_sizes = sizes(&a);
    let mut consistent = true;
    let mut judged = false;
    if !single && (baseline_dump != fr0.dump) {
        *stats.entry("excluded_nondeterministic_fresh".into()).or_default() += 1;
        return false;
    }
    let mut seen_sigs: HashSet<String> = HashSet::new();
    let mut report = |prop: &str, sig: String, what: String, detail: Value| {
        if seen_sigs.insert(sig.clone()) {
            out.push(json!({"prop": prop, "signature": sig, "what": what, "detail": detail, "case": case}));
        }
    };
    // tags of a dump difference, with the library-before-main causal test: raw (non-mechanism) tags that vanish at
    // this step when the library files live in the main workspace are attributed to that recorded mechanism
    let classify = |prefix: &str, si: usize, b: &[String], af: &[String], dup: bool| -> BTreeSet<String> {
        let mut tags = tags_of(b, af, &sh, dup);
        if mode != 0 {
            return tags;
        }
        // causal attribution: re-run the case with one recorded mechanism neutralised; the section tags that vanish
        // at this step belong to that mechanism
        let mut variants: Vec<(u8, &str)> = Vec::new();
        if with_lib {
            variants.push((1, "library-before-main-order"));
        }
        if tags.contains("supers-order") {
            variants.push((2, "supers-order"));
        }
        if tags.contains("duplicate-module-path") {
            variants.push((4, "duplicate-module-path"));
        }
        // single mechanisms first, then (when several are in play) all of them neutralised together
        let mut trials: Vec<(u8, Vec<&str>)> = variants.iter().map(|(m, n)| (*m, vec![*n])).collect();
        if variants.len() >= 2 {
            trials.push((variants.iter().fold(0u8, |acc, (m, _)| acc | m), variants.iter().map(|(_, n)| *n).collect()));
        }
        for (m, names) in trials {
            let raw: Vec<String> = tags.iter().filter(|t| !is_mechanism(t)).cloned().collect();
            if raw.is_empty() {
                break;
            }
            let mut o2 = Vec::new();
            let mut st2 = BTreeMap::new();
            run_case(case, &mut o2, &mut st2, m);
            let still: BTreeSet<String> = o2
                .iter()
                .filter(|v| v["detail"]["step"] == json!(si) && v["signature"].as_str().map(|s| s.starts_with(prefix)).unwrap_or(false))
                .flat_map(|v| v["detail"]["tags"].as_array().cloned().unwrap_or_default())
                .filter_map(|t| t.as_str().map(|x| x.to_string()))
                .collect();
            let gone: Vec<String> = raw.into_iter().filter(|t| !still.contains(t)).collect();
            if !gone.is_empty() {
                for t in gone {
                    tags.remove(&t);
                }
                for name in names {
                    tags.insert(name.to_string());
                }
            }
        }
        tags
    };
    let recheck_nondeterministic = |cur: &Vec<Option<String>>, cfg: usize| -> bool { !fresh(with_lib, cfg, &survivors(cur), 10).deterministic };
    for (si, step) in steps.iter().enumerate() {
        let kind = step[0].as_str().unwrap_or("").to_string();
        let i = step[1].as_u64().unwrap_or(0) as usize;
        if mode == 0 {
            *stats.entry(format!("step:{kind}")).or_default() += 1;
        }
        match kind.as_str() {
            "resubmit" | "batch" | "editrestore" => {
                match kind.as_str() {
                    "resubmit" => {
                        if let (Some(t), Some(u)) = (cur.get(i).cloned().flatten(), files.get(i).and_then(|f| uri_of(&f.path))) {
                            a.update_file_by_uri(&u, Some(t));
                        }
                    }
                    "batch" => {
                        let set: Vec<usize> = step[1].as_array().map(|v| v.iter().map(|x| x.as_u64().unwrap_or(0) as usize).collect()).unwrap_or_default();
                        let batch: Vec<_> = set.iter().filter_map(|j| cur.get(*j).cloned().flatten().and_then(|t| uri_of(&files[*j].path).map(|u| (u, Some(t))))).collect();
                        a.update_files_by_uri(batch);
                    }
                    _ => {
                        if let (Some(t), Some(u)) = (cur.get(i).cloned().flatten(), files.get(i).and_then(|f| uri_of(&f.path))) {
                            let edited = if t == files[i].alt { files[i].text.clone() } else { files[i].alt.clone() };
                            a.update_file_by_uri(&u, Some(edited));
                            a.update_file_by_uri(&u, Some(t));
                        }
                    }
                }
                if consistent {
                    judged = true;
                    let d = dump(&a, &live_of(&a, &cur));
                    let s = sizes(&a);
                    if d != baseline_dump {
                        if recheck_nondeterministic(&cur, cfg) {
                            *stats.entry("excluded_nondeterministic_fresh".into()).or_default() += 1;
                            return judged;
                        }
                        let (b, af) = diff_lines(&baseline_dump, &d);
                        let tags = classify("C08:resubmit-changes:", si, &b, &af, has_dup_modules(&baseline_dump) || has_dup_modules(&d));
                        let all_tags: Vec<String> = tags.iter().cloned().collect();
                        let raw: Vec<String> = tags.iter().filter(|t| !is_mechanism(t)).cloned().collect();
                        let what = format!("step {si} ({kind} {}): observable results changed after re-submitting unchanged content: {} line(s) lost, {} new; first lost: {:?}; first new: {:?}", step[1], b.len(), af.len(), b.first(), af.first());
                        let lt = line_tags(&b, &af, &sh, has_dup_modules(&baseline_dump) || has_dup_modules(&d));
                        let unexplained: Vec<&String> = lt.iter().filter(|x| !is_mechanism(&x.1)).map(|x| &x.0).take(12).collect();
                        let detail = json!({"step": si, "tags": all_tags, "unexplained": unexplained, "lost": b.iter().take(8).collect::<Vec<_>>(), "new": af.iter().take(8).collect::<Vec<_>>()});
                        if !raw.is_empty() {
                            report("C08", format!("C08:resubmit-changes:{}", raw.join("+")), what.clone(), detail.clone());
                        }
                        for t in tags.iter().filter(|t| is_mechanism(t)) {
                            report("C08", format!("C08:resubmit-changes:{t}"), what.clone(), detail.clone());
                        }
                        consistent = false;
                        continue;
                    }
                    let mut remapped: Option<Vec<Value>> = None;
                    for (k, v) in &s {
                        let b0 = *baseline_sizes.get(k).unwrap_or(&0);
                        if !size_exempt(k) && *v > b0 {
                            let mut sig = format!("C08:growth:{k}");
                            if with_lib && mode == 0 {
                                let o2 = remapped.get_or_insert_with(|| {
                                    let mut o2 = Vec::new();
                                    let mut st2 = BTreeMap::new();
                                    run_case(case, &mut o2, &mut st2, 1);
                                    o2
                                });
                                if !o2.iter().any(|x| x["detail"]["step"] == json!(si) && x["signature"] == json!(sig)) {
                                    sig = "C08:resubmit-changes:library-before-main-order".to_string();
                                }
                            }
                            report("C08", sig, format!("step {si} ({kind} {}): indexed state grew after re-submitting unchanged content: {k}: {b0} -> {v}", step[1]), json!({"step": si, "container": k, "before": b0, "after": v}));
                        }
                    }
                    baseline_sizes = s;
                }
            }
            "remove" => {
                if cur.get(i).cloned().flatten().is_none() {
                    continue;
                }
                let Some(u) = uri_of(&files[i].path) else { continue };
                let removed_id = a.get_file_id(&u);
                let removed_text = cur[i].clone().unwrap_or_default();
                a.remove_file_by_uri(&u);
                cur[i] = None;
                consistent = false;
                judged = true;
                let is_mention = |l: &String| l.contains("<<gone:") || l.contains(&format!("{}@", files[i].path)) || l.contains(&format!("file://{}", files[i].path));
                let d = dump(&a, &live_of(&a, &cur));
                let mentions: Vec<&String> = d.iter().filter(|l| is_mention(l)).collect();
                if !mentions.is_empty() {
                    let mut sections: BTreeSet<&str> = BTreeSet::new();
                    for l in &mentions {
                        sections.insert(l.split('|').next().unwrap_or("?"));
                    }
                    for sec in sections {
                        let ex: Vec<&&String> = mentions.iter().filter(|l| l.starts_with(&format!("{sec}|"))).take(3).collect();
                        report("C10", format!("C10:mention:{sec}"), format!("step {si}: after removing {} (file id {:?}) results still refer to it: {ex:?}", files[i].path, removed_id.map(|x| x.id)), json!({"step": si, "lines": ex}));
                    }
                }
                // no trace: on a fresh analysis of the surviving files, adding the file and removing it again must give
                // back every container count AND every line of the observable dump (the other files are not
                // re-analysed in between, so nothing of theirs may change)
                let (mut fa, _) = fresh_analysis(with_lib, cfg, &survivors(&cur));
                let s0 = sizes(&fa);
                let d0 = dump(&fa, &live_of(&fa, &cur));
                fa.update_file_by_uri(&u, Some(removed_text));
                fa.remove_file_by_uri(&u);
                let s1 = sizes(&fa);
                for (k, v) in &s1 {
                    let b0 = *s0.get(k).unwrap_or(&0);
                    if !size_exempt(k) && *v > b0 {
                        report("C10", format!("C10:not-released:{k}"), format!("step {si}: adding {} to an analysis of the other files and removing it again leaves {k}: {b0} -> {v}", files[i].path), json!({"step": si, "container": k, "before": b0, "after": v}));
                    }
                }
                let d1 = dump(&fa, &live_of(&fa, &cur));
                let m1: Vec<&String> = d1.iter().filter(|l| is_mention(l)).collect();
                if !m1.is_empty() {
                    let sec = m1[0].split('|').next().unwrap_or("?").to_string();
                    report("C10", format!("C10:mention:{sec}"), format!("step {si}: after adding and removing {} results still refer to it: {:?}", files[i].path, m1.iter().take(3).collect::<Vec<_>>()), json!({"step": si, "lines": m1.iter().take(5).collect::<Vec<_>>()}));
                }
                if d1 != d0 {
                    let (b, af) = diff_lines(&d0, &d1);
                    let (b, af): (Vec<String>, Vec<String>) = (b.into_iter().filter(|l| !is_mention(l)).collect(), af.into_iter().filter(|l| !is_mention(l)).collect());
                    if !b.is_empty() || !af.is_empty() {
                        let tags = tags_of(&b, &af, &sh, has_dup_modules(&d0) || has_dup_modules(&d1));
                        let all_tags: Vec<String> = tags.iter().cloned().collect();
                        let raw: Vec<String> = tags.iter().filter(|t| !is_mechanism(t)).cloned().collect();
                        let what = format!("step {si}: adding {} to an analysis of the other files and removing it again changes their results: {} line(s) lost, {} new; first lost: {:?}; first new: {:?}", files[i].path, b.len(), af.len(), b.first(), af.first());
                        let detail = json!({"step": si, "tags": all_tags, "lost": b.iter().take(8).collect::<Vec<_>>(), "new": af.iter().take(8).collect::<Vec<_>>()});
                        if !raw.is_empty() {
                            report("C10", format!("C10:remove-leaves-trace:{}", raw.join("+")), what.clone(), detail.clone());
                        }
                        for t in tags.iter().filter(|t| is_mechanism(t)) {
                            report("C10", format!("C10:remove-leaves-trace:{t}"), what.clone(), detail.clone());
                        }
                    }
                }
            }
            "readd" => {
                if cur.get(i).cloned().flatten().is_some() {
                    continue;
                }
                if let Some(u) = uri_of(&files[i].path) {
                    a.update_file_by_uri(&u, Some(files[i].text.clone()));
                    cur[i] = Some(files[i].text.clone());
                    consistent = false;
                }
            }
            "edit" => {
                if cur.get(i).cloned().flatten().is_none() {
                    continue;
                }
                if let Some(u) = uri_of(&files[i].path) {
                    a.update_file_by_uri(&u, Some(files[i].alt.clone()));
                    cur[i] = Some(files[i].alt.clone());
                    consistent = false;
                }
            }
            "config" => {
                cfg = if no_map { 0 } else { i % NCONFIGS };
                a.update_config(Arc::new(config_of(cfg)));
                consistent = false;
            }
            "reindex" => {
                a.reindex();
                judged = true;
                // fresh analysis, under the CURRENT configuration, loading the surviving files in file-id order
                let mut live = live_of(&a, &cur);
                live.sort_by_key(|(_, id)| id.id);
                let fl: Vec<(String, String)> = live.iter().filter_map(|(p, _)| (0..n).find(|j| files[*j].path == *p).and_then(|j| cur[j].clone().map(|t| (p.clone(), t)))).collect();
                let fr = fresh(with_lib, cfg, &fl, 3);
                let d = dump(&a, &live_of(&a, &cur));
                let s = sizes(&a);
                if !fr.deterministic {
                    *stats.entry("excluded_nondeterministic_fresh".into()).or_default() += 1;
                    return judged;
                }
                if d != fr.dump {
                    if recheck_nondeterministic(&cur, cfg) {
                        *stats.entry("excluded_nondeterministic_fresh".into()).or_default() += 1;
                        return judged;
                    }
                    let (b, af) = diff_lines(&fr.dump, &d);
                    report("C09", format!("C09:reindex-differs-from-fresh:{}", sections_of(&b, &af)), format!("step {si}: reindex (configuration #{cfg}) differs from a fresh analysis of the current files under the same configuration: {} line(s) only fresh, {} only after reindex; first: {:?} / {:?}", b.len(), af.len(), b.first(), af.first()), json!({"step": si, "only_fresh": b.iter().take(8).collect::<Vec<_>>(), "only_reindexed": af.iter().take(8).collect::<Vec<_>>()}));
                    return judged;
                }
                for (k, v) in &s {
                    let f0 = *fr.sizes.get(k).unwrap_or(&0);
                    if !size_exempt(k) && *v != f0 {
                        report("C09", format!("C09:stale-after-reindex:{k}"), format!("step {si}: after reindex {k} holds {v} entries, a fresh analysis of the same files holds {f0}"), json!({"step": si, "container": k, "reindexed": v, "fresh": f0}));
                    }
                }
                baseline_dump = d;
                baseline_sizes = s;
                consistent = true;
            }
            _ => {}
        }
    }
    judged
}

fn fixed_cases() -> Vec<Value> {
    let mut v = Vec::new();
    // documented class in the main workspace, re-declared by a library file: fresh analysis is deterministic
    // (libraries are analysed before main); re-submitting the library file erases the description
    v.push(json!({"lib": true, "single": false,
        "files": [
            {"path": "/w/m0.lua", "text": "---Doc of C0 written in file 0\n---@class C0\n---@field a0 number\nC0 = {}\n---@type C0\nlocal v = nil\nreturn v\n", "alt": "return 1\n"},
            {"path": "/lib/m1.lua", "text": "---@class C0\n---@field b1 string\nreturn 1\n", "alt": "return 2\n"}],
        "steps": [["resubmit", 1]]}));
    // module leaf leak / stale fuzzy entry
    v.push(json!({"lib": false, "single": false,
        "files": [
            {"path": "/w/sub/m0.lua", "text": "local M0 = {}\nreturn M0\n", "alt": "return 1\n"},
            {"path": "/w/m1.lua", "text": "local r = require(\"m0\")\nreturn r\n", "alt": "return 2\n"}],
        "steps": [["resubmit", 0], ["resubmit", 0], ["remove", 0], ["reindex"]]}));
    // member removed by an edit, then reindex: LuaMemberIndex::clear must forget member_current_owner
    v.push(json!({"lib": false, "single": false,
        "files": [
            {"path": "/w/m0.lua", "text": "---@class C0\nC0 = {}\nfunction C0.m0(x) return x end\nC0.k = 1\nreturn C0\n", "alt": "---@class C0\nC0 = {}\nreturn C0\n"},
            {"path": "/w/m1.lua", "text": "return 1\n", "alt": "return 2\n"}],
        "steps": [["edit", 0], ["reindex"]]}));
    // @schema url: JsonSchemaIndex is keyed by url and never cleared
    v.push(json!({"lib": false, "single": false,
        "files": [
            {"path": "/w/m0.lua", "text": "---@schema https://example.invalid/s0.json\nlocal sch = {}\nreturn sch\n", "alt": "return 1\n"},
            {"path": "/w/m1.lua", "text": "return 1\n", "alt": "return 2\n"}],
        "steps": [["remove", 0], ["reindex"]]}));
    // the same field of one class declared in two files; re-submitting one must keep both declarations
    v.push(json!({"lib": false, "single": false, "cfg": 0,
        "files": [
            {"path": "/w/m0.lua", "text": "---@class Config\n---@field level integer\n---@field name string\n\nreturn 1\n", "alt": "---@class Config\n---@field name string\n\nreturn 1\n"},
            {"path": "/w/m1.lua", "text": "---@class Config\n---@field level string\n---@field verbose boolean\n\nreturn 1\n", "alt": "return 2\n"},
            {"path": "/w/m2.lua", "text": "---@type Config\nlocal cfgv = nil\nlocal lvl = cfgv and cfgv.level\nreturn lvl\n", "alt": "return 3\n"}],
        "steps": [["resubmit", 1], ["reindex"], ["editrestore", 0]]}));
    // a class split across two files, the super clause in the one that is removed
    v.push(json!({"lib": false, "single": false, "cfg": 0,
        "files": [
            {"path": "/w/m0.lua", "text": "---@class Base\n---@field base_id integer\n\n---@class Widget\n---@field w number\n\nreturn 1\n", "alt": "return 1\n"},
            {"path": "/w/m1.lua", "text": "---@class Widget: Base\n---@field extra string\n\nreturn 1\n", "alt": "return 2\n"},
            {"path": "/w/m2.lua", "text": "---@type Widget\nlocal wv = nil\nlocal bid = wv and wv.base_id\nreturn bid\n", "alt": "return 3\n"}],
        "steps": [["remove", 1], ["reindex"]]}));
    // a module table returned by m0, extended by m1 through require, read by m2; m0 is re-submitted / edited and restored
    v.push(json!({"lib": false, "single": false, "cfg": 0,
        "files": [
            {"path": "/w/m0.lua", "text": "local M = { hello = 1 }\nreturn M\n", "alt": "local M = { hello = 1, temporary = 2 }\nreturn M\n"},
            {"path": "/w/m1.lua", "text": "local m = require(\"m0\")\nm.extra = 1\nrequire(\"m0\").extra2 = 2\nreturn m\n", "alt": "return 2\n"},
            {"path": "/w/m2.lua", "text": "local a = require(\"m0\").extra\nlocal b = require(\"m0\").hello\nlocal c = require(\"m0\").extra2\nreturn a\n", "alt": "return 3\n"}],
        "steps": [["resubmit", 0], ["reindex"], ["editrestore", 0]]}));
    // the module map is configured, changed and removed again
    v.push(json!({"lib": false, "single": false, "cfg": 1,
        "files": [
            {"path": "/w/m0.lua", "text": "local M0 = {}\nreturn M0\n", "alt": "return 1\n"},
            {"path": "/w/m1.lua", "text": "local ra = require(\"alias_m0\")\nlocal rb = require(\"m0\")\nreturn ra\n", "alt": "return 2\n"}],
        "steps": [["reindex"], ["config", 2], ["reindex"], ["config", 0], ["reindex"], ["config", 3], ["reindex"]]}));
    v
}

fn main() {
    let args = Args::parse();
    let seed = args.u64("seed", 1);
    let n = args.usize("n", 50);
    let mut rng = Rng::new(seed ^ 0xC08);
    match args.cmd.as_str() {
        "corr" => {
            for index in ["property", "global", "diagnostic", "type", "member", "reference"] {
                // hand-written witnesses first
                let w: Vec<Value> = match index {
                    "property" => vec![json!(["add", 1, [[0, 0, 1]]]), json!(["add", 2, [[0, 2, 0]]]), json!(["remove", 2]), json!(["add", 2, [[0, 2, 0]]]), json!(["clear"])],
                    "global" => vec![json!(["add", 1, [[0, 1], [1, 2]]]), json!(["add", 2, [[0, 3]]]), json!(["remove", 1]), json!(["remove", 2])],
                    "diagnostic" => vec![json!(["add", 1, [[0, 0], [1, 1]]]), json!(["remove", 1])],
                    "reference" => vec![json!(["add", 1, [[0, 0, 1], [1, 0, 2]]]), json!(["add", 2, [[0, 0, 1], [0, 0, 3]]]), json!(["remove", 1]), json!(["remove", 2])],
                    "member" => vec![json!(["add", 1, [[4, 0, 1], [0, 0, 2]]]), json!(["add", 2, [[4, 1, 3], [4, 0, 4]]]), json!(["remove", 1]), json!(["add", 1, [[4, 0, 1]]]), json!(["remove", 2]),
                                     json!(["add", 1, [[0, 0, 1], [0, 0, 2]]]), json!(["add", 2, [[0, 0, 3]]]), json!(["remove", 1]), json!(["clear"])],
                    _ => vec![json!(["add", 1, [[2, 0, 1], [3, 0, 1], [0, 1]]]), json!(["add", 2, [[2, 0, 2], [3, 0, 2]]]), json!(["remove", 1]), json!(["remove", 2])],
                };
                println!("{}", run_index_case(index, &w));
                for _ in 0..n {
                    let ops = gen_index_ops(&mut rng, index);
                    println!("{}", run_index_case(index, &ops));
                }
            }
        }
        "kernel" => {
            let mut out = Vec::new();
            let mut cases = 0usize;
            let mut per_sig: BTreeMap<String, usize> = BTreeMap::new();
            for index in ["property", "global", "diagnostic", "type", "member", "reference"] {
                let mut all: Vec<Vec<Value>> = vec![vec![json!(["add", 1, gen_facts(&mut Rng::new(7), index)]), json!(["add", 2, gen_facts(&mut Rng::new(8), index)]), json!(["clear"])]];
                if index == "member" {
                    all.push(vec![json!(["add", 1, [[0, 0, 1]]]), json!(["clear"])]);
                }
                for _ in 0..n {
                    let mut ops = gen_index_ops(&mut rng, index);
                    ops.push(json!(["clear"]));
                    all.push(ops);
                }
                for ops in all {
                    cases += 1;
                    let mut o = Vec::new();
                    kernel_check(index, &ops, &mut o);
                    for v in o {
                        let c = per_sig.entry(v["signature"].as_str().unwrap_or("").to_string()).or_default();
                        *c += 1;
                        if *c <= 2 {
                            out.push(v);
                        }
                    }
                }
            }
            for v in &out {
                println!("{}", v);
            }
            println!("{}", json!({"summary": {"cases": cases, "violations_by_signature": per_sig}}));
        }
        "search" => {
            let mut out = Vec::new();
            let mut stats: BTreeMap<String, usize> = BTreeMap::new();
            let mut cases = 0usize;
            let mut distinct = HashSet::new();
            let corpus = args.str("corpus", "");
            let mut all = fixed_cases();
            if !corpus.is_empty() {
                let mut names: Vec<_> = std::fs::read_dir(&corpus).map(|d| d.filter_map(|e| e.ok()).map(|e| e.path()).collect()).unwrap_or_default();
                names.sort();
                for pth in names {
                    if let Ok(txt) = std::fs::read_to_string(&pth) {
                        if let Ok(v) = serde_json::from_str::<Value>(&txt) {
                            if v["kind"] == "search" {
                                all.push(v["case"].clone());
                            }
                        }
                    }
                }
            }
            for _ in 0..n {
                all.push(gen_case(&mut rng));
            }
            let mut per_sig: BTreeMap<String, usize> = BTreeMap::new();
            for case in all {
                cases += 1;
                let r = guarded(|| {
                    let mut o = Vec::new();
                    let mut st = BTreeMap::new();
                    let judged = run_case(&case, &mut o, &mut st, 0);
                    (o, st, judged)
                });
                match r {
                    Ok((o, st, judged)) => {
                        for (k, v) in st {
                            *stats.entry(k).or_default() += v;
                        }
                        if judged {
                            distinct.insert(case.to_string());
                        }
                        for v in o {
                            let sig = v["signature"].as_str().unwrap_or("").to_string();
                            let c = per_sig.entry(sig).or_default();
                            *c += 1;
                            if *c <= 3 {
                                out.push(v);
                            }
                        }
                    }
                    Err(e) => out.push(json!({"prop": "C12", "signature": "panic", "what": format!("panic: {e}"), "case": case})),
                }
            }
            for v in &out {
                println!("{}", v);
            }
            println!("{}", json!({"summary": {"cases": cases, "distinct_nontrivial": distinct.len(), "distribution": stats, "violations_by_signature": per_sig}}));
        }
        "one" => {
            let case: Value = serde_json::from_str(&args.str("case-json", "{}")).unwrap_or(Value::Null);
            let mut out = Vec::new();
            let mut st = BTreeMap::new();
            let _ = guarded(|| run_case(&case, &mut out, &mut st, 0));
            for v in &out {
                println!("{}", v);
            }
            println!("{}", json!({"summary": {"distribution": st}}));
        }
        _ => {
            eprintln!("usage: c08 corr|search|one");
            std::process::exit(2);
        }
    }
}
