//! C21 harness: well-formedness of reported diagnostics and completeness for parse errors.
//!   c21 corr   --seed S --n N   -> JSON lines: text, the parser's errors, and the leading syntax diagnostics reported under
//!                                  the four on/off combinations of syntax-error / doc-syntax-error (for the model to check)
//!   c21 search --seed S --n N   -> JSON lines: violations of the property oracles on the implementation + summary
//!   c21 one    --text-json '"…"' -> oracles on one text (replay)
use emmylua_code_analysis::{DiagnosticCode, EmmyLuaAnalysis, Emmyrc, file_path_to_uri};
use emmylua_parser::{LuaParseError, LuaParseErrorKind};
use lsp_types::{Diagnostic, DiagnosticSeverity, NumberOrString};
use serde_json::{Value, json};
use std::collections::{BTreeMap, HashMap, HashSet};
use std::path::PathBuf;
use std::sync::Arc;
use tokio_util::sync::CancellationToken;
use vh_common::{Args, Rng, guarded};

fn code_of(d: &Diagnostic) -> String {
    match &d.code {
        Some(NumberOrString::String(s)) => s.clone(),
        Some(NumberOrString::Number(n)) => format!("#{n}"),
        None => "<none>".into(),
    }
}

fn emmyrc(disable: &[&str], enables: &[String]) -> Emmyrc {
    let v = json!({"diagnostics": {"disable": disable, "enables": enables}});
    serde_json::from_value::<Emmyrc>(v).expect("emmyrc json")
}

struct Run {
    text: String, // the text as the Vfs holds it
    errors: Vec<LuaParseError>,
    diags: Option<Vec<Diagnostic>>,
}

fn run(text: &str, rc: Emmyrc) -> Run {
    let mut analysis = EmmyLuaAnalysis::new();
    analysis.update_config(Arc::new(rc));
    analysis.add_main_workspace(PathBuf::from("/vws/main"));
    let uri = file_path_to_uri(&PathBuf::from("/vws/main/c21_case.lua")).expect("uri");
    let id = analysis.update_file_by_uri(&uri, Some(text.to_string())).expect("file id");
    let db = analysis.compilation.get_db();
    let held = db.get_vfs().get_document(&id).map(|d| d.get_text().to_string()).unwrap_or_default();
    let errors = db.get_vfs().get_syntax_tree(&id).map(|t| t.get_errors().to_vec()).unwrap_or_default();
    let diags = analysis.diagnose_file(id, CancellationToken::new());
    Run { text: held, errors, diags }
}

// ---------------------------------------------------------------- generators

const IDENTS: &[&str] = &["a", "b", "foo", "bar", "t", "self", "x1", "_", "名前", "é"];
const STRS: &[&str] = &["\"s\"", "'q'", "\"é😀\"", "[[long]]", "\"\\x41\"", "\"\\xZZ\"", "\"\\u{110000}\"", "\"\\q\"", "'unterminated", "\"a\\\nb\""];
const NUMS: &[&str] = &["1", "0x10", "3.5", "1e5", "0xffffffffffffffffff", "1e", "0x", "9223372036854775808", "1ULL", "0b2"];
const SOUP: &[&str] = &[
    "local", "function", "end", "if", "then", "else", "elseif", "for", "in", "do", "while", "repeat", "until", "return", "break",
    "goto", "::", "nil", "true", "false", "and", "or", "not", "(", ")", "{", "}", "[", "]", "=", "==", "~=", "<", ">", "<=", ">=", "..",
    "...", ".", ":", ",", ";", "+", "-", "*", "/", "//", "%", "^", "#", "&", "|", "~", "<<", ">>", "a", "b", "f", "1", "2.5", "\"s\"",
    "--c\n", "---@type", "---@param", "---@class", "---@field", "---@return", "---@alias", "---@generic", "fun(", "<const>", "<close>", "\n", "\r\n", "\t", "é", "😀", "@", "$", "`", "\\", "continue",
];
const DOCS: &[&str] = &[
    "---@type", "---@type fun(", "---@param", "---@param a", "---@class", "---@class A :", "---@class A<", "---@field", "---@field x",
    "---@return", "---@alias", "---@alias X |", "---@generic", "---@type table<string,", "---@type {a:", "---@overload fun(", "---@cast",
    "---@type string|", "---@enum", "---@see", "---@type A.", "---@type 'lit", "---@operator add(", "---@type [",
];

fn expr(rng: &mut Rng, d: usize) -> String {
    if d == 0 || rng.chance(2, 5) {
        return match rng.below(6) {
            0 => rng.pick(IDENTS).to_string(),
            1 => rng.pick(NUMS).to_string(),
            2 => rng.pick(STRS).to_string(),
            3 => "nil".into(),
            4 => "...".into(),
            _ => "true".into(),
        };
    }
    match rng.below(7) {
        0 => format!("{} + {}", expr(rng, d - 1), expr(rng, d - 1)),
        1 => format!("({})", expr(rng, d - 1)),
        2 => format!("{}({})", rng.pick(IDENTS), expr(rng, d - 1)),
        3 => format!("{{ {} = {}, {} }}", rng.pick(IDENTS), expr(rng, d - 1), expr(rng, d - 1)),
        4 => format!("{}.{}", rng.pick(IDENTS), rng.pick(IDENTS)),
        5 => format!("function({}) return {} end", if rng.chance(1, 2) { "..." } else { "p" }, expr(rng, d - 1)),
        _ => format!("not {}", expr(rng, d - 1)),
    }
}

fn stat(rng: &mut Rng, d: usize) -> String {
    let nl = if rng.chance(1, 6) { "\r\n" } else { "\n" };
    let s = match rng.below(14) {
        0 => format!("local {} = {}", rng.pick(IDENTS), expr(rng, 2)),
        1 => format!("{} = {}", rng.pick(IDENTS), expr(rng, 2)),
        2 => format!("{}({})", rng.pick(IDENTS), expr(rng, 1)),
        3 if d > 0 => format!("if {} then{nl}{}else{nl}{}end", expr(rng, 1), stat(rng, d - 1), stat(rng, d - 1)),
        4 if d > 0 => format!("for i = 1, {} do{nl}{}end", expr(rng, 1), stat(rng, d - 1)),
        5 if d > 0 => format!("while {} do{nl}{}end", expr(rng, 1), stat(rng, d - 1)),
        6 if d > 0 => format!("local function {}(a, b){nl}{}return {}{nl}end", rng.pick(IDENTS), stat(rng, d - 1), expr(rng, 1)),
        7 => format!("{}{nl}local {} = {}", rng.pick(DOCS), rng.pick(IDENTS), expr(rng, 1)),
        8 => "break".to_string(),
        9 => format!("goto {}", rng.pick(IDENTS)),
        10 => format!("-- comment é😀 {}", rng.pick(IDENTS)),
        11 => format!("---@class {}{nl}---@field x number{nl}local {} = {{}}", rng.pick(&["A", "B", "A"]), rng.pick(IDENTS)),
        12 => format!("return {}", expr(rng, 1)),
        _ => format!("local {} <const> = {}", rng.pick(IDENTS), expr(rng, 1)),
    };
    format!("{s}{nl}")
}

fn program(rng: &mut Rng) -> String {
    let mut s = String::new();
    for _ in 0..rng.range(1, 6) {
        s.push_str(&stat(rng, 2));
    }
    s
}

fn gen_text(rng: &mut Rng) -> (String, &'static str) {
    match rng.below(8) {
        0 | 1 => (program(rng), "valid-ish program"),
        2 => {
            // truncated program
            let p = program(rng);
            let mut cut = rng.below(p.len() + 1);
            while !p.is_char_boundary(cut) {
                cut -= 1;
            }
            (p[..cut].to_string(), "truncated program")
        }
        3 => {
            // token soup
            let mut s = String::new();
            for _ in 0..rng.range(1, 14) {
                s.push_str(*rng.pick(SOUP));
                if rng.chance(2, 3) {
                    s.push(' ');
                }
            }
            (s, "token soup")
        }
        4 => {
            // program with soup spliced in
            let p = program(rng);
            let mut cut = rng.below(p.len() + 1);
            while !p.is_char_boundary(cut) {
                cut -= 1;
            }
            let mut s = p[..cut].to_string();
            for _ in 0..rng.range(1, 4) {
                s.push(' ');
                s.push_str(*rng.pick(SOUP));
            }
            s.push_str(&p[cut..]);
            (s, "program with spliced tokens")
        }
        5 => {
            // doc comment garbage
            let mut s = String::new();
            for _ in 0..rng.range(1, 4) {
                s.push_str(*rng.pick(DOCS));
                if rng.chance(1, 2) {
                    s.push(' ');
                    s.push_str(*rng.pick(SOUP));
                }
                s.push_str(if rng.chance(1, 5) { "\r\n" } else { "\n" });
            }
            s.push_str(&stat(rng, 1));
            (s, "doc comment errors")
        }
        6 => {
            // character deletion in a program
            let p = program(rng);
            let cs: Vec<char> = p.chars().collect();
            let k = rng.below(cs.len().max(1));
            (cs.iter().enumerate().filter(|(i, _)| *i != k).map(|(_, c)| *c).collect(), "program with one character deleted")
        }
        _ => {
            let mut s = program(rng);
            s.push_str(*rng.pick(&["\"open", "[[open", "--[[open", "(", "{", "function f(", "if x then", "\r", "é", "😀"]));
            (s, "program with an unterminated tail")
        }
    }
}

const FIXED: &[&str] = &[
    "", "local", "local x = = 1\n", "a😀b = = 1\r\n---@type", "break\n", "goto nowhere\n", "---@param\nlocal x = 1\n", "local s = \"\\xZZ\"\n",
    "local n = 0xffffffffffffffffffff\n", "local function f() return ... end\n", "x = 1e\r\ny = \"é\n", "\r\rlocal = 1\r", "---@class A :\n---@class A :\n",
    "é = = 1", "f(\n", "local t = { a = , }\n", "::l:: ::l::\n",
];

// ---------------------------------------------------------------- reference positions

/// independent reference for LSP positions (UTF-16 columns; lines end at \n, \r\n, lone \r): the position of every
/// character-boundary byte offset
fn reference(text: &str) -> (Vec<Option<(u32, u32)>>, HashSet<(u32, u32)>) {
    let len = text.len();
    let mut pos = vec![None; len + 1];
    let (mut line, mut col) = (0u32, 0u32);
    let chars: Vec<(usize, char)> = text.char_indices().collect();
    for (i, &(o, c)) in chars.iter().enumerate() {
        pos[o] = Some((line, col));
        let next_is_lf = chars.get(i + 1).map(|x| x.1 == '\n').unwrap_or(false);
        if c == '\n' || (c == '\r' && !next_is_lf) {
            line += 1;
            col = 0;
        } else {
            col += c.len_utf16() as u32;
        }
    }
    pos[len] = Some((line, col));
    let set = pos.iter().flatten().cloned().collect();
    (pos, set)
}

fn placeholder_left(msg: &str) -> bool {
    // rust-i18n placeholder syntax: %{name}
    let b = msg.as_bytes();
    let mut i = 0;
    while i + 2 < b.len() {
        if b[i] == b'%' && b[i + 1] == b'{' {
            let mut j = i + 2;
            while j < b.len() && (b[j].is_ascii_alphanumeric() || b[j] == b'_') {
                j += 1;
            }
            if j > i + 2 && j < b.len() && b[j] == b'}' {
                return true;
            }
        }
        i += 1;
    }
    false
}

fn kind_code(k: &LuaParseErrorKind) -> &'static str {
    match k {
        LuaParseErrorKind::SyntaxError => "syntax-error",
        LuaParseErrorKind::DocError => "doc-syntax-error",
    }
}

/// the property's sentences on the implementation's output for one text
fn search_one(text: &str, known: &HashSet<String>, all_names: &[String], out: &mut Vec<Value>, stats: &mut BTreeMap<String, usize>) -> bool {
    let mut nontrivial = false;
    for (cfg_name, rc) in [("default", emmyrc(&[], &[])), ("full", emmyrc(&[], all_names)), ("syntax-codes-disabled", emmyrc(&["syntax-error", "doc-syntax-error"], &[]))] {
        let r = guarded(|| run(text, rc));
        let mut report = |sig: &str, what: String| out.push(json!({"signature": sig, "what": what, "config": cfg_name, "text": text}));
        let r = match r {
            Ok(r) => r,
            Err(e) => {
                report("panic", format!("diagnose_file panicked: {e}"));
                continue;
            }
        };
        let Some(ds) = r.diags else {
            report("no-result", "diagnose_file returned None for a main-workspace file with diagnostics enabled".into());
            continue;
        };
        let t = r.text.as_str();
        let (pos, valid) = reference(t);
        *stats.entry(format!("diagnostics_{cfg_name}")).or_default() += ds.len();
        *stats.entry(format!("parse_errors_{cfg_name}")).or_default() += r.errors.len();
        if !ds.is_empty() || !r.errors.is_empty() {
            nontrivial = true;
        }
        let mut seen: HashMap<String, usize> = HashMap::new();
        for d in &ds {
            let code = code_of(d);
            *stats.entry(format!("code_{code}")).or_default() += 1;
            let (s, e) = ((d.range.start.line, d.range.start.character), (d.range.end.line, d.range.end.character));
            if !valid.contains(&s) || !valid.contains(&e) {
                report("range-outside-document", format!("{code} `{}` has range {}:{}-{}:{} which is not made of positions of the document", d.message, s.0, s.1, e.0, e.1));
            } else if s > e {
                report("range-reversed", format!("{code} `{}` has start {}:{} after end {}:{}", d.message, s.0, s.1, e.0, e.1));
            }
            if !known.contains(&code) {
                report("unknown-code", format!("diagnostic code {code:?} is not a known code name (`{}`)", d.message));
            }
            match d.severity {
                Some(DiagnosticSeverity::ERROR) | Some(DiagnosticSeverity::WARNING) | Some(DiagnosticSeverity::INFORMATION) | Some(DiagnosticSeverity::HINT) => {}
                other => report("severity-missing", format!("{code} `{}` has severity {:?}", d.message, other)),
            }
            if placeholder_left(&d.message) {
                report("placeholder-left", format!("{code} message still contains a placeholder: `{}`", d.message));
            }
            let key = serde_json::to_string(d).unwrap_or_default();
            let n = seen.entry(key).or_default();
            *n += 1;
            if *n == 2 {
                let sig = format!("duplicate-diagnostic:{code}");
                report(&sig, format!("{code} `{}` at {}:{}-{}:{} is reported twice (identical in every field)", d.message, s.0, s.1, e.0, e.1));
            }
        }
        // parse errors ⊆ reported diagnostics (at their location, with their message), unless the code is disabled
        for pe in &r.errors {
            let code = kind_code(&pe.kind);
            let (a, b) = (u32::from(pe.range.start()) as usize, u32::from(pe.range.end()) as usize);
            let want = match (pos.get(a).cloned().flatten(), pos.get(b).cloned().flatten()) {
                (Some(p), Some(q)) => Some((p, q)),
                _ => None,
            };
            if cfg_name == "syntax-codes-disabled" {
                continue;
            }
            let Some((p, q)) = want else {
                report("parse-error-range-off-boundary", format!("parse error `{}` has range {a}..{b} which is outside the text or not on character boundaries", pe.message));
                continue;
            };
            let found = ds.iter().any(|d| code_of(d) == code && d.message == pe.message
                && (d.range.start.line, d.range.start.character) == p && (d.range.end.line, d.range.end.character) == q);
            if !found {
                report("parse-error-not-reported", format!("parse error ({code}) `{}` at bytes {a}..{b} = {}:{}-{}:{} has no matching diagnostic", pe.message, p.0, p.1, q.0, q.1));
            }
        }
        if cfg_name == "syntax-codes-disabled" {
            if let Some(d) = ds.iter().find(|d| code_of(d) == "syntax-error" || code_of(d) == "doc-syntax-error") {
                report("disabled-syntax-code-reported", format!("{} `{}` reported although the code is in diagnostics.disable", code_of(d), d.message));
            }
        }
    }
    nontrivial
}

fn observe(text: &str) -> Value {
    let mut obs = Vec::new();
    let mut held = String::new();
    let mut errs = Vec::new();
    for (ds, dd) in [(false, false), (true, false), (false, true), (true, true)] {
        let mut dis = Vec::new();
        if ds { dis.push("syntax-error"); }
        if dd { dis.push("doc-syntax-error"); }
        let r = match guarded(|| run(text, emmyrc(&dis, &[]))) {
            Ok(r) => r,
            Err(e) => return json!({"panic": e, "text": text}),
        };
        held = r.text.clone();
        // messages are compared by identity: the id of a message is its index among the distinct messages of this text
        let mut msgs: Vec<&str> = Vec::new();
        errs = r.errors.iter().map(|e| {
            let id = match msgs.iter().position(|m| *m == e.message) { Some(i) => i, None => { msgs.push(&e.message); msgs.len() - 1 } };
            json!([matches!(e.kind, LuaParseErrorKind::DocError), id, u32::from(e.range.start()), u32::from(e.range.end())])
        }).collect();
        let list: Vec<Value> = r.diags.unwrap_or_default().iter().filter(|d| { let c = code_of(d); c == "syntax-error" || c == "doc-syntax-error" })
            .map(|d| json!([code_of(d) == "doc-syntax-error", d.range.start.line, d.range.start.character, d.range.end.line, d.range.end.character])).collect();
        obs.push(json!([ds, dd, list]));
    }
    let cps: Vec<u32> = held.chars().map(|c| c as u32).collect();
    json!({"t": cps, "errs": errs, "obs": obs})
}

fn main() {
    let args = Args::parse();
    let seed = args.u64("seed", 1);
    let n = args.usize("n", 100);
    let mut rng = Rng::new(seed ^ 0xC21);
    let all_names: Vec<String> = DiagnosticCode::all().iter().map(|c| c.get_name().to_string()).collect();
    let known: HashSet<String> = all_names.iter().filter(|n| *n != "none").cloned().collect();
    let corpus = args.str("corpus", "");
    let mut texts: Vec<(String, &'static str)> = FIXED.iter().map(|s| (s.to_string(), "hand-written")).collect();
    if !corpus.is_empty() {
        if let Ok(rd) = std::fs::read_dir(&corpus) {
            let mut ps: Vec<_> = rd.filter_map(|e| e.ok()).map(|e| e.path()).filter(|p| p.extension().map(|x| x == "json").unwrap_or(false)).collect();
            ps.sort();
            for p in ps {
                if let Ok(s) = std::fs::read_to_string(&p) {
                    if let Ok(v) = serde_json::from_str::<Value>(&s) {
                        if let Some(t) = v["text"].as_str() {
                            texts.push((t.to_string(), "corpus"));
                        }
                    }
                }
            }
        }
    }
    match args.cmd.as_str() {
        "corr" => {
            for (t, _) in &texts {
                println!("{}", observe(t));
            }
            for _ in 0..n {
                let (t, _) = gen_text(&mut rng);
                println!("{}", observe(&t));
            }
        }
        "search" => {
            let mut out = Vec::new();
            let mut stats: BTreeMap<String, usize> = BTreeMap::new();
            let mut distinct = HashSet::new();
            let mut cases = 0usize;
            let mut sigs: HashSet<String> = HashSet::new();
            let generated: Vec<(String, &'static str)> = (0..n).map(|_| gen_text(&mut rng)).collect();
            for (t, kind) in texts.iter().chain(generated.iter()) {
                let before = out.len();
                let nontrivial = search_one(t, &known, &all_names, &mut out, &mut stats);
                let mut kept = Vec::new();
                for v in out.drain(before..) {
                    if sigs.insert(v["signature"].as_str().unwrap_or("").to_string()) {
                        kept.push(v);
                    }
                }
                out.extend(kept);
                cases += 1;
                *stats.entry(format!("kind_{kind}")).or_default() += 1;
                if !t.is_ascii() { *stats.entry("non_ascii".into()).or_default() += 1; }
                if t.contains('\r') { *stats.entry("with_cr".into()).or_default() += 1; }
                if nontrivial {
                    distinct.insert(t.clone());
                }
            }
            for v in &out {
                println!("{}", v);
            }
            println!("{}", json!({"summary": {"cases": cases, "distinct_nontrivial": distinct.len(), "distribution": stats}}));
        }
        "one" => {
            let t: String = serde_json::from_str(&args.str("text-json", "\"\"")).expect("text json");
            let mut out = Vec::new();
            let mut stats = BTreeMap::new();
            search_one(&t, &known, &all_names, &mut out, &mut stats);
            for v in &out {
                println!("{}", v);
            }
        }
        _ => {
            eprintln!("usage: c21 corr|search|one");
            std::process::exit(2);
        }
    }
}
