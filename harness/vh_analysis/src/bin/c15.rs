//! C15 / C41 harness: flow narrowing on the fragment F (locals declared up-front, literal assignments, if/elseif/else,
//! conditions from type(x)=="T", x==nil, x~=nil, x, not/and/or, opaque globals) and F+loops (while, while true,
//! repeat, numeric for with literal bounds, `if c then ... break end`).
//!   c15 corr   --seed S --n N [--loops 1]   -> JSON lines {"p":AST,"text":..,"obs":[..per probe..],"reach":[..]}
//!   c15 search --seed S --n N [--loops 1]   -> JSON lines {"signature","what","p","text",..} + {"summary":..}
//!   c15 one    --case-json '{AST}'          -> observation + violations of one program
//!   c15 dump   --file f.lua                 -> inferred types at probe(x) calls of hand-written text (debug)
use emmylua_code_analysis::{LuaType, VirtualWorkspace};
use emmylua_parser::{LuaAstNode, LuaCallExpr, LuaClosureExpr, LuaExpr, LuaTableExpr};
use serde_json::{Value, json};
use std::collections::{BTreeSet, HashSet};
use vh_common::{Args, Rng};

// ------------------------------------------------------------------ AST
#[derive(Clone, Debug, PartialEq)]
enum Lit { Nil, Bool(bool), Int(i64), Float(i64), Str(i64), Table(usize), Fun(usize) }

const TAGS: [&str; 6] = ["nil", "boolean", "number", "string", "table", "function"];

#[derive(Clone, Debug, PartialEq)]
enum Cond {
    Type(usize, usize), // type(x) == TAGS[t]
    EqNil(usize),
    NeNil(usize),
    Var(usize),
    Opq(usize),
    Not(Box<Cond>),
    And(Box<Cond>, Box<Cond>),
    Or(Box<Cond>, Box<Cond>),
    TypeF(usize, usize), // TAGS[t] == type(x)
    EqNilF(usize),       // nil == x
    NeNilF(usize),       // nil ~= x
}

#[derive(Clone, Debug, PartialEq)]
enum Stmt {
    Assign(usize, Lit),
    Probe(usize, usize), // id, var
    If(Vec<(Cond, Vec<Stmt>)>, Option<Vec<Stmt>>),
    While(Cond, Vec<Stmt>),
    WhileTrue(Vec<Stmt>),
    Repeat(Vec<Stmt>, Cond),
    For(i64, i64, Vec<Stmt>),
    BreakIf(Cond, Vec<Stmt>),
    Assert(Cond),                    // assert(c)
    ReturnIf(bool, Cond, Vec<Stmt>), // if c then b; return end  /  if c then b; error('e') end
}

#[derive(Clone, Debug, PartialEq)]
struct Prog { decls: Vec<Lit>, body: Vec<Stmt> }

fn lit_json(l: &Lit) -> Value {
    match l {
        Lit::Nil => json!(["nil"]), Lit::Bool(b) => json!(["bool", b]), Lit::Int(n) => json!(["int", n]),
        Lit::Float(n) => json!(["float", n]), Lit::Str(n) => json!(["str", n]), Lit::Table(k) => json!(["table", k]), Lit::Fun(k) => json!(["fun", k]),
    }
}
fn cond_json(c: &Cond) -> Value {
    match c {
        Cond::Type(x, t) => json!(["type", x, t]), Cond::EqNil(x) => json!(["eqnil", x]), Cond::NeNil(x) => json!(["nenil", x]),
        Cond::Var(x) => json!(["var", x]), Cond::Opq(k) => json!(["opq", k]), Cond::Not(a) => json!(["not", cond_json(a)]),
        Cond::And(a, b) => json!(["and", cond_json(a), cond_json(b)]), Cond::Or(a, b) => json!(["or", cond_json(a), cond_json(b)]),
        Cond::TypeF(x, t) => json!(["typef", x, t]), Cond::EqNilF(x) => json!(["eqnilf", x]), Cond::NeNilF(x) => json!(["nenilf", x]),
    }
}
fn block_json(b: &[Stmt]) -> Value { Value::Array(b.iter().map(stmt_json).collect()) }
fn stmt_json(s: &Stmt) -> Value {
    match s {
        Stmt::Assign(x, l) => json!(["assign", x, lit_json(l)]),
        Stmt::Probe(id, x) => json!(["probe", id, x]),
        Stmt::If(arms, els) => json!(["if", arms.iter().map(|(c, b)| json!([cond_json(c), block_json(b)])).collect::<Vec<_>>(),
                                     els.as_ref().map(|b| block_json(b)).unwrap_or(Value::Null)]),
        Stmt::While(c, b) => json!(["while", cond_json(c), block_json(b)]),
        Stmt::WhileTrue(b) => json!(["whiletrue", block_json(b)]),
        Stmt::Repeat(b, c) => json!(["repeat", block_json(b), cond_json(c)]),
        Stmt::For(a, z, b) => json!(["for", a, z, block_json(b)]),
        Stmt::BreakIf(c, b) => json!(["breakif", cond_json(c), block_json(b)]),
        Stmt::Assert(c) => json!(["assert", cond_json(c)]),
        Stmt::ReturnIf(e, c, b) => json!(["returnif", e, cond_json(c), block_json(b)]),
    }
}
fn prog_json(p: &Prog) -> Value { json!({"decls": p.decls.iter().map(lit_json).collect::<Vec<_>>(), "body": block_json(&p.body)}) }

fn lit_from(v: &Value) -> Lit {
    match v[0].as_str().unwrap() {
        "nil" => Lit::Nil, "bool" => Lit::Bool(v[1].as_bool().unwrap()), "int" => Lit::Int(v[1].as_i64().unwrap()),
        "float" => Lit::Float(v[1].as_i64().unwrap()), "str" => Lit::Str(v[1].as_i64().unwrap()), "table" => Lit::Table(v[1].as_u64().unwrap_or(0) as usize), _ => Lit::Fun(v[1].as_u64().unwrap_or(0) as usize),
    }
}
fn cond_from(v: &Value) -> Cond {
    let u = |i: usize| v[i].as_u64().unwrap() as usize;
    match v[0].as_str().unwrap() {
        "typef" => Cond::TypeF(u(1), u(2)), "eqnilf" => Cond::EqNilF(u(1)), "nenilf" => Cond::NeNilF(u(1)),
        "type" => Cond::Type(u(1), u(2)), "eqnil" => Cond::EqNil(u(1)), "nenil" => Cond::NeNil(u(1)), "var" => Cond::Var(u(1)),
        "opq" => Cond::Opq(u(1)), "not" => Cond::Not(Box::new(cond_from(&v[1]))),
        "and" => Cond::And(Box::new(cond_from(&v[1])), Box::new(cond_from(&v[2]))),
        _ => Cond::Or(Box::new(cond_from(&v[1])), Box::new(cond_from(&v[2]))),
    }
}
fn block_from(v: &Value) -> Vec<Stmt> { v.as_array().unwrap().iter().map(stmt_from).collect() }
fn stmt_from(v: &Value) -> Stmt {
    match v[0].as_str().unwrap() {
        "assign" => Stmt::Assign(v[1].as_u64().unwrap() as usize, lit_from(&v[2])),
        "probe" => Stmt::Probe(v[1].as_u64().unwrap() as usize, v[2].as_u64().unwrap() as usize),
        "if" => Stmt::If(v[1].as_array().unwrap().iter().map(|a| (cond_from(&a[0]), block_from(&a[1]))).collect(),
                         if v[2].is_null() { None } else { Some(block_from(&v[2])) }),
        "while" => Stmt::While(cond_from(&v[1]), block_from(&v[2])),
        "whiletrue" => Stmt::WhileTrue(block_from(&v[1])),
        "repeat" => Stmt::Repeat(block_from(&v[1]), cond_from(&v[2])),
        "for" => Stmt::For(v[1].as_i64().unwrap(), v[2].as_i64().unwrap(), block_from(&v[3])),
        "assert" => Stmt::Assert(cond_from(&v[1])),
        "returnif" => Stmt::ReturnIf(v[1].as_bool().unwrap(), cond_from(&v[2]), block_from(&v[3])),
        _ => Stmt::BreakIf(cond_from(&v[1]), block_from(&v[2])),
    }
}
fn prog_from(v: &Value) -> Prog { Prog { decls: v["decls"].as_array().unwrap().iter().map(lit_from).collect(), body: block_from(&v["body"]) } }

// ------------------------------------------------------------------ printer (mirrored by EV.C15.Model.print_prog)
fn p_lit(l: &Lit) -> String {
    match l {
        Lit::Nil => "nil".into(), Lit::Bool(b) => b.to_string(), Lit::Int(n) => n.to_string(), Lit::Float(n) => format!("{}.5", n),
        Lit::Str(n) => format!("'s{}'", n), Lit::Table(_) => "{}".into(), Lit::Fun(_) => "function() end".into(),
    }
}
fn p_cond(c: &Cond) -> String {
    match c {
        Cond::Type(x, t) => format!("type(x{}) == \"{}\"", x, TAGS[*t]),
        Cond::EqNil(x) => format!("x{} == nil", x),
        Cond::NeNil(x) => format!("x{} ~= nil", x),
        Cond::Var(x) => format!("x{}", x),
        Cond::Opq(k) => format!("c{}", k),
        Cond::Not(a) => format!("not ({})", p_cond(a)),
        Cond::And(a, b) => format!("({}) and ({})", p_cond(a), p_cond(b)),
        Cond::Or(a, b) => format!("({}) or ({})", p_cond(a), p_cond(b)),
        Cond::TypeF(x, t) => format!("\"{}\" == type(x{})", TAGS[*t], x),
        Cond::EqNilF(x) => format!("nil == x{}", x),
        Cond::NeNilF(x) => format!("nil ~= x{}", x),
    }
}
fn p_block(b: &[Stmt], out: &mut String) { for s in b { p_stmt(s, out); } }
fn p_stmt(s: &Stmt, out: &mut String) {
    match s {
        Stmt::Assign(x, l) => out.push_str(&format!("x{} = {}\n", x, p_lit(l))),
        Stmt::Probe(_, x) => out.push_str(&format!("probe(x{})\n", x)),
        Stmt::If(arms, els) => {
            for (i, (c, b)) in arms.iter().enumerate() {
                out.push_str(&format!("{} {} then\n", if i == 0 { "if" } else { "elseif" }, p_cond(c)));
                p_block(b, out);
            }
            if let Some(b) = els { out.push_str("else\n"); p_block(b, out); }
            out.push_str("end\n");
        }
        Stmt::While(c, b) => { out.push_str(&format!("while {} do\n", p_cond(c))); p_block(b, out); out.push_str("end\n"); }
        Stmt::WhileTrue(b) => { out.push_str("while true do\n"); p_block(b, out); out.push_str("end\n"); }
        Stmt::Repeat(b, c) => { out.push_str("repeat\n"); p_block(b, out); out.push_str(&format!("until {}\n", p_cond(c))); }
        Stmt::For(a, z, b) => { out.push_str(&format!("for i = {}, {} do\n", a, z)); p_block(b, out); out.push_str("end\n"); }
        Stmt::BreakIf(c, b) => { out.push_str(&format!("if {} then\n", p_cond(c))); p_block(b, out); out.push_str("break\nend\n"); }
        Stmt::Assert(c) => out.push_str(&format!("assert({})\n", p_cond(c))),
        Stmt::ReturnIf(e, c, b) => { out.push_str(&format!("if {} then\n", p_cond(c))); p_block(b, out); out.push_str(if *e { "error('e')\nend\n" } else { "return\nend\n" }); }
    }
}
fn print_prog(p: &Prog) -> String {
    let mut out = String::new();
    for (i, l) in p.decls.iter().enumerate() { out.push_str(&format!("local x{} = {}\n", i, p_lit(l))); }
    p_block(&p.body, &mut out);
    out
}

// ------------------------------------------------------------------ generator
struct Gen<'a> { rng: &'a mut Rng, nvars: usize, loops: bool, nopq: usize, maxopq: usize, nprobe: usize, budget: isize }

impl<'a> Gen<'a> {
    fn lit(&mut self) -> Lit {
        match self.rng.below(12) {
            0 | 1 => Lit::Nil, 2 => Lit::Bool(true), 3 => Lit::Bool(false), 4 | 5 => Lit::Int(1 + self.rng.below(2) as i64),
            6 => Lit::Float(2), 7 | 8 => Lit::Str(self.rng.below(2) as i64), 9 | 10 => Lit::Table(0), _ => Lit::Fun(0),
        }
    }
    fn var(&mut self) -> usize { self.rng.below(self.nvars) }
    fn atom(&mut self) -> Cond {
        let x = self.var();
        match self.rng.below(10) {
            0 | 1 | 2 => { let t = self.rng.below(6); if self.rng.chance(1, 4) { Cond::TypeF(x, t) } else { Cond::Type(x, t) } }
            3 => if self.rng.chance(1, 3) { Cond::EqNilF(x) } else { Cond::EqNil(x) },
            4 => if self.rng.chance(1, 3) { Cond::NeNilF(x) } else { Cond::NeNil(x) },
            5 | 6 => Cond::Var(x),
            _ => { if self.nopq < self.maxopq { self.nopq += 1; Cond::Opq(self.nopq - 1) } else { Cond::Var(x) } }
        }
    }
    fn cond(&mut self, depth: usize) -> Cond {
        if depth == 0 || self.rng.chance(5, 10) { return self.atom(); }
        match self.rng.below(3) {
            0 => Cond::Not(Box::new(self.cond(depth - 1))),
            1 => Cond::And(Box::new(self.cond(depth - 1)), Box::new(self.cond(depth - 1))),
            _ => Cond::Or(Box::new(self.cond(depth - 1)), Box::new(self.cond(depth - 1))),
        }
    }
    fn block(&mut self, depth: usize, in_loop: bool, maxlen: usize) -> Vec<Stmt> {
        let n = 1 + self.rng.below(maxlen);
        let mut b = Vec::new();
        for _ in 0..n {
            if self.budget <= 0 { break; }
            self.budget -= 1;
            b.push(self.stmt(depth, in_loop));
        }
        b
    }
    fn probe(&mut self) -> Stmt { let x = self.var(); self.nprobe += 1; Stmt::Probe(0, x) }
    fn stmt(&mut self, depth: usize, in_loop: bool) -> Stmt {
        let r = self.rng.below(if depth == 0 { 6 } else if self.loops { 14 } else { 10 });
        match r {
            0 | 1 | 2 => { let x = self.var(); let l = self.lit(); Stmt::Assign(x, l) }
            3 | 4 | 5 => self.probe(),
            6 | 7 | 8 | 9 => {
                if self.rng.chance(1, 8) { let c = self.cond(1); return Stmt::Assert(c); }
                if self.rng.chance(1, 8) {
                    let c = self.cond(1);
                    let b = if self.rng.chance(1, 2) { Vec::new() } else { self.block(depth - 1, in_loop, 2) };
                    let e = self.rng.chance(1, 2);
                    return Stmt::ReturnIf(e, c, b);
                }
                if in_loop && self.rng.chance(1, 3) {
                    let c = self.cond(1);
                    let b = if self.rng.chance(1, 2) { Vec::new() } else { self.block(depth - 1, in_loop, 2) };
                    return Stmt::BreakIf(c, b);
                }
                let narms = 1 + if self.rng.chance(1, 4) { 1 + self.rng.below(2) } else { 0 };
                let mut arms = Vec::new();
                for _ in 0..narms { let c = self.cond(2); let b = self.block(depth - 1, in_loop, 3); arms.push((c, b)); }
                let els = if self.rng.chance(1, 2) { Some(self.block(depth - 1, in_loop, 3)) } else { None };
                Stmt::If(arms, els)
            }
            _ => match self.rng.below(5) {
                0 | 1 => { let c = self.cond(1); let b = self.block(depth - 1, true, 3); Stmt::While(c, b) }
                2 => { let mut b = self.block(depth - 1, true, 3); let c = self.cond(1); b.push(Stmt::BreakIf(c, Vec::new())); if self.rng.chance(1,2) { let t = self.block(depth-1, true, 2); b.extend(t); } Stmt::WhileTrue(b) }
                3 => { let b = self.block(depth - 1, true, 3); let c = self.cond(1); Stmt::Repeat(b, c) }
                _ => { let a = 1 + self.rng.below(2) as i64; let z = self.rng.below(4) as i64; let b = self.block(depth - 1, true, 3); Stmt::For(a, z, b) }
            },
        }
    }
}

fn renum_lit(l: &mut Lit, nl: &mut usize) { match l { Lit::Table(k) | Lit::Fun(k) => { *k = *nl; *nl += 1; } _ => {} } }
fn renumber_prog(p: &mut Prog) -> usize {
    let mut nl = 0;
    for l in p.decls.iter_mut() { renum_lit(l, &mut nl); }
    renumber_lits(&mut p.body, &mut nl);
    let mut n = 0;
    renumber(&mut p.body, &mut n);
    n
}
fn renumber_lits(b: &mut Vec<Stmt>, nl: &mut usize) {
    for s in b.iter_mut() {
        match s {
            Stmt::Assign(_, l) => renum_lit(l, nl),
            Stmt::If(arms, els) => { for (_, bb) in arms.iter_mut() { renumber_lits(bb, nl); } if let Some(bb) = els { renumber_lits(bb, nl); } }
            Stmt::While(_, bb) | Stmt::WhileTrue(bb) | Stmt::Repeat(bb, _) | Stmt::For(_, _, bb) | Stmt::BreakIf(_, bb) | Stmt::ReturnIf(_, _, bb) => renumber_lits(bb, nl),
            Stmt::Probe(..) | Stmt::Assert(..) => {}
        }
    }
}
fn renumber(b: &mut Vec<Stmt>, next: &mut usize) {
    for s in b.iter_mut() {
        match s {
            Stmt::Probe(id, _) => { *id = *next; *next += 1; }
            Stmt::If(arms, els) => { for (_, bb) in arms.iter_mut() { renumber(bb, next); } if let Some(bb) = els { renumber(bb, next); } }
            Stmt::While(_, bb) | Stmt::WhileTrue(bb) | Stmt::Repeat(bb, _) | Stmt::For(_, _, bb) | Stmt::BreakIf(_, bb) | Stmt::ReturnIf(_, _, bb) => renumber(bb, next),
            Stmt::Assign(..) | Stmt::Assert(..) => {}
        }
    }
}

fn gen_prog(rng: &mut Rng, loops: bool) -> Prog {
    let nvars = 1 + rng.below(3);
    let mut g = Gen { rng, nvars, loops, nopq: 0, maxopq: if loops { 4 } else { 6 }, nprobe: 0, budget: 14 };
    let decls: Vec<Lit> = (0..nvars).map(|_| g.lit()).collect();
    let mut body = g.block(3, false, 5);
    // make sure something is observed at the end
    for x in 0..nvars { if g.rng.chance(2, 3) { body.push(Stmt::Probe(0, x)); } }
    if !body.iter().any(|s| matches!(s, Stmt::Probe(..))) { body.push(Stmt::Probe(0, 0)); }
    let mut p = Prog { decls, body };
    renumber_prog(&mut p);
    p
}

// ------------------------------------------------------------------ implementation observation
fn atoms(ty: &LuaType, out: &mut BTreeSet<String>) {
    match ty {
        LuaType::Nil => { out.insert("nil".into()); }
        LuaType::Never => {}
        LuaType::Unknown => { out.insert("unknown".into()); }
        LuaType::Any => { out.insert("any".into()); }
        LuaType::Boolean => { out.insert("true".into()); out.insert("false".into()); }
        LuaType::BooleanConst(b) | LuaType::DocBooleanConst(b) => { out.insert(b.to_string()); }
        LuaType::Integer | LuaType::Number | LuaType::IntegerConst(_) | LuaType::FloatConst(_) | LuaType::DocIntegerConst(_) => { out.insert("number".into()); }
        LuaType::String | LuaType::StringConst(_) | LuaType::DocStringConst(_) => { out.insert("string".into()); }
        LuaType::Table | LuaType::TableConst(_) | LuaType::Object(_) | LuaType::Array(_) | LuaType::Tuple(_) | LuaType::TableGeneric(_) => { out.insert("table".into()); }
        LuaType::Function | LuaType::Signature(_) | LuaType::DocFunction(_) => { out.insert("function".into()); }
        LuaType::Union(u) => { for t in u.into_vec() { atoms(&t, out); } }
        other => { out.insert(format!("other:{:?}", other)); }
    }
}

/// canonical structural rendering of a type of the fragment (compared with the model's type, payloads included)
fn canon(ty: &LuaType, ord: &dyn Fn(u32) -> usize) -> String {
    match ty {
        LuaType::Nil => "nil".into(), LuaType::Never => "never".into(), LuaType::Unknown => "unknown".into(), LuaType::Any => "any".into(),
        LuaType::Boolean => "boolean".into(), LuaType::BooleanConst(b) => format!("{}", b),
        LuaType::Integer => "integer".into(), LuaType::Number => "number".into(), LuaType::IntegerConst(i) => format!("i{}", i),
        LuaType::FloatConst(f) => format!("f{}", f), LuaType::String => "string".into(), LuaType::StringConst(s) => format!("s:{}", s),
        LuaType::Table => "table".into(), LuaType::TableConst(r) => format!("t{}", ord(u32::from(r.value.start()))),
        LuaType::Function => "function".into(), LuaType::Signature(s) => format!("g{}", ord(u32::from(s.get_position()))),
        LuaType::Union(u) => { let v: Vec<String> = u.into_vec().iter().map(|t| canon(t, ord)).collect(); format!("[{}]", v.join(",")) }
        other => format!("other:{:?}", other),
    }
}

struct Obs { atoms: Vec<String>, human: String, canon: String, err: Option<String> }

fn observe_text(text: &str, fresh: bool) -> Vec<Obs> {
    let mut ws = VirtualWorkspace::new();
    let file_id = ws.def(text);
    let db = ws.analysis.compilation.get_db();
    let tree = db.get_vfs().get_syntax_tree(&file_id).expect("tree");
    let chunk = tree.get_chunk_node();
    let mut res = Vec::new();
    let mut lits: Vec<u32> = chunk.descendants::<LuaTableExpr>().map(|t| u32::from(t.get_range().start()))
        .chain(chunk.descendants::<LuaClosureExpr>().map(|c| u32::from(c.get_position()))).collect();
    lits.sort();
    let ord = move |pos: u32| lits.iter().position(|p| *p == pos).unwrap_or(9999);
    let mut model = ws.analysis.compilation.get_semantic_model(file_id).expect("model");
    for call in chunk.descendants::<LuaCallExpr>() {
        let Some(LuaExpr::NameExpr(p)) = call.get_prefix_expr() else { continue };
        if p.get_name_text().as_deref() != Some("probe") { continue; }
        let Some(args) = call.get_args_list() else { continue };
        let Some(arg) = args.get_args().next() else { continue };
        if fresh { model = ws.analysis.compilation.get_semantic_model(file_id).expect("model"); }
        match model.infer_expr(arg.clone()) {
            Ok(t) => {
                let mut s = BTreeSet::new();
                atoms(&t, &mut s);
                res.push(Obs { atoms: s.into_iter().collect(), human: ws.humanize_type_detailed(t.clone()), canon: canon(&t, &ord), err: None });
            }
            Err(e) => res.push(Obs { atoms: vec![], human: String::new(), canon: String::new(), err: Some(format!("{:?}", e)) }),
        }
    }
    res
}

fn tag_of_atom(a: &str) -> &str { match a { "true" | "false" => "boolean", x => x } }

// ------------------------------------------------------------------ reference semantics (mirrors EV.C15.Model.exec)
// values are atoms: 0 nil, 1 false, 2 true, 3 number, 4 string, 5 table, 6 function
fn atom_of_lit(l: &Lit) -> u8 { match l { Lit::Nil => 0, Lit::Bool(false) => 1, Lit::Bool(true) => 2, Lit::Int(_) | Lit::Float(_) => 3, Lit::Str(_) => 4, Lit::Table(_) => 5, Lit::Fun(_) => 6 } }
fn tag_of_val(v: u8) -> &'static str { ["nil", "boolean", "boolean", "number", "string", "table", "function"][v as usize] }
fn tagidx_of_val(v: u8) -> usize { [0, 1, 1, 2, 3, 4, 5][v as usize] }

struct St { env: Vec<u8>, oracle: Vec<bool>, pos: usize, trace: Vec<(usize, u8)> }
#[derive(PartialEq)]
enum Out { Normal, Break, Fuel, Stop }

fn eval(c: &Cond, st: &mut St) -> bool {
    match c {
        Cond::Type(x, t) | Cond::TypeF(x, t) => tagidx_of_val(st.env[*x]) == *t,
        Cond::EqNil(x) | Cond::EqNilF(x) => st.env[*x] == 0,
        Cond::NeNil(x) | Cond::NeNilF(x) => st.env[*x] != 0,
        Cond::Var(x) => st.env[*x] >= 2,
        Cond::Opq(_) => { let b = st.oracle.get(st.pos).copied().unwrap_or(false); st.pos += 1; b }
        Cond::Not(a) => !eval(a, st),
        Cond::And(a, b) => if eval(a, st) { eval(b, st) } else { false },
        Cond::Or(a, b) => if eval(a, st) { true } else { eval(b, st) },
    }
}
fn exec_block(b: &[Stmt], fuel: usize, st: &mut St) -> Out {
    for s in b { let o = exec_stmt(s, fuel, st); if o != Out::Normal { return o; } }
    Out::Normal
}
fn exec_stmt(s: &Stmt, fuel: usize, st: &mut St) -> Out {
    match s {
        Stmt::Assign(x, l) => { st.env[*x] = atom_of_lit(l); Out::Normal }
        Stmt::Probe(id, x) => { st.trace.push((*id, st.env[*x])); Out::Normal }
        Stmt::If(arms, els) => {
            for (c, b) in arms { if eval(c, st) { return exec_block(b, fuel, st); } }
            if let Some(b) = els { exec_block(b, fuel, st) } else { Out::Normal }
        }
        Stmt::BreakIf(c, b) => { if eval(c, st) { match exec_block(b, fuel, st) { Out::Normal => Out::Break, o => o } } else { Out::Normal } }
        Stmt::Assert(c) => { if eval(c, st) { Out::Normal } else { Out::Stop } }
        Stmt::ReturnIf(_, c, b) => { if eval(c, st) { match exec_block(b, fuel, st) { Out::Normal => Out::Stop, o => o } } else { Out::Normal } }
        Stmt::While(c, b) => { for _ in 0..fuel { if !eval(c, st) { return Out::Normal; } match exec_block(b, fuel, st) { Out::Normal => {}, Out::Break => return Out::Normal, o => return o } } Out::Fuel }
        Stmt::WhileTrue(b) => { for _ in 0..fuel { match exec_block(b, fuel, st) { Out::Normal => {}, Out::Break => return Out::Normal, o => return o } } Out::Fuel }
        Stmt::Repeat(b, c) => { for _ in 0..fuel { match exec_block(b, fuel, st) { Out::Normal => {}, Out::Break => return Out::Normal, o => return o } if eval(c, st) { return Out::Normal; } } Out::Fuel }
        Stmt::For(a, z, b) => { let n = if z >= a { (z - a + 1) as usize } else { 0 }; for _ in 0..n { match exec_block(b, fuel, st) { Out::Normal => {}, Out::Break => return Out::Normal, o => return o } } Out::Normal }
    }
}
const FUEL: usize = 12;
fn count_opq_c(c: &Cond) -> usize { match c { Cond::Opq(_) => 1, Cond::Not(a) => count_opq_c(a), Cond::And(a, b) | Cond::Or(a, b) => count_opq_c(a) + count_opq_c(b), _ => 0 } }
fn count_opq(b: &[Stmt]) -> usize {
    b.iter().map(|s| match s {
        Stmt::If(arms, els) => arms.iter().map(|(c, bb)| count_opq_c(c) + count_opq(bb)).sum::<usize>() + els.as_ref().map(|bb| count_opq(bb)).unwrap_or(0),
        Stmt::While(c, bb) | Stmt::Repeat(bb, c) | Stmt::BreakIf(c, bb) | Stmt::ReturnIf(_, c, bb) => count_opq_c(c) + count_opq(bb),
        Stmt::Assert(c) => count_opq_c(c),
        Stmt::WhileTrue(bb) | Stmt::For(_, _, bb) => count_opq(bb),
        _ => 0 }).sum()
}
fn has_loop(b: &[Stmt]) -> bool {
    b.iter().any(|s| match s {
        Stmt::If(arms, els) => arms.iter().any(|(_, bb)| has_loop(bb)) || els.as_ref().map(|bb| has_loop(bb)).unwrap_or(false),
        Stmt::While(..) | Stmt::WhileTrue(..) | Stmt::Repeat(..) | Stmt::For(..) => true,
        Stmt::BreakIf(_, bb) | Stmt::ReturnIf(_, _, bb) => has_loop(bb),
        _ => false })
}
fn oracle_len(p: &Prog) -> usize { if has_loop(&p.body) { 8 } else { count_opq(&p.body).min(8) } }

/// exact set of (probe id, atom) reached over all oracles of length k (runs that exhaust the fuel are dropped);
/// returns (reach per probe as sorted atom lists, number of runs out of fuel)
fn reach(p: &Prog, nprobes: usize) -> (Vec<Vec<u8>>, usize) {
    let k = oracle_len(p);
    let mut sets: Vec<BTreeSet<u8>> = vec![BTreeSet::new(); nprobes];
    let mut oof = 0;
    for bits in 0..(1u32 << k) {
        let oracle: Vec<bool> = (0..k).map(|i| (bits >> i) & 1 == 1).collect();
        let mut st = St { env: p.decls.iter().map(atom_of_lit).collect(), oracle, pos: 0, trace: Vec::new() };
        if exec_block(&p.body, FUEL, &mut st) == Out::Fuel { oof += 1; continue; }
        for (id, v) in st.trace { if id < nprobes { sets[id].insert(v); } }
    }
    (sets.into_iter().map(|s| s.into_iter().collect()).collect(), oof)
}

// ------------------------------------------------------------------ probe placement / shapes
fn probes_info(b: &[Stmt], in_loop: bool, out: &mut Vec<(usize, usize, bool)>) {
    for s in b {
        match s {
            Stmt::Probe(id, x) => out.push((*id, *x, in_loop)),
            Stmt::If(arms, els) => { for (_, bb) in arms { probes_info(bb, in_loop, out); } if let Some(bb) = els { probes_info(bb, in_loop, out); } }
            Stmt::BreakIf(_, bb) | Stmt::ReturnIf(_, _, bb) => probes_info(bb, in_loop, out),
            Stmt::While(_, bb) | Stmt::WhileTrue(bb) | Stmt::Repeat(bb, _) | Stmt::For(_, _, bb) => probes_info(bb, true, out),
            Stmt::Assign(..) | Stmt::Assert(..) => {}
        }
    }
}
fn assigns(b: &[Stmt], x: usize) -> bool {
    b.iter().any(|s| match s {
        Stmt::Assign(y, _) => *y == x,
        Stmt::If(arms, els) => arms.iter().any(|(_, bb)| assigns(bb, x)) || els.as_ref().map(|bb| assigns(bb, x)).unwrap_or(false),
        Stmt::While(_, bb) | Stmt::WhileTrue(bb) | Stmt::Repeat(bb, _) | Stmt::For(_, _, bb) | Stmt::BreakIf(_, bb) | Stmt::ReturnIf(_, _, bb) => assigns(bb, x),
        _ => false })
}
fn cond_tests(c: &Cond, x: usize) -> bool {
    match c { Cond::Type(y, _) | Cond::EqNil(y) | Cond::NeNil(y) | Cond::Var(y) | Cond::TypeF(y, _) | Cond::EqNilF(y) | Cond::NeNilF(y) => *y == x, Cond::Opq(_) => false,
              Cond::Not(a) => cond_tests(a, x), Cond::And(a, b) | Cond::Or(a, b) => cond_tests(a, x) || cond_tests(b, x) }
}
fn tests(b: &[Stmt], x: usize) -> bool {
    b.iter().any(|s| match s {
        Stmt::If(arms, els) => arms.iter().any(|(c, bb)| cond_tests(c, x) || tests(bb, x)) || els.as_ref().map(|bb| tests(bb, x)).unwrap_or(false),
        Stmt::While(c, bb) | Stmt::BreakIf(c, bb) | Stmt::ReturnIf(_, c, bb) => cond_tests(c, x) || tests(bb, x),
        Stmt::Assert(c) => cond_tests(c, x),
        Stmt::Repeat(bb, c) => tests(bb, x) || cond_tests(c, x),
        Stmt::WhileTrue(bb) | Stmt::For(_, _, bb) => tests(bb, x),
        _ => false })
}
fn has_empty_else(b: &[Stmt]) -> bool {
    b.iter().any(|s| match s {
        Stmt::If(arms, els) => els.as_ref().map(|bb| bb.is_empty() || has_empty_else(bb)).unwrap_or(false) || arms.iter().any(|(_, bb)| has_empty_else(bb)),
        Stmt::While(_, bb) | Stmt::WhileTrue(bb) | Stmt::Repeat(bb, _) | Stmt::For(_, _, bb) | Stmt::BreakIf(_, bb) | Stmt::ReturnIf(_, _, bb) => has_empty_else(bb),
        _ => false })
}
/// does the block contain a `break` that leaves the loop whose body it is (not one of a nested loop)
fn own_break(b: &[Stmt]) -> bool {
    b.iter().any(|s| match s {
        Stmt::BreakIf(..) => true,
        Stmt::ReturnIf(_, _, bb) => own_break(bb),
        Stmt::If(arms, els) => arms.iter().any(|(_, bb)| own_break(bb)) || els.as_ref().map(|bb| own_break(bb)).unwrap_or(false),
        _ => false })
}
/// shape classes of the loops of a program with respect to variable x (any nesting depth)
fn loop_shapes(b: &[Stmt], x: usize, out: &mut BTreeSet<&'static str>) {
    for s in b {
        match s {
            Stmt::If(arms, els) => { for (_, bb) in arms { loop_shapes(bb, x, out); } if let Some(bb) = els { loop_shapes(bb, x, out); } }
            Stmt::BreakIf(_, bb) | Stmt::ReturnIf(_, _, bb) => loop_shapes(bb, x, out),
            Stmt::While(_, bb) => { if assigns(bb, x) { out.insert("while-cond-body-assigns-probed-var"); } loop_shapes(bb, x, out); }
            Stmt::WhileTrue(bb) => { if assigns(bb, x) && tests(bb, x) { out.insert("loop-body-tests-and-assigns-probed-var"); } loop_shapes(bb, x, out); }
            Stmt::Repeat(bb, _) => {
                if assigns(bb, x) && tests(bb, x) { out.insert("loop-body-tests-and-assigns-probed-var"); }
                else if assigns(bb, x) && own_break(bb) { out.insert("repeat-break-after-body-assigned-probed-var"); }
                loop_shapes(bb, x, out);
            }
            // a numeric for whose literal bounds show that it is not entered never runs its body: nothing inside matters
            Stmt::For(a, z, bb) => { if z >= a { if assigns(bb, x) && tests(bb, x) { out.insert("loop-body-tests-and-assigns-probed-var"); } loop_shapes(bb, x, out); } }
            _ => {}
        }
    }
}

// ------------------------------------------------------------------ property oracle on the implementation
struct Viol { signature: String, what: String, probe: usize }

fn check_prog(p: &Prog) -> (Vec<Viol>, Vec<Obs>, Vec<Vec<u8>>, usize) {
    let text = print_prog(p);
    let obs = observe_text(&text, false);
    let mut info = Vec::new();
    probes_info(&p.body, false, &mut info);
    let (r, oof) = reach(p, info.len());
    let mut v = Vec::new();
    if obs.len() != info.len() {
        v.push(Viol { signature: "harness-probe-count".into(), what: format!("{} probes in the AST, {} in the parsed text", info.len(), obs.len()), probe: 0 });
        return (v, obs, r, oof);
    }
    let lp = has_loop(&p.body);
    for (id, x, in_loop) in &info {
        if *in_loop { continue; } // C41 speaks about points after loops; inside a body only the tie is checked
        let o = &obs[*id];
        if let Some(e) = &o.err {
            v.push(Viol { signature: "infer-error".into(), what: format!("infer_expr failed at probe {}: {}", id, e), probe: *id });
            continue;
        }
        if o.atoms.iter().any(|a| a == "unknown" || a == "any") { continue; }
        let tags: HashSet<&str> = o.atoms.iter().map(|a| tag_of_atom(a)).collect();
        for val in &r[*id] {
            if !tags.contains(tag_of_val(*val)) {
                let sig = if lp {
                    let mut sh = BTreeSet::new();
                    loop_shapes(&p.body, *x, &mut sh);
                    if sh.is_empty() { "unsound-narrowing-with-loops-other".to_string() } else { sh.into_iter().next().unwrap().to_string() }
                } else if has_empty_else(&p.body) { "empty-else-drops-false-branch".to_string() }
                else if o.atoms.is_empty() { "never-typed-point-executed".to_string() } else { "unsound-narrowing".to_string() };
                v.push(Viol { signature: sig, what: format!("probe {} of x{}: runtime type {} is possible but the inferred type is {} ", id, x, tag_of_val(*val), if o.human.is_empty() { "never".to_string() } else { o.human.clone() }), probe: *id });
                break;
            }
        }
    }
    (v, obs, r, oof)
}

// ------------------------------------------------------------------ shrinking (greedy statement deletion / unwrapping)
fn variants(b: &[Stmt]) -> Vec<Vec<Stmt>> {
    let mut out = Vec::new();
    for i in 0..b.len() {
        let mut d = b.to_vec(); d.remove(i); out.push(d);
        let sub: Vec<Vec<Stmt>> = match &b[i] {
            Stmt::If(arms, els) => { let mut v: Vec<Vec<Stmt>> = arms.iter().map(|(_, bb)| bb.clone()).collect(); if let Some(e) = els { v.push(e.clone()); } v }
            _ => vec![],
        };
        for sb in sub { let mut d = b.to_vec(); d.splice(i..=i, sb.into_iter().filter(|s| !matches!(s, Stmt::BreakIf(..)))); out.push(d); }
        // recurse into nested blocks
        let rec = |bb: &Vec<Stmt>, mk: &dyn Fn(Vec<Stmt>) -> Stmt, out: &mut Vec<Vec<Stmt>>| {
            for nb in variants(bb) { let mut d = b.to_vec(); d[i] = mk(nb); out.push(d); }
        };
        match &b[i] {
            Stmt::If(arms, els) => {
                for (j, (_, bb)) in arms.iter().enumerate() {
                    let arms2 = arms.clone(); let els2 = els.clone();
                    rec(bb, &move |nb| { let mut a = arms2.clone(); a[j].1 = nb; Stmt::If(a, els2.clone()) }, &mut out);
                }
                if let Some(e) = els { let arms2 = arms.clone(); rec(e, &move |nb| Stmt::If(arms2.clone(), Some(nb)), &mut out); let mut d = b.to_vec(); d[i] = Stmt::If(arms.clone(), None); out.push(d); }
                if arms.len() > 1 { for j in 0..arms.len() { let mut a = arms.clone(); a.remove(j); let mut d = b.to_vec(); d[i] = Stmt::If(a, els.clone()); out.push(d); } }
            }
            Stmt::While(c, bb) => { let c2 = c.clone(); rec(bb, &move |nb| Stmt::While(c2.clone(), nb), &mut out); }
            Stmt::WhileTrue(bb) => rec(bb, &|nb| Stmt::WhileTrue(nb), &mut out),
            Stmt::Repeat(bb, c) => { let c2 = c.clone(); rec(bb, &move |nb| Stmt::Repeat(nb, c2.clone()), &mut out); }
            Stmt::For(a, z, bb) => { let (a, z) = (*a, *z); rec(bb, &move |nb| Stmt::For(a, z, nb), &mut out); }
            Stmt::BreakIf(c, bb) => { let c2 = c.clone(); rec(bb, &move |nb| Stmt::BreakIf(c2.clone(), nb), &mut out); }
            Stmt::ReturnIf(e, c, bb) => { let c2 = c.clone(); let e2 = *e; rec(bb, &move |nb| Stmt::ReturnIf(e2, c2.clone(), nb), &mut out); }
            _ => {}
        }
    }
    out
}
fn shrink(p: &Prog, sig: &str) -> Prog {
    let mut cur = p.clone();
    let mut steps = 0;
    'outer: loop {
        for nb in variants(&cur.body) {
            steps += 1;
            if steps > 400 { break 'outer; }
            let mut q = Prog { decls: cur.decls.clone(), body: nb };
            let n = renumber_prog(&mut q);
            if n == 0 { continue; }
            let (v, _, _, _) = check_prog(&q);
            if v.iter().any(|x| x.signature == sig) { cur = q; continue 'outer; }
        }
        break;
    }
    cur
}

// ------------------------------------------------------------------ corpus (hand-written witnesses first)
fn corpus(loops: bool) -> Vec<Prog> {
    let mut v = Vec::new();
    let dir = std::path::Path::new(env!("CARGO_MANIFEST_DIR")).join("../../corpus").join(if loops { "C41" } else { "C15" });
    if let Ok(rd) = std::fs::read_dir(&dir) {
        let mut files: Vec<_> = rd.filter_map(|e| e.ok()).map(|e| e.path()).filter(|p| p.extension().map(|x| x == "json").unwrap_or(false)).collect();
        files.sort();
        for f in files {
            if let Ok(s) = std::fs::read_to_string(&f) { if let Ok(j) = serde_json::from_str::<Value>(&s) {
                if let Some(a) = j.as_array() { for c in a { v.push(prog_from(&c["p"])); } } else { v.push(prog_from(&j["p"])); }
            } }
        }
    }
    v
}

fn case_json(p: &Prog, obs: &[Obs], r: &[Vec<u8>], oof: usize) -> Value {
    let mut info = Vec::new();
    probes_info(&p.body, false, &mut info);
    json!({"p": prog_json(p), "text": print_prog(p),
           "obs": obs.iter().map(|o| json!({"a": o.atoms, "c": o.canon, "h": o.human, "err": o.err})).collect::<Vec<_>>(),
           "reach": r, "oof": oof, "k": oracle_len(p), "inloop": info.iter().map(|x| x.2).collect::<Vec<_>>(),
           "pvar": info.iter().map(|x| x.1).collect::<Vec<_>>(),
           "known": info.iter().map(|x| { let mut sh = BTreeSet::new(); loop_shapes(&p.body, x.1, &mut sh); !sh.is_empty() }).collect::<Vec<_>>()})
}

fn main() {
    let args = Args::parse();
    let seed = args.u64("seed", 1);
    let n = args.usize("n", 100);
    let loops = args.flag("loops");
    let mut rng = Rng::new(seed ^ if loops { 0xC41 } else { 0xC15 });
    match args.cmd.as_str() {
        "dump" => {
            let text = std::fs::read_to_string(args.str("file", "")).unwrap();
            for blk in text.split("\n----\n") {
                println!("{}", blk.trim_end());
                let a = observe_text(blk, false);
                let b = observe_text(blk, true);
                for (i, (x, y)) in a.iter().zip(b.iter()).enumerate() {
                    println!("  probe {}: {}  {:?} {}{}", i, x.human, x.atoms, x.canon, if x.canon != y.canon { format!("   FRESH DIFFERS: {}", y.canon) } else { String::new() });
                }
                println!("====");
            }
        }
        "corr" => {
            let progs: Vec<Prog> = corpus(loops).into_iter().chain((0..n).map(|_| gen_prog(&mut rng, loops))).collect();
            for p in progs {
                let (_, obs, r, oof) = check_prog(&p);
                println!("{}", case_json(&p, &obs, &r, oof));
            }
        }
        "search" => {
            let progs: Vec<Prog> = corpus(loops).into_iter().chain((0..n).map(|_| gen_prog(&mut rng, loops))).collect();
            let mut distinct = HashSet::new();
            let (mut cases, mut probes, mut reached, mut with_loops, mut oofs, mut nontrivial) = (0usize, 0usize, 0usize, 0usize, 0usize, 0usize);
            let (mut after_loops_ok, mut after_loops_known) = (0usize, 0usize);
            let mut seen_sig: HashSet<String> = HashSet::new();
            let mut nviol = 0usize;
            for p in progs {
                let (v, obs, r, oof) = check_prog(&p);
                cases += 1; probes += obs.len(); reached += r.iter().filter(|s| !s.is_empty()).count(); oofs += oof;
                if has_loop(&p.body) {
                    with_loops += 1;
                    let mut info = Vec::new();
                    probes_info(&p.body, false, &mut info);
                    for (id, x, in_loop) in &info {
                        if *in_loop || r.get(*id).map(|s| s.is_empty()).unwrap_or(true) { continue; }
                        let mut sh = BTreeSet::new();
                        loop_shapes(&p.body, *x, &mut sh);
                        if sh.is_empty() { after_loops_ok += 1; } else { after_loops_known += 1; }
                    }
                }
                let text = print_prog(&p);
                let nt = text.contains("if ") && obs.len() > 0;
                if nt { nontrivial += 1; distinct.insert(text.clone()); }
                for viol in v {
                    nviol += 1;
                    if seen_sig.insert(viol.signature.clone()) {
                        let q = shrink(&p, &viol.signature);
                        let (v2, obs2, r2, oof2) = check_prog(&q);
                        let w = v2.iter().find(|x| x.signature == viol.signature).map(|x| x.what.clone()).unwrap_or(viol.what.clone());
                        let mut j = case_json(&q, &obs2, &r2, oof2);
                        j["signature"] = json!(viol.signature); j["what"] = json!(w);
                        println!("{}", j);
                    }
                }
            }
            println!("{}", json!({"summary": {"cases": cases, "distinct_nontrivial": distinct.len(), "nontrivial": nontrivial, "probes": probes,
                                             "probes_reached": reached, "programs_with_loops": with_loops, "runs_out_of_fuel": oofs, "violating_probes": nviol,
                                             "reached_probes_after_loops_outside_known_class": after_loops_ok, "reached_probes_after_loops_in_known_class": after_loops_known}}));
        }
        "one" => {
            let j: Value = serde_json::from_str(&args.str("case-json", "{}")).unwrap();
            let p = prog_from(if j.get("p").is_some() { &j["p"] } else { &j });
            let (v, obs, r, oof) = check_prog(&p);
            println!("{}", case_json(&p, &obs, &r, oof));
            for viol in v { println!("{}", json!({"signature": viol.signature, "what": viol.what, "probe": viol.probe})); }
        }
        "diag" => {
            // diagnostics of the property's own example (C41): `local k = nil; while not k do k = 'x' end; k:upper()`
            let text = args.str("text", "local k = nil\nwhile not k do\n  k = 'x'\nend\nk:upper()\n");
            let mut ws = VirtualWorkspace::new_with_init_std_lib();
            ws.enable_full_diagnostic();
            let file_id = ws.def(&text);
            let diags = ws.analysis.diagnose_file(file_id, tokio_util::sync::CancellationToken::new()).unwrap_or_default();
            let mut codes: Vec<String> = diags.iter().map(|d| match &d.code { Some(lsp_types::NumberOrString::String(s)) => s.clone(), _ => "?".into() }).collect();
            codes.sort();
            println!("{}", json!({"text": text, "codes": codes}));
        }
        _ => { eprintln!("usage: c15 corr|search|one|dump|diag"); std::process::exit(2); }
    }
}
