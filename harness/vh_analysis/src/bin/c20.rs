//! C20 harness: which diagnostics `diagnose_file` reports under which configuration.
//!   c20 tables                    -> JSON: DiagnosticCode::all() names (validates the translator's name table)
//!   c20 corr   --seed S --n N     -> JSON lines: the exhaustive switch lattice through the real diagnose_file, then
//!                                    N random globals/globalsRegex cases (observations for the model to check)
//!   c20 search --seed S --n N     -> JSON lines: violations of the property sentences (independent of the model) + summary
//!   c20 one    --case-json '{..}' -> replay one search case
use emmylua_code_analysis::{DiagnosticCode, EmmyLuaAnalysis, Emmyrc, FileId, WorkspaceFolder, WorkspaceId, file_path_to_uri};
use lsp_types::{Diagnostic, DiagnosticSeverity, NumberOrString};
use serde_json::{Value, json};
use std::collections::{BTreeMap, BTreeSet, HashSet};
use std::path::PathBuf;
use std::sync::Arc;
use tokio_util::sync::CancellationToken;
use vh_common::{Args, Rng, guarded};

/// (code, checker that emits it, program that triggers it once or more)
const TRIGGERS: &[(&str, &str, &str)] = &[
    ("undefined-global", "UndefinedGlobalChecker", "local _ug = undefined_xyz_g\n"),
    ("unused", "UnusedChecker", "local unused_v = 1\n"),
    ("syntax-error", "SyntaxErrorChecker", "local sx = = 1\n"),
    ("doc-syntax-error", "SyntaxErrorChecker", "---@type\nlocal dsx = 1\n"),
    ("unknown-doc-tag", "UnknownDocTag", "---@foobarbaz hello\nlocal udt = 1\n"),
    ("incomplete-signature-doc", "IncompleteSignatureDocChecker", "---@param a number\nlocal function isd(a, b) end\nisd(1, 2)\n"),
    ("missing-global-doc", "IncompleteSignatureDocChecker", "function G_mgd(a) end\n"),
    ("non-literal-expressions-in-assert", "NonLiteralExpressionsInAssertChecker", "local nle = assert(G_nle1, G_nle2())\n"),
    ("iter-variable-reassign", "LocalConstReassignChecker", "for ivr = 1, 2 do ivr = 3 end\n"),
    ("redefined-local", "RedefinedLocalChecker", "local rdl = 1\nlocal rdl = 2\n"),
    ("local-const-reassign", "LocalConstReassignChecker", "local lcr <const> = 1\nlcr = 2\n"),
    ("duplicate-type", "DuplicateTypeChecker", "---@class DupT\n\n---@class DupT\n"),
    ("type-not-found", "AnalyzeErrorChecker", "---@type NoSuchTypeXyz\nlocal tnf = nil\n"),
    ("syntax-error", "AnalyzeErrorChecker", "break\n"),
    ("missing-parameter", "ParamCheckChecker", "---@param a number\nlocal function mp(a) end\nmp()\n"),
    ("deprecated", "DeprecatedChecker", "---@deprecated\nlocal function dep() end\ndep()\n"),
];

const LEVELS: &[(&str, &str)] = &[("Lua51", "Lua5.1"), ("Lua54", "Lua5.4"), ("Lua55", "Lua5.5")];
const SEVS: &[&str] = &["error", "warning", "information", "hint"];

fn sev_name(s: Option<DiagnosticSeverity>) -> &'static str {
    match s {
        Some(DiagnosticSeverity::ERROR) => "ERROR",
        Some(DiagnosticSeverity::WARNING) => "WARNING",
        Some(DiagnosticSeverity::INFORMATION) => "INFORMATION",
        Some(DiagnosticSeverity::HINT) => "HINT",
        Some(_) => "OTHER",
        None => "MISSING",
    }
}

fn code_of(d: &Diagnostic) -> String {
    match &d.code {
        Some(NumberOrString::String(s)) => s.clone(),
        Some(NumberOrString::Number(n)) => format!("#{n}"),
        None => "<none>".into(),
    }
}

struct Cfg {
    enable: bool,
    disable: Vec<String>,
    enables: Vec<String>,
    severity: BTreeMap<String, String>,
    globals: Vec<String>,
    globals_regex: Vec<String>,
    level: String, // key of LEVELS
}

impl Cfg {
    fn to_json(&self) -> Value {
        json!({"enable": self.enable, "disable": self.disable, "enables": self.enables, "severity": self.severity,
               "globals": self.globals, "globals_regex": self.globals_regex, "level": self.level})
    }
    fn from_json(v: &Value) -> Cfg {
        let strs = |k: &str| -> Vec<String> {
            v[k].as_array().map(|a| a.iter().filter_map(|x| x.as_str().map(|s| s.to_string())).collect()).unwrap_or_default()
        };
        let mut severity = BTreeMap::new();
        if let Some(o) = v["severity"].as_object() {
            for (k, x) in o {
                severity.insert(k.clone(), x.as_str().unwrap_or("hint").to_string());
            }
        }
        Cfg {
            enable: v["enable"].as_bool().unwrap_or(true),
            disable: strs("disable"),
            enables: strs("enables"),
            severity,
            globals: strs("globals"),
            globals_regex: strs("globals_regex"),
            level: v["level"].as_str().unwrap_or("Lua55").to_string(),
        }
    }
    /// goes through the same serde path as a real .emmyrc.json
    fn emmyrc(&self) -> Emmyrc {
        let version = LEVELS.iter().find(|l| l.0 == self.level).map(|l| l.1).unwrap_or("Lua5.5");
        let v = json!({
            "runtime": {"version": version},
            "diagnostics": {
                "enable": self.enable, "disable": self.disable, "enables": self.enables, "severity": self.severity,
                "globals": self.globals, "globalsRegex": self.globals_regex,
            }
        });
        serde_json::from_value::<Emmyrc>(v).expect("emmyrc json")
    }
}

fn root(kind: &str) -> PathBuf {
    PathBuf::from(format!("/vws/{kind}"))
}

/// a fresh analysis with a main, a library and a std workspace; returns the diagnostics of one file placed in `placement`
fn diagnose(cfg: &Cfg, placement: &str, text: &str) -> Option<Vec<Diagnostic>> {
    diagnose_meta(cfg, placement, text).0
}

/// ... together with what the real module index answers to `is_meta_file` for that file
fn diagnose_meta(cfg: &Cfg, placement: &str, text: &str) -> (Option<Vec<Diagnostic>>, bool) {
    let mut analysis = EmmyLuaAnalysis::new();
    analysis.update_config(Arc::new(cfg.emmyrc()));
    analysis.add_main_workspace(root("main"));
    analysis.add_library_workspace(&WorkspaceFolder::new(root("lib"), true));
    analysis.compilation.get_db_mut().get_module_index_mut().add_workspace_root(root("std"), WorkspaceId::STD);
    let dir = match placement {
        "main" | "lib" | "std" => root(placement),
        _ => PathBuf::from("/elsewhere"),
    };
    let uri = file_path_to_uri(&dir.join("c20_case.lua")).expect("uri");
    let id: FileId = analysis.update_file_by_uri(&uri, Some(text.to_string())).expect("file id");
    let ws = analysis.compilation.get_db().get_module_index().get_workspace_id(id);
    let expect = match placement {
        "main" => Some(WorkspaceId::MAIN),
        "std" => Some(WorkspaceId::STD),
        "lib" => Some(WorkspaceId::LIBRARY_START),
        _ => None,
    };
    assert_eq!(ws, expect, "placement {placement} did not give the intended workspace");
    let is_meta = analysis.compilation.get_db().get_module_index().is_meta_file(&id);
    (analysis.diagnose_file(id, CancellationToken::new()), is_meta)
}

/// spellings of the meta tag: bare, the two names that keep the module path, a module name, a dotted module name
const METAS: &[Option<&str>] = &[None, Some(""), Some("_"), Some("no-require"), Some("mylib"), Some("socket.io")];

fn header(meta: Option<&str>, file_enable: &[String], file_disable: &[String]) -> String {
    let mut s = String::new();
    if let Some(name) = meta {
        if name.is_empty() {
            s.push_str("---@meta\n");
        } else {
            s.push_str(&format!("---@meta {name}\n"));
        }
    }
    for c in file_enable {
        s.push_str(&format!("---@diagnostic enable: {c}\n"));
    }
    for c in file_disable {
        s.push_str(&format!("---@diagnostic disable: {c}\n"));
    }
    s.push('\n');
    s
}

fn plain_header(lines: usize) -> String {
    let mut s = String::new();
    for _ in 0..lines.saturating_sub(1) {
        s.push_str("--\n");
    }
    s.push('\n');
    s
}

fn enc_obs(r: &Option<Vec<Diagnostic>>, code: &str) -> Value {
    match r {
        None => json!("none"),
        Some(v) => {
            let ds: Vec<&Diagnostic> = v.iter().filter(|d| code_of(d) == code).collect();
            if ds.is_empty() {
                json!("absent")
            } else {
                let sevs: BTreeSet<&str> = ds.iter().map(|d| sev_name(d.severity)).collect();
                json!({"present": ds.len(), "sev": sevs.into_iter().collect::<Vec<_>>()})
            }
        }
    }
}

fn corr_lattice() {
    for (ti, (code, checker, body)) in TRIGGERS.iter().enumerate() {
        // sanity of the trigger itself: reported in a plain main file when forced on by `enables`
        for level in ["Lua54", "Lua55"] {
            if level == "Lua54" && *code != "iter-variable-reassign" {
                continue;
            }
            for bits in 0u32..(1 << 7) {
              for (mi, meta) in METAS.iter().enumerate() {
                // bit 2 used to be the meta switch; the tag now ranges over all its spellings
                if bits & 4 != 0 {
                    continue;
                }
                let meta: Option<&str> = *meta;
                let _ = mi;
                let fe = bits & 1 != 0;
                let wd = bits & 2 != 0;
                let fd = bits & 8 != 0;
                let we = bits & 16 != 0;
                let enable = bits & 32 == 0;
                let sev = if bits & 64 != 0 { Some(SEVS[(ti + (bits as usize >> 3)) % 4]) } else { None };
                let c = code.to_string();
                let mut severity = BTreeMap::new();
                if let Some(s) = sev {
                    severity.insert(c.clone(), s.to_string());
                }
                let cfg = Cfg {
                    enable,
                    disable: if wd { vec![c.clone()] } else { vec![] },
                    enables: if we { vec![c.clone()] } else { vec![] },
                    severity,
                    globals: vec![],
                    globals_regex: vec![],
                    level: level.to_string(),
                };
                let text = header(meta, if fe { std::slice::from_ref(&c) } else { &[] }, if fd { std::slice::from_ref(&c) } else { &[] }) + body;
                for placement in ["main", "lib", "std", "none"] {
                    // the placement axis is independent of the severity axis: halve the product
                    if sev.is_some() && placement != "main" {
                        continue;
                    }
                    let r = guarded(|| diagnose_meta(&cfg, placement, &text));
                    let (obs, is_meta) = match &r {
                        Ok((r, m)) => (enc_obs(r, code), json!(m)),
                        Err(e) => (json!({"panic": e}), Value::Null),
                    };
                    println!("{}", json!({"kind": "lattice", "code": code, "checker": checker, "fe": fe, "wd": wd, "meta": meta, "is_meta": is_meta, "fd": fd, "we": we,
                        "enable": enable, "sev": sev, "level": level, "placement": placement, "obs": obs}));
                }
              }
            }
        }
    }
}

const NAMES: &[&str] = &["foo", "Foo", "foo_bar", "GLOBAL_X", "g1", "g22", "vim", "love", "_G2", "jit", "x", "self2", "ngx", "a.b"];
const REGEXES: &[&str] = &["^g\\d+$", "^G", "foo", "^_", "^[a-z]+$", "x$", "(", "^vim|love$", ".*", "^$", "\\d\\d"];

fn gen_globals(rng: &mut Rng) -> (Vec<String>, Vec<String>) {
    let mut g = Vec::new();
    let mut r = Vec::new();
    for _ in 0..rng.below(4) {
        g.push(rng.pick(NAMES).to_string());
    }
    for _ in 0..rng.below(3) {
        r.push(rng.pick(REGEXES).to_string());
    }
    (g, r)
}

/// the name of every reported undefined-global diagnostic, read from the text at the diagnostic's range (line/col are
/// ASCII here, so no encoding question arises)
fn ug_names(text: &str, ds: &[Diagnostic]) -> Vec<String> {
    let lines: Vec<&str> = text.split('\n').collect();
    let mut out = Vec::new();
    for d in ds.iter().filter(|d| code_of(d) == "undefined-global") {
        let l = d.range.start.line as usize;
        let (a, b) = (d.range.start.character as usize, d.range.end.character as usize);
        if d.range.end.line as usize == l && l < lines.len() && a <= b && b <= lines[l].len() {
            out.push(lines[l][a..b].to_string());
        } else {
            out.push(format!("<bad range {:?}>", d.range));
        }
    }
    out
}

fn corr_globals(rng: &mut Rng, n: usize) {
    for _ in 0..n {
        let (globals, globals_regex) = gen_globals(rng);
        let names: Vec<&str> = (0..rng.range(1, 5)).map(|_| *rng.pick(NAMES)).filter(|n| !n.contains('.')).collect();
        let mut text = String::new();
        for (i, nm) in names.iter().enumerate() {
            text.push_str(&format!("local _v{i} = {nm}\n"));
        }
        let cfg = Cfg { enable: true, disable: vec![], enables: vec![], severity: BTreeMap::new(), globals: globals.clone(),
            globals_regex: globals_regex.clone(), level: "Lua55".into() };
        let r = guarded(|| diagnose(&cfg, "main", &text));
        let reported: Value = match &r {
            Ok(Some(ds)) => json!(ug_names(&text, ds)),
            Ok(None) => json!("none"),
            Err(e) => json!({"panic": e}),
        };
        // regex verdicts per (regex, name), computed with the regex crate; an invalid regex is `null`
        let rx: Vec<Option<regex::Regex>> = globals_regex.iter().map(|s| regex::Regex::new(s).ok()).collect();
        let verdicts: Vec<Value> = names.iter().map(|nm| {
            json!(rx.iter().map(|r| match r { Some(r) => json!(r.is_match(nm)), None => Value::Null }).collect::<Vec<_>>())
        }).collect();
        println!("{}", json!({"kind": "globals", "names": names, "globals": globals, "regex": globals_regex, "rx": verdicts, "reported": reported}));
    }
}

// ------------------------------------------------------------------ search

struct SCase {
    cfg: Cfg,
    placement: String,
    meta: Option<String>, // the name after ---@meta ("" = bare tag)
    raw_body: Option<String>, // a hand-written program instead of trigger bodies
    file_enable: Vec<String>,
    file_disable: Vec<String>,
    bodies: Vec<usize>, // indices into TRIGGERS
    extra_names: Vec<String>,
}

impl SCase {
    fn to_json(&self) -> Value {
        json!({"cfg": self.cfg.to_json(), "placement": self.placement, "meta": self.meta, "raw_body": self.raw_body, "file_enable": self.file_enable,
               "file_disable": self.file_disable, "bodies": self.bodies, "extra_names": self.extra_names})
    }
    fn from_json(v: &Value) -> SCase {
        let strs = |k: &str| -> Vec<String> {
            v[k].as_array().map(|a| a.iter().filter_map(|x| x.as_str().map(|s| s.to_string())).collect()).unwrap_or_default()
        };
        SCase {
            cfg: Cfg::from_json(&v["cfg"]),
            placement: v["placement"].as_str().unwrap_or("main").to_string(),
            meta: match &v["meta"] { Value::Bool(true) => Some(String::new()), Value::String(s) => Some(s.clone()), _ => None },
            raw_body: v["raw_body"].as_str().map(|s| s.to_string()),
            file_enable: strs("file_enable"),
            file_disable: strs("file_disable"),
            bodies: v["bodies"].as_array().map(|a| a.iter().filter_map(|x| x.as_u64().map(|n| n as usize)).filter(|i| *i < TRIGGERS.len()).collect()).unwrap_or_default(),
            extra_names: strs("extra_names"),
        }
    }
    fn body(&self) -> String {
        if let Some(b) = &self.raw_body {
            return b.clone();
        }
        let mut s = String::new();
        for &i in &self.bodies {
            s.push_str(TRIGGERS[i].2);
            s.push('\n');
        }
        for (i, nm) in self.extra_names.iter().enumerate() {
            s.push_str(&format!("local _e{i} = {nm}\n"));
        }
        s
    }
    fn header_lines(&self) -> usize {
        (self.meta.is_some() as usize) + self.file_enable.len() + self.file_disable.len() + 1
    }
}

fn subset(rng: &mut Rng, pool: &[String], p_num: usize, p_den: usize) -> Vec<String> {
    pool.iter().filter(|_| rng.chance(p_num, p_den)).cloned().collect()
}

fn gen_case(rng: &mut Rng) -> SCase {
    let all: Vec<String> = DiagnosticCode::all().iter().map(|c| c.get_name().to_string()).collect();
    let trig: Vec<String> = TRIGGERS.iter().map(|t| t.0.to_string()).collect::<BTreeSet<_>>().into_iter().collect();
    let mut bodies: Vec<usize> = (0..TRIGGERS.len()).filter(|_| rng.chance(1, 3)).collect();
    if bodies.is_empty() {
        bodies.push(rng.below(TRIGGERS.len()));
    }
    // shuffle
    for i in (1..bodies.len()).rev() {
        let j = rng.below(i + 1);
        bodies.swap(i, j);
    }
    let mode = rng.below(8);
    let mut disable = subset(rng, &trig, 1, 4);
    let mut enables = subset(rng, &trig, 1, 3);
    if mode == 0 {
        disable.extend(subset(rng, &all, 1, 3));
        enables.extend(subset(rng, &all, 1, 3));
    }
    if mode == 1 {
        disable = all.clone();
    }
    if mode == 2 {
        enables = all.clone();
    }
    if mode == 3 {
        // everything disabled except a few codes, which are listed in `enables`
        let keep: Vec<String> = subset(rng, &trig, 1, 4);
        disable = all.iter().filter(|c| !keep.contains(c)).cloned().collect();
        enables = keep;
    }
    let mut severity = BTreeMap::new();
    for c in subset(rng, &trig, 1, 3) {
        severity.insert(c, rng.pick(SEVS).to_string());
    }
    let (globals, globals_regex) = if rng.chance(1, 2) { gen_globals(rng) } else { (vec![], vec![]) };
    let cfg = Cfg {
        enable: !rng.chance(1, 12),
        disable,
        enables,
        severity,
        globals,
        globals_regex,
        level: rng.pick(LEVELS).0.to_string(),
    };
    let placement = match rng.below(8) { 0 => "lib", 1 => "std", 2 => "none", _ => "main" }.to_string();
    let extra_names = (0..rng.below(4)).map(|_| rng.pick(NAMES).to_string()).filter(|n| !n.contains('.')).collect();
    SCase {
        cfg,
        placement,
        meta: if rng.chance(1, 4) { METAS[1 + rng.below(METAS.len() - 1)].map(|s| s.to_string()) } else { None },
        raw_body: None,
        file_enable: subset(rng, &trig, 1, 5),
        file_disable: subset(rng, &trig, 1, 6),
        bodies,
        extra_names,
    }
}

type Key = (String, u32, u32, u32, u32, String);
fn keys(ds: &[Diagnostic]) -> Vec<Key> {
    let mut v: Vec<Key> = ds.iter().map(|d| (code_of(d), d.range.start.line, d.range.start.character, d.range.end.line, d.range.end.character, d.message.clone())).collect();
    v.sort();
    v
}

/// the property's sentences, checked on the implementation's output alone
fn search_one(c: &SCase, out: &mut Vec<Value>) -> (usize, usize) {
    let body = c.body();
    let text = header(c.meta.as_deref(), &c.file_enable, &c.file_disable) + &body;
    let res = guarded(|| diagnose(&c.cfg, &c.placement, &text));
    let mut report = |sig: String, what: String| out.push(json!({"signature": sig, "what": what, "case": c.to_json(), "text": text}));
    let res = match res {
        Ok(r) => r,
        Err(e) => {
            report("panic".into(), format!("diagnose_file panicked: {e}"));
            return (0, 0);
        }
    };
    let ds: Vec<Diagnostic> = res.clone().unwrap_or_default();
    let fe: HashSet<&str> = c.file_enable.iter().map(|s| s.as_str()).collect();
    let fd: HashSet<&str> = c.file_disable.iter().map(|s| s.as_str()).collect();
    let wd: HashSet<&str> = c.cfg.disable.iter().map(|s| s.as_str()).collect();
    let we: HashSet<&str> = c.cfg.enables.iter().map(|s| s.as_str()).collect();
    // "diagnostics.enable = false reports nothing at all"
    if !c.cfg.enable && !ds.is_empty() {
        report("enable-false-reports".into(), format!("diagnostics.enable=false but {} diagnostics reported, first {}", ds.len(), code_of(&ds[0])));
    }
    // "library or standard-library files report nothing"
    if (c.placement == "lib" || c.placement == "std") && !ds.is_empty() {
        report(format!("{}-file-reports", c.placement), format!("a {} file reported {} diagnostics, first {}", c.placement, ds.len(), code_of(&ds[0])));
    }
    // "Meta files ... report nothing".  A file outside every workspace root has no module entry, so the module index
    // cannot mark it as a meta file (and the server ignores such files): the sentence is checked for files of a workspace.
    if c.meta.is_some() && c.placement != "none" && !ds.is_empty() {
        let d0 = &ds[0];
        let code = code_of(d0);
        let name = c.meta.as_deref().unwrap_or("");
        let sig = if !name.is_empty() && name != "_" && name != "no-require" { "meta-file-reports:named-tag" }
            else if fe.contains(code.as_str()) { "meta-file-reports:file-enabled-code" } else { "meta-file-reports:other-code" };
        report(sig.into(), format!("a `---@meta{}{}` file reported {} diagnostics, first {} ({})", if name.is_empty() { "" } else { " " }, name, ds.len(), code, d0.message));
    }
    // "A code in diagnostics.disable is never reported unless the file enables it"
    for d in &ds {
        let code = code_of(d);
        if wd.contains(code.as_str()) && !fe.contains(code.as_str()) {
            report("disabled-code-reported".into(), format!("{code} is in diagnostics.disable, the file does not enable it, yet it is reported: {}", d.message));
            break;
        }
    }
    // "severity overrides the reported severity"
    for d in &ds {
        let code = code_of(d);
        if let Some(s) = c.cfg.severity.get(&code) {
            if sev_name(d.severity).to_lowercase() != *s {
                report("severity-not-overridden".into(), format!("{code} has severity {} but the configuration says {s}", sev_name(d.severity)));
                break;
            }
        }
    }
    // "names in globals/globalsRegex are never reported as undefined globals"
    let rx: Vec<regex::Regex> = c.cfg.globals_regex.iter().filter_map(|s| regex::Regex::new(s).ok()).collect();
    for nm in ug_names(&text, &ds) {
        if c.cfg.globals.iter().any(|g| *g == nm) || rx.iter().any(|r| r.is_match(&nm)) {
            report("configured-global-reported".into(), format!("`{nm}` is covered by globals/globalsRegex but reported as undefined global"));
            break;
        }
    }
    // "Codes in enables are reported even when off by default": every diagnostic the file has when all codes are forced
    // on (same text with the header neutralised, no globals) must still be there for a code listed in `enables`
    // (and not disabled / suppressed by one of the other sentences' switches)
    let mut potential = 0usize;
    if c.cfg.enable && c.meta.is_none() && (c.placement == "main" || c.placement == "none") {
        let all: Vec<String> = DiagnosticCode::all().iter().map(|c| c.get_name().to_string()).collect();
        let base_cfg = Cfg { enable: true, disable: vec![], enables: all, severity: BTreeMap::new(), globals: vec![], globals_regex: vec![], level: c.cfg.level.clone() };
        let base_text = plain_header(c.header_lines()) + &body;
        if let Ok(Some(bds)) = guarded(|| diagnose(&base_cfg, &c.placement, &base_text)) {
            potential = bds.len();
            let have: HashSet<Key> = keys(&ds).into_iter().collect();
            for k in keys(&bds) {
                let code = k.0.as_str();
                if we.contains(code) && !wd.contains(code) && !fd.contains(code) && !have.contains(&k) {
                    if code == "undefined-global" && !(c.cfg.globals.is_empty() && c.cfg.globals_regex.is_empty()) {
                        continue;
                    }
                    let checker = TRIGGERS.iter().find(|t| t.0 == code && k.5.len() > 0 && c.bodies.iter().any(|b| TRIGGERS[*b].0 == code && TRIGGERS[*b].1 == t.1)).map(|t| t.1).unwrap_or("?");
                    let sig = if code == "syntax-error" && (k.5.contains("outside loop") || k.5.contains("not found")) {
                        "enabled-code-not-reported:analyzer-syntax-error".to_string()
                    } else {
                        format!("enabled-code-not-reported:{checker}")
                    };
                    report(sig, format!("{code} is in diagnostics.enables (not disabled) but `{}` at {}:{} is not reported", k.5, k.1, k.2));
                    break;
                }
            }
        }
    }
    (ds.len(), potential)
}

fn main() {
    let args = Args::parse();
    let seed = args.u64("seed", 1);
    let n = args.usize("n", 100);
    let mut rng = Rng::new(seed ^ 0xC20);
    match args.cmd.as_str() {
        "tables" => {
            let names: Vec<String> = DiagnosticCode::all().iter().map(|c| c.get_name().to_string()).collect();
            let triggers: Vec<Value> = TRIGGERS.iter().map(|t| json!([t.0, t.1])).collect();
            println!("{}", json!({"names": names, "triggers": triggers}));
        }
        "corr" => {
            corr_lattice();
            corr_globals(&mut rng, n);
        }
        "search" => {
            let mut out = Vec::new();
            let mut cases = 0usize;
            let mut distinct = HashSet::new();
            let mut dist: BTreeMap<String, usize> = BTreeMap::new();
            let mut reported = 0usize;
            let corpus = args.str("corpus", "");
            let mut list: Vec<SCase> = Vec::new();
            if !corpus.is_empty() {
                if let Ok(rd) = std::fs::read_dir(&corpus) {
                    let mut ps: Vec<_> = rd.filter_map(|e| e.ok()).map(|e| e.path()).filter(|p| p.extension().map(|x| x == "json").unwrap_or(false)).collect();
                    ps.sort();
                    for p in ps {
                        if let Ok(s) = std::fs::read_to_string(&p) {
                            if let Ok(v) = serde_json::from_str::<Value>(&s) {
                                list.push(SCase::from_json(&v));
                            }
                        }
                    }
                }
            }
            *dist.entry("corpus".into()).or_default() += list.len();
            for _ in 0..n {
                list.push(gen_case(&mut rng));
            }
            let mut sigs_seen: HashSet<String> = HashSet::new();
            for c in &list {
                let before = out.len();
                let (nd, pot) = search_one(c, &mut out);
                // keep one violation per signature (the first = smallest index) plus a count
                let mut kept = Vec::new();
                for v in out.drain(before..) {
                    let s = v["signature"].as_str().unwrap_or("").to_string();
                    if sigs_seen.insert(s) {
                        kept.push(v);
                    }
                }
                out.extend(kept);
                cases += 1;
                reported += nd;
                let nontrivial = nd > 0 || pot > 0;
                if nontrivial {
                    distinct.insert(c.to_json().to_string());
                }
                *dist.entry(format!("placement_{}", c.placement)).or_default() += 1;
                if let Some(m) = &c.meta { *dist.entry(format!("meta_tag_{}", if m.is_empty() { "bare" } else { m.as_str() })).or_default() += 1; }
                if !c.cfg.enable { *dist.entry("enable_false".into()).or_default() += 1; }
                if !c.cfg.disable.is_empty() { *dist.entry("with_disable".into()).or_default() += 1; }
                if !c.cfg.enables.is_empty() { *dist.entry("with_enables".into()).or_default() += 1; }
                if !c.cfg.severity.is_empty() { *dist.entry("with_severity".into()).or_default() += 1; }
                if !c.cfg.globals.is_empty() || !c.cfg.globals_regex.is_empty() { *dist.entry("with_globals".into()).or_default() += 1; }
                if !c.file_enable.is_empty() { *dist.entry("with_file_enable".into()).or_default() += 1; }
                if !c.file_disable.is_empty() { *dist.entry("with_file_disable".into()).or_default() += 1; }
                if nd > 0 { *dist.entry("reporting_something".into()).or_default() += 1; }
            }
            for v in &out {
                println!("{}", v);
            }
            println!("{}", json!({"summary": {"cases": cases, "distinct_nontrivial": distinct.len(), "diagnostics_seen": reported, "distribution": dist}}));
        }
        "one" => {
            let v: Value = serde_json::from_str(&args.str("case-json", "{}")).expect("case json");
            let c = SCase::from_json(&v);
            let mut out = Vec::new();
            search_one(&c, &mut out);
            for v in &out {
                println!("{}", v);
            }
        }
        "probe" => {
            // all diagnostics of a text with every code forced on (development aid / replay aid)
            let text: String = serde_json::from_str(&args.str("text-json", "\"\"")).expect("text json");
            let all: Vec<String> = DiagnosticCode::all().iter().map(|c| c.get_name().to_string()).collect();
            let cfg = Cfg { enable: true, disable: vec![], enables: all, severity: BTreeMap::new(), globals: vec![], globals_regex: vec![], level: args.str("level", "Lua55") };
            match diagnose(&cfg, &args.str("placement", "main"), &text) {
                None => println!("none"),
                Some(ds) => for d in ds { println!("{} {:?} {} {}", code_of(&d), d.range, sev_name(d.severity), d.message); }
            }
        }
        _ => {
            eprintln!("usage: c20 tables|corr|search|one|probe");
            std::process::exit(2);
        }
    }
}
