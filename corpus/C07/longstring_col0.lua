function f()
    local s = [[line1
line2]]
    return s
end
