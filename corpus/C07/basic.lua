local t = {
    a = 1,
    b = { c = 2 },
}
local function g(x, y)
    return x + y
end
