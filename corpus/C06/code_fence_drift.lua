--- ```
--- tab → 0x08 // Empty table
---           | 0x09 h.U // Key/value hash
--- ```
local x = 1
