---@param chunk (fun(...: any): string) | Language<"Lua">
---@param x string
function f(chunk, x) end
