local id = function(a) return a end
local three = function() return 1, 2, 3 end
local swap = function(a, b) return b, a end
local none = function() return end
local empty = function() end
local ok, err = pcall(function() return nil, "not implemented" end)
local multi = function(a, b)
    return b, a
end
local t = { f = function(x) return x, x end, function() return 1 end, g = function(...) return ... end }
call(function() return a, b end, function(x, y) return x end, 3)
return function(a, b, c) return c, b, a end, function() return 1, 2 end
