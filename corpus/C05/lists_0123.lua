local a
local a, b
local a, b, c = 1, 2, 3
a, b, c = c, b, a
f()
f(1)
f(1, 2)
f(1, 2, 3)
local t0, t1, t2, t3 = {}, { 1 }, { 1, 2 }, { 1, 2, 3 }
for k in next, t do end
for k, v in pairs(t) do end
for k, v, w in iter(t) do end
function g() return end
function g1() return 1 end
function g2() return 1, 2 end
function g3(a, b, c) return a, b, c end
o:m "s"
o:m { 1, 2 }
f [[long]]
(f)(x)
local y = (t).x
