import json,glob,os,re,hashlib,collections,sys
best={}
def feed(files, prop_fixed=None):
    for f in files:
        for l in open(f):
            d=json.loads(l)
            if 'summary' in d: continue
            prop=prop_fixed or d['prop']
            k=(prop,d['signature'])
            if k not in best or len(d['text'])<len(best[k]['text']): best[k]=d
feed(sorted(glob.glob('/tmp/c05p/d5_*.jsonl'))+sorted(glob.glob('/tmp/c05p/c5_*.jsonl')))
feed(sorted(glob.glob('/tmp/c05p/d7_*.jsonl'))+sorted(glob.glob('/tmp/c05p/c7_*.jsonl')),'C07')
EXPL=[('code-token','the IR builder dropped, added or changed a code token'),
 ('comment-structure','a comment parses to a different structure after formatting'),
 ('comment-text','comment text was dropped, duplicated or altered'),
 ('glued-tokens','two tokens were printed without the separating blank and lex as a different token sequence'),
 ('output-syntax-error','the formatted output does not parse'),
 ('not-idempotent','formatting the output again changes it'),
 ('range-reindent-inside-token','re-indentation of the formatted fragment changes the continuation lines of a multi-line token (predicted by C07 reindent_preserves_tokens_refuted)'),
 ('formatter-defect','the fragment formatter itself (C05) changes the code; not specific to range formatting'),
 ('range-comment-text','comment text differs after applying the range edit although whole-document formatting keeps it'),
 ('range-code-token','a code token differs after applying the range edit although whole-document formatting keeps it'),
 ('range-output-syntax-error','the document does not parse after applying the range edit although whole-document formatting is fine'),
 ('selection-not-covered','a token the selection intersects lies outside the replaced region'),
 ('format-panic','the formatter panics')]
def expl(sig):
    body=sig.split(':',1)[1] if sig.startswith('default:') else sig.split(']:',1)[-1]
    for k,v in EXPL:
        if body.startswith(k): return v
    return 'violation'
def cause(sig):
    if sig.startswith('default:'): return 'under the DEFAULT configuration'
    return 'under the minimal option set '+sig.split(']:',1)[0]+']'
findings={'C05':[],'C06':[],'C07':[]}
for prop in findings:
    for f in glob.glob('/verif/corpus/%s/known_*.json'%prop): os.remove(f)
for (prop,sig),d in sorted(best.items()):
    h=hashlib.sha1(sig.encode()).hexdigest()[:10]
    w={'signature':sig,'text':d['text'],'cfg':d['cfg'],'what':d['what']}
    if prop=='C07': w['sel']=d['sel']
    json.dump(w,open('/verif/corpus/%s/known_%s.json'%(prop,h),'w'),indent=1,ensure_ascii=False)
    findings[prop].append({'property':prop,'status':'open','signature':sig,'what':'%s %s: %s (witness corpus/%s/known_%s.json)'%(expl(sig),cause(sig),d['what'][:220],prop,h)})
findings['C05'].insert(0,{'property':'C05','status':'fixed','commit':'49b5b23','signature':'aligned-doc-tag-columns-drop-text (doc type starting with a parenthesised function type in an aligned @param/@return/@field/@alias tag)',
  'what':'fixed: property=C05 49b5b23 formatting std/global.lua with the default config turned `---@param chunk (fun(...: any): string) | Language<"Lua">` into `---@param chunk      fun(...: any): string) | Language<"Lua">` (opening parenthesis lost): apply_alignment re-rendered tag columns from syntax nodes that do not contain the parenthesis tokens; a line is now only rewritten when the re-rendered columns reproduce its text'})
for p,v in findings.items():
    json.dump(v,open('/verif/findings/%s.json'%p,'w'),indent=1,ensure_ascii=False)
    nd=sum(1 for e in v if e['signature'].startswith('default:'))
    print(p,len(v),'default-config:',nd)
