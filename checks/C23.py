from lineindex_common import *

META = {
    "category": "proof",
    "text": 'Theorems that the line index equals an independently written LSP specification (UTF-16 columns; lines end at LF, CRLF, lone CR) for ALL texts: position of every boundary offset, offset of every position, line count. Model tied to the code by the C22 correspondence; direct search against an independent UTF-16 reference in the harness.',
    "note": 'Trusted: Coq kernel; the LSP spec transcription (C23/Spec.v) is read off the protocol text; hand model validated by sampled correspondence. Positions produced outside LineIndex (e.g. hand-computed columns in handlers) are not modelled. Axioms: none.',
    "technique": "Coq proof (induction over texts) about a hand-written Gallina transcription + exact model-vs-implementation correspondence + oracle search",
}

THEOREMS = [("pos_is_lsp_pos", "theorem"), ("off_is_lsp_off", "theorem"), ("lines_match_lsp", "theorem"),
            ("col_is_utf16", "theorem"), ("utf16_example", "example")]
SIGS = {"pos-not-lsp", "line-count", "off-not-lsp"}


def main(argv):
    ck = Check("C23", argv)
    bins = ck.build_harness("vh_analysis", ["c22"])
    if ck.replay and bins:
        replay(ck, bins["c22"], ck.replay, SIGS)
        ck.finish(trusted_base=TRUSTED)
    ok = ck.coq_make(["theories/C23/Props.vo", "theories/C22/Corr.vo"])
    if ok:
        ck.coq_gates(["Base", "C22", "C23"], THEOREMS, "EV.C23.Props")
    if bins:
        if ok or os.path.exists(os.path.join(COQ, "theories/C22/Corr.vo")):
            correspondence(ck, bins["c22"], ck.scale(400, 1600), ck.scale(20, 32))
        if ck.broken:
            ck.deep = True
        search(ck, bins["c22"], ck.scale(4000, 200000), ck.scale(24, 48), SIGS)
    ck.finish(
        trusted_base=TRUSTED,
        rule="texts over an alphabet of ASCII, LF, CR, 2/3/4-byte characters, U+2028/U+0085 (10 generator modes); per text every "
             "byte offset 0..len+2 and a (line, col) grid incl. lines past the end and cols 0..len+2,100,65535,2^32-1; "
             "non-trivial = text contains a line terminator or a non-ASCII character; distinct by text",
        assumptions=["texts shorter than 4 GiB", "correspondence and search are sampled (they validate the model and look for replays; the theorems carry the all-inputs claim)"])
