"""C03 — valid Lua is never reported as a syntax error (harness vh_analysis/c03, models EV.C03.*)"""
import json
from vcheck import *
import c02_translate
import c03_translate

META = {
    "category": "proof",
    "text": "The oracle is the Lua grammar itself, written in Coq from the reference manual (no reference Lua exists in the sandbox): "
            "derivation relations over token kinds for ALL expression and statement forms of Lua 5.1-5.4 (operators stratified by the "
            "manual's precedence table, nesting <= 200 as in the reference implementation) and the lexical grammar of numerals and short "
            "strings. PROVED for all derivations, for the priority tables / feature sets / lexical constants REGENERATED from today's "
            "source: the implementation's tables decide exactly as the manual's table (ops_table_matches_manual); every derivable "
            "expression and every derivable chunk is accepted by the Gallina transcription of the recursive-descent parser with no "
            "error and gets the grammar's tree, i.e. operators are associated as the manual dictates (expr_complete, "
            "expr_complete_rest, chunk_complete: a 63-rule mutual induction); every numeral and every short string with any escapes "
            "is one token with no lexer error and passes the checker's literal validation (number_complete, string_escape_complete); "
            "every long bracket of any level (string or comment: it ends at the FIRST closing bracket of its level, closers of other levels are content) "
            "is one token with no error (long_string_complete, long_comment_complete; a lexer that also swallows the ']' after a wrong-level "
            "closer rejects `[=[a]]=]`, long_greedy_refuted); "
            "the two defects found and repaired stay visible as refutations of the OLD predicates (string_escape_old_refuted, "
            "string_z_vtab_refuted). TIE: programs generated from the grammar (valid by construction), their single-token mutants and "
            "generated/mutated literals: token kinds, acceptance, the whole syntax tree, the nesting level and the literal "
            "observations of the implementation must equal the models'. SEARCH: the same generator through the real parser and the "
            "real diagnose_file (syntax-error diagnostics) at the four levels. NOT proved: soundness (accepted => derivable; the "
            "implementation is deliberately lenient), name-level rules of the reference compiler (break/goto/attribs/vararg).",
    "note": "Trusted: Coq kernel; the grammar of coq/theories/C03/Spec.v and LexSpec.v as a rendering of the reference manual; "
            "the hand transcriptions Model.v / LexModel.v (tied by correspondence); models of Rust std parse::<i64>/<f64>/from_str_radix "
            "(LexModel.v, T1-T7); the translator lib/c03_translate.py. luars was not used as an oracle. Axioms: none.",
    "technique": "Coq proof (mutual induction over derivations; table obligation on regenerated priority tables) + exact "
                 "model-vs-implementation correspondence (trees, acceptance of mutants, literals) + grammar-based generation "
                 "against the real parser and diagnose_file",
}

PRELUDE = "From Coq Require Import List Bool NArith.\nImport ListNotations.\n"

THEOREMS = [("ops_table_matches_manual", "table"), ("expr_complete", "theorem"), ("expr_complete_rest", "theorem"),
            ("chunk_complete", "theorem"), ("lexical_constants", "table"), ("number_complete", "theorem"),
            ("string_escape_complete", "theorem"), ("long_string_complete", "theorem"), ("long_comment_complete", "theorem"),
            ("long_greedy_refuted", "refutation"), ("string_escape_old_refuted", "refutation"),
            ("string_z_vtab_refuted", "refutation"), ("precedence_example", "example"), ("derivation_example", "example")]

TRUSTED = [
    "Coq 8.16.1 kernel (coqc); vm_compute in Examples, refutation witnesses, the table obligations (finite) and the correspondence evaluation",
    "axioms: none (Print Assumptions: Closed under the global context for every theorem)",
    "the grammar coq/theories/C03/Spec.v + LexSpec.v as a faithful rendering of the Lua 5.1-5.4 reference manuals (token-kind level; "
    "name-level rules of the reference compiler are outside it)",
    "hand models coq/theories/C03/Model.v (parser acceptance + trees) and LexModel.v (lex_number, lex_string, checker literal validation), "
    "tied by the correspondence check; Rust std number parsing modelled by its documented grammar (LexModel.v T1-T7)",
    "translator lib/c03_translate.py (operator tables, feature sets, \\z skip set, \\u bound) and lib/c02_translate.py (MAX_NESTING_LEVEL)",
    "the generator of harness/vh_analysis/src/bin/c03.rs produces valid Lua by construction (checked against the Coq model on every run: "
    "a generated program the model rejects is reported)",
]

LV = {"5.1": "Lua51", "5.2": "Lua52", "5.3": "Lua53", "5.4": "Lua54"}


def regenerate(ck):
    ok = True
    try:
        g = c03_translate.regenerate(REPO, os.path.join(COQ, "theories/Gen/C03_Ops.v"))
        ck.cov["table_obligations"].append({"name": "ops_table_matches_manual", "unary_priority": g["unary"],
                                            "left": g["left"], "right": g["right"], "zsp": g["zsp"], "umax": g["umax"]})
    except c03_translate.AnchorError as e:
        ck.tie_broken("C03 translator anchor missing: %s" % e, "lib/c03_translate.py could not regenerate Gen/C03_Ops.v")
        ok = False
    try:
        c02_translate.regenerate(REPO, os.path.join(COQ, "theories/Gen/C02_Graph.v"))
    except c02_translate.AnchorError as e:
        ck.tie_broken("C02 translator anchor missing (MAX_NESTING_LEVEL is read from it): %s" % e, "")
        ok = False
    return ok


def correspondence(ck, binpath, n):
    rc, out, err = ck.run_bin(binpath, ["corr", "--seed", ck.seed, "--n", n, "--corpus", os.path.join(VERIF, "corpus/C03")], timeout=1800)
    if rc != 0:
        ck.tie_broken("harness c03 corr failed", err[-2000:])
        return
    recs = [json.loads(l) for l in jlines(out) if l.strip()]
    progs = [r for r in recs if r["k"] == "prog"]
    muts = [r for r in recs if r["k"] == "mut"]
    lexs = [r for r in recs if r["k"] == "lex"]
    longs = [r for r in recs if r["k"] == "long"]

    def case_term(r, with_tree):
        tree = "None"
        if with_tree and r.get("tree"):
            tree = "(Some (%s))" % r["tree"].replace("N K", "EV.C03.Syntax.N K").replace("L T", "EV.C03.Syntax.L T")
        return "{| c_level := %s; c_toks := %s; c_errs := %s; c_tree := %s; c_depth := (%d)%%nat |}" % (
            LV[r["level"]], coq_list(r["toks"]), "true" if r["errs"] else "false", tree, r["depth"])
    req = ["EV.C03.Syntax", "EV.C03.Corr"]
    f1 = ck.coq_failing("prog", [case_term(r, True) for r in progs], req, check_fn="EV.C03.Corr.check_case",
                        case_type="EV.C03.Corr.case", per_shard=40, timeout=1800, prelude=PRELUDE)
    f2 = ck.coq_failing("mut", [case_term(r, False) for r in muts], req, check_fn="EV.C03.Corr.check_accept",
                        case_type="EV.C03.Corr.case", per_shard=60, timeout=1800, prelude=PRELUDE)
    lex_terms = ["{| lc_text := %s; lc_is_string := %s; lc_obs_kind := %d; lc_obs_len := %d; lc_obs_lex_err := %s; lc_obs_chk_err := %s |}" % (
        coq_list([str(x) for x in r["text"]]), "true" if r["is_string"] else "false", r["kind"], r["len"],
        "true" if r["lex_err"] else "false", "true" if r["chk_err"] else "false") for r in lexs]
    f3 = ck.coq_failing("lex", lex_terms, ["EV.C03.LexCorr", "EV.C03.Corr"], check_fn="EV.C03.Corr.check_lex_case_gen",
                        case_type="EV.C03.LexCorr.lex_case", per_shard=80, timeout=1800, prelude=PRELUDE)
    long_terms = ["{| lg_text := %s; lg_obs_kind := %d; lg_obs_len := %d; lg_obs_err := %s |}" % (
        coq_list([str(x) for x in r["text"]]), r["kind"], r["len"], "true" if r["err"] else "false") for r in longs]
    f4 = ck.coq_failing("long", long_terms, ["EV.C03.LongCorr"], check_fn="EV.C03.LongCorr.check_long_case",
                        case_type="EV.C03.LongCorr.long_case", per_shard=80, timeout=1800, prelude=PRELUDE)
    for i in (f4 or [])[:4]:
        r = longs[i]
        ck.tie_broken("model/implementation disagreement on the long bracket %r: observed kind %s len %s err %s" % (
            "".join(chr(x) for x in r["text"]), r["kind"], r["len"], r["err"]), json.dumps(r)[:2000])
    for r in longs:
        ck.count_case(("long", tuple(r["text"])), nontrivial=len(r["text"]) >= 4)
    for f, rs, what in ((f1, progs, "generated program (acceptance, tree, nesting level)"), (f2, muts, "single-token mutant (acceptance)")):
        for i in (f or [])[:4]:
            r = rs[i]
            ck.tie_broken("model/implementation disagreement on a %s at level %s: implementation errs=%s, text %r" % (
                what, r["level"], r["errs"], r["text"][:160]), json.dumps(r)[:4000])
    for i in (f3 or [])[:4]:
        r = lexs[i]
        ck.tie_broken("model/implementation disagreement on the literal %r: observed kind %s len %s lex_err %s chk_err %s" % (
            "".join(chr(x) for x in r["text"]), r["kind"], r["len"], r["lex_err"], r["chk_err"]), json.dumps(r)[:2000])
    for r in progs:
        ck.count_case(("prog", r["level"], tuple(r["toks"])), nontrivial=len(r["toks"]) >= 4)
    for r in muts:
        ck.count_case(("mut", r["level"], tuple(r["toks"])), nontrivial=len(r["toks"]) >= 3)
    for r in lexs:
        ck.count_case(("lex", tuple(r["text"])), nontrivial=len(r["text"]) >= 2)
    d = ck.cov["distribution"]
    d["corr_programs"] = len(progs)
    d["corr_programs_rejected_by_impl"] = sum(1 for r in progs if r["errs"])
    d["corr_mutants"] = len(muts)
    d["corr_mutants_rejected_by_impl"] = sum(1 for r in muts if r["errs"])
    d["corr_literals"] = len(lexs)
    d["corr_literals_with_error"] = sum(1 for r in lexs if r["lex_err"] or r["chk_err"])
    d["corr_long_brackets"] = len(longs)
    d["corr_long_brackets_with_error"] = sum(1 for r in longs if r["err"])
    d["corr_tokens"] = sum(len(r["toks"]) for r in progs)
    if progs:
        r = progs[min(len(progs) - 1, 7)]
        ck.sample({"kind": "generated program", "level": r["level"], "text": r["text"][:300], "tokens": len(r["toks"]), "nesting_level": r["depth"]})
    if muts:
        r = muts[min(len(muts) - 1, 5)]
        ck.sample({"kind": "mutant", "level": r["level"], "text": r["text"][:200], "rejected": r["errs"]})
    if lexs:
        r = lexs[min(len(lexs) - 1, 9)]
        ck.sample({"kind": "literal", "text": "".join(chr(x) for x in r["text"]), "lex_err": r["lex_err"], "chk_err": r["chk_err"]})


def search(ck, binpath, n):
    rc, out, err = ck.run_bin(binpath, ["search", "--seed", ck.seed, "--n", n], timeout=3600)
    if rc != 0:
        ck.tie_broken("harness c03 search failed", err[-2000:])
        return
    for l in jlines(out):
        if not l.strip():
            continue
        v = json.loads(l)
        if "summary" in v:
            ck.cov["distribution"]["search"] = v["summary"]
            ck.add_measured(v["summary"]["programs"], v["summary"]["distinct_nontrivial"])
            continue
        if v["signature"].startswith("analysis-panics"):
            # a crash of the analyzer on valid input belongs to C12 (indexing never crashes), not to this property
            ck.notes.append("analyzer panic on a valid program (property C12, not C03): %s" % v["what"][:200])
            ck.cov["distribution"].setdefault("analysis_panics_seen", 0)
            ck.cov["distribution"]["analysis_panics_seen"] += 1
            continue
        ck.violation(v["signature"], v["what"], v["case"])


def replay(ck, binpath, path):
    data = json.load(open(path))
    for v in data.get("violations", []):
        c = v["case"]
        rc, out, err = ck.run_bin(binpath, ["one", "--level", c.get("level", "5.4"), "--text-json", json.dumps(c.get("text", ""))], timeout=600)
        try:
            r = json.loads(jlines(out)[-1])
        except Exception:
            continue
        bad = r["parser_errs"] + r["lex_feature_errs"] + r["lex_other_errs"] > 0 or any("panic" not in d for d in r["syntax_diags"])
        if bad:
            ck.violation(v["signature"], v["what"], c)


def main(argv):
    ck = Check("C03", argv)
    bins = ck.build_harness("vh_analysis", ["c03"])
    if ck.replay and bins:
        replay(ck, bins["c03"], ck.replay)
        ck.finish(trusted_base=TRUSTED)
    regenerate(ck)
    ok = ck.coq_make(["theories/C03/Props.vo", "theories/C03/Corr.vo"])
    if ok:
        ck.coq_gates(["C03"], THEOREMS, "EV.C03.Props")
    if bins:
        if ok or os.path.exists(os.path.join(COQ, "theories/C03/Corr.vo")):
            correspondence(ck, bins["c03"], ck.scale(240, 4000))
        if ck.broken:
            ck.deep = True
        search(ck, bins["c03"], ck.scale(3000, 100000))
    ck.finish(
        trusted_base=TRUSTED,
        rule="programs are generated from the grammar of Spec.v (every statement and expression form, operators unparenthesised so that "
             "precedence matters, all numeral forms incl. hex floats and integers beyond 2^63, every escape incl. \\z \\x \\u{..} \\ddd and "
             "line continuations, long brackets of levels 0-3 whose content contains and ENDS with `]`, `]]`, `]=`, `]==`, `]=]`, `[=[` right before the closer, comments of all forms incl. such long comments, shebang, attribs at 5.4, goto/labels at 5.2+, `...` at "
             "chunk level) at levels 5.1/5.2/5.3/5.4; search oracle: zero parser errors AND zero syntax-error diagnostics of diagnose_file; "
             "tie: per program token kinds + acceptance + whole tree + nesting level, per single-token mutant acceptance, per literal "
             "(valid or mutated numeral, short string, long bracket/comment) kind/length/lexer error/checker error. non-trivial = at least 4 tokens; distinct by token-kind sequence and level",
        assumptions=["nesting of generated programs stays far below 200 levels", "the generator respects the name-level rules of the reference compiler "
                     "(break in loops, labels visible and unique, one <close> per statement, `...` only in vararg functions)",
                     "correspondence and search are sampled; the theorems carry the all-derivations claims"])
