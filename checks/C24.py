import json
from vcheck import *
import ls_dispatch_common as D

META = {
    "category": "proof",
    "text": 'The request dispatcher of emmylua_ls is modelled in Coq as a labelled transition system (initialize handshake, '
            'initialization queue and replay, the dispatch_request! table, extract success/failure, ServerContext::task with its '
            'cancel / None / panic / result outcomes, $/cancelRequest, unknown methods, shutdown). Theorems over ALL client sessions '
            'and ALL interleavings of the main loop with the spawned handler tasks and all handler outcomes: at quiescence every '
            'request id has exactly as many responses as requests (one each), never more at any point, the server never crashes, '
            'stops only when asked, and every schedule can be completed. The dispatch table and the three "is this path answered" '
            'facts are regenerated from the source on every run and the theorems re-checked against them; message sequences '
            '(every registered method x valid / malformed / absent params, cancels, panics injected through the task wrapper, '
            'duplicate ids, the handshake over stdio) are run against the real server and compared with the model; the same space '
            'is searched with the oracle "one response per request id and the server still answers afterwards".',
    "note": 'Trusted: Coq kernel; the hand model of the main loop / task wrapper (validated by trace validation, not proved equal to the '
            'Rust); the syntactic translators; handler bodies are abstracted to their outcome (result / None / panic). Session hypothesis: '
            'the LSP life-cycle (no request after shutdown or after a handshake lsp-server aborts). Axioms: none.',
    "technique": "Coq proof (invariants over all schedules of an LTS) + regenerated dispatch tables + trace validation against the real "
                 "in-process server and the stdio binary + oracle search",
}

THEOREMS = [("today_is_fixed", "table"), ("today_init_queue", "table"),
            ("one_response_per_request", "theorem"), ("never_more_than_one_response", "theorem"),
            ("server_keeps_serving", "theorem"), ("cancelled_only_if_asked", "theorem"), ("responses_justified", "theorem"),
            ("bad_params_refuted", "refutation"), ("panic_refuted", "refutation"), ("init_caps_refuted", "refutation"),
            ("session_example", "example")]

TRUSTED = [
    "Coq 8.16.1 kernel (coqc); vm_compute only in Examples, refutation witnesses, table obligations and the trace-validation evaluation",
    "axioms: none (Print Assumptions: Closed under the global context for every theorem)",
    "hand-written model coq/theories/C24/Model.v of server/{mod,lsp_server,message_processor,connection}.rs, handlers/request_handler.rs, "
    "handlers/notification_handler.rs (cancel), context/mod.rs (task, cancel) and lsp-server 0.7.9 initialize_start/finish; tied by trace "
    "validation (harness vh_ls/src/bin/c24.rs + coq/theories/C24/Corr.v)",
    "translators checks/ls_dispatch_common.py (regex readers of the dispatch_request! table and macro arm, ServerContext::task, run_ls, "
    "can_process_during_init); their output Gen/C24_Dispatch.v is what the theorems are checked against",
    "modelling assumptions: a handler is abstracted to its outcome (result / None / panic) and always ends; sending on the channel never fails; "
    "after the main loop returns, spawned tasks still run to their end (io threads are joined before the process exits)",
    "hook (cfg-gated, absent from normal builds): verif_serve (in-process server on a memory connection), verif/task (synthetic handler through "
    "the real ServerContext::task)",
]

CODES = {"ok": "COk", "err:-32601": "CMethodNotFound", "err:-32602": "CInvalidParams", "err:-32603": "CInternal",
         "err:-32800": "CCancelled", "err:-32002": "CNotInitialized"}
MODES = {"ok": "HOk", "none": "HNone", "panic": "HPanic"}


STRS = []


def coq_str(s):
    """strings go through a table defined once in the prelude (string literals are slow to elaborate inside big terms)"""
    if s not in STRS:
        STRS.append(s)
    return "(s__ %d%%nat)" % STRS.index(s)


def prelude():
    lits = ['"%s"' % x.replace('"', '""') for x in STRS]
    return PRELUDE + "Definition S__ : list string := [%s].\nDefinition s__ (k : nat) : string := nth k S__ \"\".\n" % "; ".join(lits)


def coq_id(v):
    if isinstance(v, int):
        return v if v >= 0 else 50_000_000 - v
    s = str(v)
    m = re.fullmatch(r"s(\d+)", s)
    if m:
        return 10_000_000 + int(m.group(1))
    m = re.fullmatch(r"never(\d+)", s)
    if m:
        return 20_000_000 + int(m.group(1))
    return 30_000_000 + int(hashlib.sha1(s.encode()).hexdigest()[:6], 16)


def msg_to_coq(m, forced):
    k = m["k"]
    if k == "req":
        return "MReq %d %s %s" % (coq_id(m["id"]), coq_str(m["m"]), "true" if m["pv"] == "valid" else "false")
    if k == "unknown":
        return "MReq %d %s true" % (coq_id(m["id"]), coq_str(m["m"]))
    if k == "task":
        forced.append("(%d, %s)" % (coq_id(m["id"]), MODES[m["mode"]]))
        return "MReq %d %s true" % (coq_id(m["id"]), coq_str("verif/task"))
    if k == "cancel":
        return "MNotif %s (Some %d)" % (coq_str("$/cancelRequest"), coq_id(m["id"]))
    if k == "cancelbad":
        return "MNotif %s None" % coq_str("$/cancelRequest")
    if k == "notif":
        return "MNotif %s None" % coq_str(m["m"])
    if k == "resp":
        return "MResp %d" % coq_id(m["id"])
    raise ValueError(k)


def obs_to_coq(ck, obs):
    items = []
    for ids, classes in obs.items():
        i = coq_id(json.loads(ids))
        cs = []
        for c in classes:
            if c not in CODES:
                ck.tie_broken("response with an error code the model does not know: %s" % c, json.dumps(obs))
                cs.append("CInternal")
            else:
                cs.append(CODES[c])
        items.append("(%d, %s)" % (i, coq_list(cs)))
    return coq_list(items)


def case_to_coq(ck, c):
    forced = []
    msgs = [msg_to_coq(m, forced) for m in c["msgs"]]
    return "{| k_msgs := %s; k_forced := %s; k_obs := %s |}" % (coq_list(msgs), coq_list(forced), obs_to_coq(ck, c["obs"]))


PRELUDE = "Import ListNotations.\nLocal Open Scope string_scope.\nLocal Open Scope N_scope.\nLocal Open Scope list_scope.\n"
REQS = ["Coq.Lists.List", "Coq.Strings.String", "Coq.NArith.NArith", "EV.C24.Model", "EV.C24.Corr"]


def case_nontrivial(msgs):
    reqs = [m for m in msgs if m["k"] in ("req", "unknown", "task")]
    special = any((m["k"] == "req" and m["pv"] != "valid") or m["k"] in ("unknown", "cancel") or
                  (m["k"] == "task" and m["mode"] != "ok") for m in msgs)
    return len(reqs) >= 1 and (special or len(reqs) >= 2)


def case_key(msgs):
    ids = {}
    out = []
    for m in msgs:
        i = None
        if "id" in m:
            i = ids.setdefault(json.dumps(m["id"]), len(ids))
        out.append((m["k"], i, m.get("m"), m.get("pv"), m.get("mode"), m.get("ms")))
    return tuple(out)


def correspondence(ck, binpath, n, methods_file, corpus):
    args = ["corr", "--seed", ck.seed, "--n", n, "--dir", ck.work, "--methods", methods_file]
    if corpus:
        args += ["--corpus", corpus]
    rc, out, err = ck.run_bin(binpath, args, timeout=1500)
    if rc != 0:
        ck.tie_broken("harness c24 corr failed (rc=%s)" % rc, err[-3000:])
        return
    cases = []
    for l in jlines(out):
        if not l.strip():
            continue
        v = json.loads(l)
        if "summary" in v:
            ck.cov["distribution"]["corr"] = v["summary"]
            if v["summary"].get("methods_without_template"):
                ck.notes.append("methods without a valid-params template in the harness (generic params used): %s"
                                % v["summary"]["methods_without_template"])
            continue
        if "msgs" in v:
            cases.append(v)
    terms = [case_to_coq(ck, c) for c in cases]
    ck.log("trace validation: %d cases from the server, evaluating the model" % len(cases))
    failing = ck.coq_failing("corr", terms, REQS, prelude=prelude(), per_shard=8)
    ck.log("trace validation done")
    for c in cases:
        ck.count_case(("corr", case_key(c["msgs"])), nontrivial=case_nontrivial(c["msgs"]))
    if failing:
        for i in failing[:10]:
            c = cases[i]
            ck.tie_broken("model/implementation disagreement on the responses of a message sequence", json.dumps(c)[:3000])
    internal = sum(1 for c in cases for m in c["msgs"] if m["k"] == "req" and m["pv"] == "valid"
                   and "err:-32603" in c["obs"].get(json.dumps(m["id"]), [])
                   and not any(x["k"] == "task" and x["id"] == m["id"] for x in c["msgs"]))
    if internal:
        ck.notes.append("%d request(s) with valid params were answered InternalError (a handler panicked; still exactly one response)" % internal)
    if cases:
        c = cases[min(len(cases) - 1, 130)]
        ck.sample({"kind": "trace validated against the real in-process server", "msgs": c["msgs"], "responses_per_id": c["obs"]})


def session_to_coq(v):
    """the stdio handshake session of harness `c24 stdio` as model messages + observations"""
    msgs = []
    for i in v["pre_ids"]:
        if v["variant"].startswith("bad-initialize"):
            msgs.append('MReq %d %s false' % (i, coq_str("initialize")))
        else:
            msgs.append('MReq %d %s true' % (i, coq_str("textDocument/hover")))
    h = coq_str("textDocument/hover")
    msgs += ['MReq 1 %s true' % coq_str("initialize"), 'MNotif %s None' % coq_str("initialized"), 'MReq 2 %s true' % h,
             'MReq 3 %s false' % h, 'MReq 4 %s false' % h, 'MReq 5 %s true' % coq_str("no/such"),
             'MReq 6 %s false' % coq_str("shutdown"), 'MNotif %s None' % coq_str("exit")]
    obs = []
    for ids, classes in v["obs"].items():
        obs.append("(%d, %s)" % (int(ids), coq_list([CODES.get(c, "CInternal") for c in classes])))
    return "(%s, %s)" % (coq_list(msgs), coq_list(obs))


def stdio(ck, binpath, ls_bin):
    """handshake sessions against the shipped stdio binary: trace validation + the property oracle"""
    rc, out, err = ck.run_bin(binpath, ["stdio", "--bin", ls_bin, "--dir", ck.work], timeout=600)
    if rc != 0:
        ck.tie_broken("harness c24 stdio failed (rc=%s)" % rc, err[-3000:])
        return
    sessions = [json.loads(l) for l in jlines(out) if l.strip()]
    ck.log("stdio: %d handshake sessions" % len(sessions))
    ck.cov["distribution"]["stdio_sessions"] = [s["variant"] for s in sessions]
    # oracle: every request id exactly one response, clean exit after shutdown/exit
    for s in sessions:
        want = [str(i) for i in s["pre_ids"]] + ["1", "2", "3", "4", "5", "6"]
        bad = None
        for i in want:
            got = len(s["obs"].get(i, []))
            if got != 1:
                bad = (i, got)
                break
        if bad:
            i, got = bad
            if i == "60":
                kind = "initialize-params-not-deserialisable"
            elif i == "50":
                kind = "request-before-initialize"
            elif s["variant"].startswith("bad-initialize") and i == "1":
                kind = "initialize-after-malformed-initialize"
            else:
                kind = "after-handshake"
            ck.violation("stdio:%s-response:%s" % ("missing" if got == 0 else "extra", kind),
                         "stdio session %s: request id %s got %d response(s)" % (s["variant"], i, got), s)
        elif not s["exited"] or s["status"] != 0:
            ck.violation("stdio:no-clean-exit", "stdio session %s: the server did not exit cleanly after shutdown/exit (%s)" % (s["variant"], s["status"]), s)
        ck.count_case(("stdio", s["variant"]), nontrivial=True)
    terms = [session_to_coq(s) for s in sessions]
    failing = ck.coq_failing("stdio", terms, REQS, check_fn="check_session", case_type="list msg * list (rid * list rclass)",
                             prelude=prelude(), per_shard=100)
    if failing:
        for i in failing:
            ck.tie_broken("model/implementation disagreement on a handshake session over stdio (%s)" % sessions[i]["variant"],
                          json.dumps(sessions[i])[:2000])
    if sessions:
        ck.sample({"kind": "stdio handshake session", "variant": sessions[-1]["variant"], "responses_per_id": sessions[-1]["obs"],
                   "exit_status": sessions[-1]["status"]})


def search(ck, binpath, n, methods_file, corpus):
    args = ["search", "--seed", ck.seed, "--n", n, "--dir", ck.work, "--methods", methods_file]
    if corpus:
        args += ["--corpus", corpus]
    rc, out, err = ck.run_bin(binpath, args, timeout=3000)
    ck.log("search done")
    if rc != 0:
        ck.tie_broken("harness c24 search failed (rc=%s)" % rc, err[-3000:])   # partial output is still used below
    for l in jlines(out):
        if not l.strip():
            continue
        try:
            v = json.loads(l)
        except ValueError:
            continue
        if "summary" in v:
            ck.cov["distribution"]["search"] = v["summary"]
            ck.add_measured(v["summary"]["cases"], v["summary"]["distinct_nontrivial"])
            continue
        if "signature" in v:
            ck.violation(v["signature"], v["what"], v["case"])


def replay(ck, binpath, path):
    data = json.load(open(path))
    for v in data.get("violations", []):
        case = v.get("case", {})
        if "msgs" not in case:
            continue
        rc, out, err = ck.run_bin(binpath, ["one", "--case-json", json.dumps({"msgs": case["msgs"]}), "--dir", ck.work], timeout=600)
        for l in jlines(out):
            if l.strip():
                vv = json.loads(l)
                if "signature" in vv:
                    ck.violation(vv["signature"], vv["what"], vv["case"])


def main(argv):
    ck = Check("C24", argv)
    # 1. regenerate the tables from today's source
    table = None
    try:
        table = D.gen_c24()
        ck.cov["table_obligations"] = [
            "request table: %d methods" % len(table["methods"]),
            "extract_error_branch = %s" % table["extract_error_branch"],
            "task_catches_panic = %s" % table["task_catches_panic"],
            "init_params_unwrap = %s" % table["init_params_unwrap"],
            "init queue: notifications %s, requests %s, responses %s" % (table["init_allowed_notifications"], table["init_allows_requests"], table["init_allows_responses"]),
        ]
    except D.Anchor as ex:
        ck.tie_broken("translator anchor missing: %s" % ex, "checks/ls_dispatch_common.py could not regenerate Gen/C24_Dispatch.v")
    methods_file = os.path.join(ck.work, "methods.txt")
    if table:
        with open(methods_file, "w") as fh:
            fh.write("\n".join(table["methods"]) + "\n")
    corpus = os.path.join(VERIF, "corpus", "C24", "witnesses.json")
    corpus = corpus if os.path.exists(corpus) else None
    # 2. harness and the shipped binary
    bins = ck.build_harness("vh_ls", ["c24"])
    ls_bin = ck.build_repo_bin("emmylua_ls", "emmylua_ls")
    if ck.replay and bins:
        replay(ck, bins["c24"], ck.replay)
        ck.finish(trusted_base=TRUSTED)
    # 3. proofs
    ok = ck.coq_make(["theories/C24/Props.vo", "theories/C24/Corr.vo"])
    if ok:
        D.gate_files(ck, ["Base/LTS.v", "Gen/C24_Dispatch.v"])
        ck.coq_gates(["C24"], THEOREMS, "EV.C24.Props")
        ck.log("gates done")
    # 4. trace validation
    corr_ok = ok or os.path.exists(os.path.join(COQ, "theories/C24/Corr.vo"))
    if bins and table:
        if corr_ok:
            correspondence(ck, bins["c24"], ck.scale(90, 1500), methods_file, corpus)
            if ls_bin:
                stdio(ck, bins["c24"], ls_bin)
        if ck.broken:
            ck.deep = True
        # 5. search
        search(ck, bins["c24"], ck.scale(260, 4000), methods_file, corpus)
        if ls_bin and not corr_ok:
            stdio(ck, bins["c24"], ls_bin)
    ck.finish(
        trusted_base=TRUSTED,
        rule="in-process cases: sequences of 1-12 client messages sent without waiting to one real server (requests to each of the "
             "registered methods with valid / malformed / absent params — every method x {valid, bad, absent} systematically in the search —, "
             "unknown methods, verif/task requests that end ok / None / panic after 0-120 ms through the real task wrapper, $/cancelRequest "
             "for earlier / later / unknown ids, malformed cancels, document notifications with valid / malformed params, stray responses, "
             "numeric and string ids, duplicate ids), followed by a documentSymbol probe; stdio cases: 7 handshake sessions against the "
             "shipped binary (request before initialize, 5 malformed initializes, retry, requests queued during initialization, shutdown/exit). "
             "Non-trivial = at least one request whose answer does not come from the plain ok path (malformed/absent params, unknown method, "
             "cancel, forced None/panic) or at least two requests; distinct by the structure of the sequence (kinds, methods, validity, "
             "outcome modes, id equalities)",
        assumptions=["sessions respect the LSP life-cycle (the theorem's lifecycle_ok): no request after shutdown, `initialized` follows the initialize response",
                     "trace validation and search are sampled (they validate the model and look for replays; the theorems carry the all-sessions / all-schedules claim)",
                     "a missing response is one that has not arrived by the end of the run (every response is credited to the request it answers, however late; final grace period 10 s)"])
