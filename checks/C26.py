import json
from vcheck import *

META = {
    "category": "proof",
    "text": "PROVED (Coq, all inputs): the semantic-token encoder SemanticBuilder::build (sort, overlap flattening, delta encoding) — for ANY pushed tokens the stream a client decodes is exactly the sorted+flattened list (decode_build), strictly ordered, never overlapping, without empty tokens (build_ordered_no_overlap), and identical to the sorted input when that was already disjoint (build_disjoint_input); de-duplication by start alone (the code before the fix) does not prevent overlap (overlap_possible_refuted, replayed on the real server and fixed); the selection-range chain builder push_growing_range yields strictly growing ranges for any candidate sequence (selection_chain_strict). The encoder model (including the per-line split of multi-line tokens for clients without multilineTokenSupport, with UTF-16 line lengths) is tied to the real push_data/build by an exact correspondence through a cfg hook (random and fixed cases with non-ASCII/astral text on non-last lines, LF/CRLF/CR); the selection-chain model is tied by comparing, for every sampled position, the real server's chain with growing_chain of the candidate ranges (token and ancestors, computed on the real Vfs tree) converted by the C22 model. VERIFIED CHECKER, NOT A PROOF ABOUT THE HANDLERS: for document symbols, folding ranges, selection ranges, completion main edits, workspace edits and decoded semantic tokens versus document and legend, the validity predicates are Gallina booleans whose meaning is proved (symbols_nested_spec, folds_valid_spec, selection_strictly_growing_spec, completion_edit_spec, edits_disjoint_spec, tokens_valid_spec, and ranges_checked_spec for the generic walk: EVERY range or position of EVERY result kind for the document lies inside it with start <= end, minus the one named known class) and are evaluated by coqc on the results the real in-process server returns; that the handlers always produce valid results is explored by search (generated and bundled std documents x all structure-returning requests x positions), not proved.",
    "note": "Trusted: Coq kernel; hand model of semantic_token_builder.rs and push_growing_range (encoder tied by exact correspondence on generated push sequences; slice::sort_unstable_by_key assumed to sort); u32 arithmetic modelled unbounded; the python conversion of JSON results to Coq terms; the harness's JSON walk that collects the ranges of every result; ranges that point into OTHER files (std library, workspace library) are checked by the Rust oracle only. Open finding: the whole-document range ends at (line_count, 0) (document_lsp_range_refuted proves it is never inside the document). Axioms: none.",
    "technique": "Coq proof (induction with an ordered/disjoint-from-(line,col) invariant over the sweep) about a hand-written Gallina transcription + exact model-vs-implementation correspondence through a cfg hook + Gallina validity checkers with proved specifications run on real server results + oracle search on the real in-process server",
}

THEOREMS = [("decode_build", "theorem"), ("build_ordered_no_overlap", "theorem"), ("build_disjoint_input", "theorem"),
            ("overlap_possible_refuted", "refutation"), ("selection_chain_strict", "theorem"),
            ("document_lsp_range_refuted", "refutation"), ("ranges_checked_spec", "theorem"),
            ("symbols_nested_spec", "theorem"), ("folds_valid_spec", "theorem"), ("selection_strictly_growing_spec", "theorem"),
            ("completion_edit_spec", "theorem"), ("edits_disjoint_spec", "theorem"), ("tokens_valid_spec", "theorem"),
            ("build_example", "example")]

TRUSTED = [
    "Coq 8.16.1 kernel (coqc); vm_compute in the Example, in the correspondence evaluation and when the verified checker runs on observed results",
    "axioms: none (Print Assumptions: Closed under the global context for every theorem)",
    "hand-written model coq/theories/C26/Model.v of crates/emmylua_ls/src/handlers/semantic_token/semantic_token_builder.rs (push_data, line_length, "
    "build, flatten_overlaps, close_open_tokens) and of push_growing_range in document_selection_range/mod.rs; the encoder is tied by the "
    "correspondence check through the hook emmylua_ls::verif_semantic_push_and_build (harness vh_ls/src/bin/c26.rs build + C26/Corr.v check_bcase)",
    "modelling assumptions: u32 arithmetic is unbounded N (texts < 4 GiB, no saturation); slice::sort_unstable_by_key on the complete key "
    "(line, col, Reverse(length), typ, modifiers) returns the unique sorted permutation; the LSP 3.17 delta decoding as transcribed in [decode]",
    "python conversion of JSON results to Coq terms (checks/C26.py) and the harness's flattening of results (selection chains, main edits of completion items, per-file edit lists)",
    "search oracle inside harness/vh_ls/src/bin/c26.rs (independent Rust re-implementation of the same predicates, plus the generic walk "
    "'every returned range lies inside its document' for ranges pointing into other files; for the document itself the walk is re-checked in Coq)",
]

PART = {1: "semantic tokens", 2: "document symbols", 3: "folding ranges", 4: "selection ranges", 5: "completion edits", 6: "workspace edits",
        7: "selection chain (model of push_growing_range disagrees)", 8: "ranges of some result (outside the document or start after end)"}


def P(p):
    return "(%d,%d)" % (p[0], p[1])


def R(r):
    return "((%d,%d),(%d,%d))" % (r[0], r[1], r[2], r[3])


def rng_of(v):
    return (v["start"]["line"], v["start"]["character"], v["end"]["line"], v["end"]["character"])


def sym_to_coq(s):
    if "range" not in s or "selectionRange" not in s:
        return None
    ch = [x for x in (sym_to_coq(c) for c in (s.get("children") or [])) if x]
    return "(Sym %s %s %s)" % (R(rng_of(s["range"])), R(rng_of(s["selectionRange"])), coq_list(ch))


def fold_to_coq(f):
    o = lambda k: "(Some %d)" % f[k] if f.get(k) is not None else "None"
    return "(%d, %s, %d, %s)" % (f["startLine"], o("startCharacter"), f["endLine"], o("endCharacter"))


def obs_to_coq(o):
    syms = [x for x in (sym_to_coq(s) for s in (o.get("symbols") or [])) if x]
    folds = [fold_to_coq(f) for f in (o.get("folds") or [])]
    sels = [coq_list([R(r) for r in s[2]]) for s in o.get("selections", [])]
    comps = ["(%s, %s)" % (P((c[0], c[1])), coq_list([R(r) for r in c[2]])) for c in o.get("completions", [])]
    edits = [coq_list([R(r) for r in es]) for es in o.get("edit_sets", [])]
    selm = ["(%s, %s)" % (coq_list(["(%d,%d)" % (c[0], c[1]) for c in s[3]]), coq_list([R(r) for r in s[2]]))
            for s in o.get("selections", []) if len(s) > 3 and s[3] is not None]
    ranges = [R(r) for r in o.get("ranges", [])]
    return ("{| c_text := %s; c_legend := (%d,%d); c_tokens_sl := %s; c_tokens_ml := %s; c_symbols := %s; c_folds := %s; "
            "c_selections := %s; c_completions := %s; c_edit_sets := %s; c_sel_model := %s; c_ranges := %s |}") % (
        coq_list([str(x) for x in o["t"]]), o["legend"][0], o["legend"][1],
        coq_list([str(x) for x in o.get("tokens_sl", [])]), coq_list([str(x) for x in o.get("tokens_ml", [])]),
        coq_list(syms), coq_list(folds), coq_list(sels), coq_list(comps), coq_list(edits), coq_list(selm), coq_list(ranges))


def bcase_to_coq(c):
    out = c["out"]
    o = "Panic" if out == "P" else "(Val %s)" % coq_list(["(%d,%d,%d,%d,%d)" % tuple(t) for t in out])
    return "{| bc_text := %s; bc_ml := %s; bc_pushes := %s; bc_out := %s |}" % (
        coq_list([str(x) for x in c["t"]]), "true" if c["ml"] else "false",
        coq_list(["(%d,%d,%d,%d)" % tuple(p) for p in c["pushes"]]), o)


def encoder_correspondence(ck, binpath, n):
    rc, out, err = ck.run_bin(binpath, ["build", "--seed", ck.seed, "--n", n], timeout=900)
    if rc != 0:
        ck.tie_broken("harness c26 build failed (rc=%s)" % rc, err[-2000:])
        return
    cases = [json.loads(l) for l in jlines(out) if l.strip().startswith("{")]
    terms = [bcase_to_coq(c) for c in cases]
    failing = ck.coq_failing("bcorr", terms, ["EV.C26.Model", "EV.C26.Corr"], check_fn="check_bcase", case_type="bcase", per_shard=30)
    for i in failing or []:
        c = cases[i]
        ck.tie_broken("model/implementation disagreement on SemanticBuilder push_data/build for text %r" % "".join(chr(x) for x in c["t"]),
                      json.dumps(c)[:3000])
    nest = 0
    for c in cases:
        multi = len(c["pushes"]) > 1
        ck.count_case(("bcorr", tuple(c["t"]), tuple(map(tuple, c["pushes"])), c["ml"]), nontrivial=multi)
        ps = sorted(p[:2] for p in c["pushes"])
        if any(ps[i + 1][0] < ps[i][1] for i in range(len(ps) - 1)):
            nest += 1
    def is_split(c):
        if c["ml"]:
            return False
        txt = "".join(chr(x) for x in c["t"])
        b = txt.encode("utf8")
        for p in c["pushes"]:
            seg = b[p[0]:p[1]].decode("utf8", "replace")
            if ("\n" in seg or "\r" in seg) and not seg.split("\n")[0].isascii():
                return True
        return False
    ck.cov["distribution"]["encoder_corr_split_cases_non_ascii_on_non_last_line"] = sum(1 for c in cases if is_split(c))
    ck.cov["distribution"]["encoder_corr_fixed_split_cases"] = sum(1 for c in cases if c.get("fixed"))
    ck.cov["distribution"]["encoder_corr_cases"] = len(cases)
    ck.cov["distribution"]["encoder_corr_cases_with_overlapping_pushes"] = nest
    if cases:
        c = cases[min(len(cases) - 1, 3)]
        ck.sample({"kind": "encoder correspondence case", "text": "".join(chr(x) for x in c["t"]), "multiline_support": c["ml"],
                   "pushes(start,end,type,mods)": c["pushes"], "real build output": c["out"]})


def run_search(ck, binpath, ndocs, maxpos, size, nobs):
    args = ["search", "--seed", ck.seed, "--docs", ndocs, "--maxpos", maxpos, "--size", size, "--obs", nobs, "--maxchars", 1800,
            "--std", os.path.join(REPO, "crates/emmylua_code_analysis/resources/std"), "--corpus", os.path.join(VERIF, "corpus", "C26")]
    rc, out, err = ck.run_bin(binpath, args, timeout=3000)
    if rc != 0:
        ck.tie_broken("harness c26 search failed (rc=%s)" % rc, err[-2000:])
        return []
    obs = []
    for l in jlines(out):
        if not l.strip().startswith("{"):
            continue
        v = json.loads(l)
        if "obs" in v:
            obs.append(v["obs"])
        elif "summary" in v:
            s = v["summary"]
            ck.cov["distribution"]["search"] = s
            ck.add_measured(s["requests"], s["distinct_nontrivial"])
            if s.get("requests_without_result", 0) or s.get("panics_recorded", 0):
                ck.notes.append("%d request(s) got no result and %d panic(s) were recorded during the C26 search: crashes are property C25's subject; "
                                "messages: %s" % (s.get("requests_without_result", 0), s.get("panics_recorded", 0), s.get("panic_messages")))
        elif "signature" in v:
            ck.violation(v["signature"], v["what"], {"doc": v.get("doc"), "text": v.get("text"), "detail": v.get("detail")})
    return obs


def verified_checker(ck, obs):
    """run the Gallina validity predicates (C26/Corr.v check_case) on what the real server returned"""
    terms = [obs_to_coq(o) for o in obs]
    failing = ck.coq_failing("checker", terms, ["EV.C26.Model", "EV.C26.Corr"], per_shard=2)
    if failing:
        body = "Local Open Scope N_scope.\nDefinition cs__ : list case := [\n%s].\nEval vm_compute in (map failing_parts cs__).\n" % ";\n".join(terms[i] for i in failing)
        rc, out = ck.coq_eval("checker_parts", body, ["EV.C26.Model", "EV.C26.Corr"])
        parts = re.findall(r"\[([\d; ]*)\]", out.split("=", 1)[1]) if rc == 0 and "=" in out else []
        for k, i in enumerate(failing):
            ps = [int(x) for x in re.findall(r"\d+", parts[k + 1] if k + 1 < len(parts) else "")] if parts else []
            names = ", ".join(PART.get(p, str(p)) for p in ps) or "?"
            o = obs[i]
            if ps == [7]:
                ck.tie_broken("the real server's selection chain differs from the model of push_growing_range on document %s" % o.get("doc"),
                              json.dumps({"doc": o.get("doc"), "text": "".join(chr(x) for x in o["t"]), "selections": o.get("selections")})[:4000])
                continue
            ck.violation("verified-checker-rejects|%s" % "+".join(str(p) for p in ps),
                         "the verified checker rejects the real server's %s for document %s" % (names, o.get("doc")),
                         {"doc": o.get("doc"), "text": "".join(chr(x) for x in o["t"]), "parts": ps})
    items = nsel = nrng = 0
    for o in obs:
        nsel += sum(1 for x in o.get("selections", []) if len(x) > 3 and x[3] is not None)
        nrng += len(o.get("ranges", []))
        items += len(o.get("ranges", [])) + len(o.get("tokens_sl", [])) // 5 + len(o.get("tokens_ml", [])) // 5 + len(o.get("symbols") or []) + len(o.get("folds") or []) \
            + len(o.get("selections", [])) + len(o.get("completions", [])) + len(o.get("edit_sets", []))
        ck.count_case(("checker", tuple(o["t"])), nontrivial=len(o["t"]) > 0)
    ck.cov["distribution"]["verified_checker_documents"] = len(obs)
    ck.cov["distribution"]["verified_checker_items"] = items
    ck.cov["distribution"]["selection_chains_compared_with_model"] = nsel
    ck.cov["distribution"]["ranges_checked_in_coq"] = nrng
    if obs:
        o = obs[min(len(obs) - 1, 11)]
        ck.sample({"kind": "observation checked by the Gallina predicates", "doc": o.get("doc"), "text": "".join(chr(x) for x in o["t"])[:160],
                   "tokens_sl": o.get("tokens_sl", [])[:20], "folds": (o.get("folds") or [])[:3], "selections": o.get("selections", [])[:2],
                   "edit_sets": o.get("edit_sets", [])[:2]})


def replay(ck, binpath, path):
    data = json.load(open(path))
    seen = set()
    for v in data.get("violations", []):
        t = v.get("case", {}).get("text")
        if t is None or t in seen:
            continue
        seen.add(t)
        rc, out, err = ck.run_bin(binpath, ["one", "--text-json", json.dumps(t)], timeout=600)
        for l in jlines(out):
            if l.strip().startswith("{"):
                r = json.loads(l)
                if "signature" in r:
                    ck.violation(r["signature"], r["what"], {"doc": r.get("doc"), "text": r.get("text")})


def main(argv):
    ck = Check("C26", argv)
    bins = ck.build_harness("vh_ls", ["c26"])
    if ck.replay and bins:
        replay(ck, bins["c26"], ck.replay)
        ck.finish(trusted_base=TRUSTED)
    ok = ck.coq_make(["theories/C26/Props.vo", "theories/C26/Corr.vo"])
    if ok:
        ck.coq_gates(["Base", "C22", "C26"], THEOREMS, "EV.C26.Props")
    else:
        ck.cov["obligations"] += len(THEOREMS)
    if bins:
        have_corr = os.path.exists(os.path.join(COQ, "theories/C26/Corr.vo"))
        if have_corr:
            encoder_correspondence(ck, bins["c26"], ck.scale(250, 6000))
        if ck.broken:
            ck.deep = True
        obs = run_search(ck, bins["c26"], ck.scale(40, 400), ck.scale(10, 30), ck.scale(4, 6), ck.scale(20, 120))
        if have_corr and obs:
            verified_checker(ck, obs)
    ck.finish(
        trusted_base=TRUSTED,
        rule="documents: corpus/C26 + 23 hand-written documents + the 15 bundled std annotation files + generated programs in 8 modes (nested "
             "functions/tables/classes/regions/doc comments with markdown, CRLF, mixed EOL, non-ASCII, truncated, unterminated, token soup, blank); per "
             "document: semanticTokens/full for a client with and without multilineTokenSupport, documentSymbol, foldingRange, codeLens, documentLink, "
             "documentColor, pull diagnostics, formatting, rangeFormatting, inlayHint, inlineValue; selectionRange / completion / rename / hover / "
             "definition / implementation / references / highlight / prepareRename / call hierarchy at sampled token positions; codeAction for the "
             "server's own diagnostics. evaluations = requests sent; encoder correspondence: random texts x random push sequences (nested, same start, "
             "multi-line, empty) compared exactly with the Coq model; non-trivial document = more than one line; distinct by text / push sequence",
        assumptions=["texts shorter than 4 GiB",
                     "only the semantic-token encoder and the selection chain builder are proved for all inputs; the validity of the other results is "
                     "checked on observed results (verified checker) and searched, not proved",
                     "locations in files the harness cannot read are counted in coverage.distribution.search.ranges_in_unreadable_documents"])
