import json
from vcheck import *
import c28_locks as T

META = {
    "category": "proof",
    "text": 'Tasks are modelled in Coq as lock programs (acquire read/write/mutex, release, wait for another task) over tokio\'s FAIR locks '
            '(FIFO queue per lock: a read request waits behind a queued writer), any number of task instances, every interleaving. Theorems: '
            'if every task acquires locks in strictly increasing lock rank (read and write share the rank, so no re-acquisition), holds '
            'nothing while it waits for another task -- or, generalised, waits only for tasks whose remaining lock needs all rank above what it '
            'holds -- then no reachable state is a deadlock, every execution is finite and can only stop when all tasks are done; such a rank '
            'exists iff the relation "a is held while b is requested" is acyclic (decided by node elimination); the order documented in '
            'context/mod.rs admitted a three-task deadlock and re-acquiring a held read lock deadlocks when a writer is queued in between (both '
            'refuted by explicit schedules). The lock programs of every async fn / spawned block of emmylua_ls (handlers, context, server) are '
            'REGENERATED from the source on every run as structured programs (seq/alt/loop, callees inlined, anything unclassified = Unknown = '
            'failure); a may-hold analysis proved sound for every control path computes the relation; the obligations held_before_acyclic, '
            'no_reentrant and flags_ok are re-proved by vm_compute over today\'s table, and server_no_deadlock follows for today\'s source. '
            'The real in-process server is stressed with seeded concurrent bursts (watched files incl. config events, open/change/close, the '
            'handlers that need both locks) under a watchdog; the two bursts that hung the unrepaired server run first. During that stress run a cfg-gated hook (verif_lock: tracing wrappers substituted for the tokio RwLock/Mutex) records every lock acquisition and release per task, and the runtime trace of every task must be a path of one of the regenerated lock programs (trace inclusion with early returns of inlined callees; a trace the table cannot explain breaks the tie) -- a dynamic validation of the lexical translator. A blocking call inside an async task (std mpsc recv, blocking_*) is outside the lock model: the translator emits it as Unknown, and the server is run on ONE runtime worker with its own file watcher, where a parked worker shows as a hang (this found the fs-notify task, since repaired).',
    "note": 'Trusted: Coq kernel; the LEXICAL translator lib/c28_locks.py (cross-checked on every run against a hand-reviewed table for 15 '
            'functions, and it fails loudly on anything it cannot classify) including its reviewed classification of non-lock awaits (timers and '
            'external IO complete by themselves; channel/cancellation/join waits = wait for a task; client responses = wait for the main loop); '
            'the model of tokio\'s semaphore queueing; std::sync::Mutex sections (never held across an await) are outside the model; blocking calls are only detected lexically (recv / blocking_* not awaited) and by the one-worker probe. The runtime traces validate the translator on the executed paths only. Axioms: none.',
    "technique": "Coq proof (invariant + rank argument over all schedules of an LTS with FIFO fair locks; refutation schedules) + lock programs "
                 "regenerated from the source with table obligations by vm_compute + translator cross-check + watchdog stress of the real server",
}

THEOREMS = [("ranked_no_deadlock", "theorem"), ("needs_no_deadlock", "theorem"), ("eventually_granted", "theorem"),
            ("exists_rank_iff_acyclic", "theorem"), ("table_no_deadlock", "theorem"),
            ("doc_order_unsafe_refuted", "refutation"), ("reentrant_read_refuted", "refutation"), ("ranked_example", "example")]
TABLE_THEOREMS = [("held_before_acyclic_true", "table"), ("no_reentrant_true", "table"), ("flags_ok_true", "table"),
                  ("server_no_deadlock", "theorem")]

TRUSTED = [
    "Coq 8.16.1 kernel (coqc); vm_compute in the table obligations, the two refutation schedules and the Example",
    "axioms: none (Print Assumptions: Closed under the global context for every theorem)",
    "model coq/theories/Base/LocksLTS.v of tokio::sync::RwLock / Mutex on the batch semaphore: per lock a holder list and a FIFO queue; a request "
    "is queued, only the head of the queue can be granted, readers share, a writer (and a Mutex) needs the lock free; MAX_READS is not modelled",
    "translator lib/c28_locks.py (lexical: tokenizer + bracket nesting; guards = `let g = X.read()/.write()/.lock().await`, temporaries die at the end "
    "of the statement, drop(g), block ends, if/else/match/select! = alternatives, while/for/loop = zero or more iterations, tokio::spawn(async ..) "
    "= separate program, awaited crate fns inlined by name, reviewed table of non-lock awaits); `return`/`?` are covered by the theorem's "
    "prefix-closure; its output Gen/C28_Locks.v is what server_no_deadlock is proved about",
    "the hand-reviewed table corpus/C28/expected_programs.json (15 functions) that the translator is compared with on every run",
    "modelling assumptions: a task waits only for tasks listed before it (acyclic waits-for: children / the main loop, which itself waits only for "
    "client input); the tasks awaited for client responses run the main loop LspServer::run; std::sync::Mutex (PendingTask) is never held "
    "across an await; blocking calls (std mpsc recv in the fs-notify task, file IO under a lock) take finite time",
    "hooks (cfg-gated, absent from normal builds): verif_serve, verif/task (canary dispatched by the main loop), verif_lock (tracing wrappers "
    "of tokio RwLock/Mutex imported by the crate's modules instead of tokio's when the cfg is on; events = granted acquisition / guard drop per tokio task id)",
    "trace-inclusion matcher lib/c28_locks.py::Machine (python): graph of the structured program, frames for inlined callees with early "
    "return, prefix acceptance; traces cut at 400 events per task",
]


def sig_lock(a):
    return T.LOCK_NAMES.get(a, str(a))


def cross_check(ck, res):
    """translator output vs the hand-reviewed table"""
    p = os.path.join(VERIF, "corpus", "C28", "expected_programs.json")
    if not os.path.exists(p):
        ck.tie_broken("corpus/C28/expected_programs.json is missing (translator cross-check impossible)")
        return
    exp = json.load(open(p))["functions"]
    compared, stale = 0, []
    for q, e in sorted(exp.items()):
        base = q.split("#")[0]
        if base not in res["hashes"] or q not in res["programs"]:
            stale.append(q + " (function no longer exists)")
            continue
        if res["hashes"][base] != e["hash"]:
            stale.append(q + " (source changed since the review)")
            continue
        got = T.events(res["programs"][q])
        compared += 1
        ck.cov["traces_validated_against_impl"] += 1
        if got != e["events"]:
            ck.tie_broken("translator regression: lock program of %s differs from the hand-reviewed table although its source is unchanged" % q,
                          json.dumps({"expected": e["events"], "got": got})[:3000])
    ck.cov["distribution"]["translator_crosscheck"] = {"compared": compared, "stale": stale}
    if compared < 8:
        ck.tie_broken("translator cross-check covers only %d unchanged functions (review corpus/C28/expected_programs.json again)" % compared,
                      json.dumps(stale))
    ck.log("translator cross-check: %d functions compared, %d stale" % (compared, len(stale)))


def parse_report(out):
    """[(name, [(a,b)..], flag)] from the vm_compute output of `report`"""
    m = re.search(r"=\s*\((true|false), (true|false), (true|false), \[([\d; ]*)\]\)", out)
    if not m:
        return None
    verdict = [x == "true" for x in m.group(1, 2, 3)]
    ents = []
    for mm in re.finditer(r'\("([^"]+)", \[([^\]]*)\], (true|false)\)', out[m.end():]):
        edges = [(int(a), int(b)) for a, b in re.findall(r"\((\d+), (\d+)\)", mm.group(2))]
        ents.append((mm.group(1), edges, mm.group(3) == "true"))
    return verdict, ents


def table_obligations(ck, res):
    """evaluate the obligations in Coq over the regenerated table; name the failing call sites"""
    body = ('Import ListNotations. Open Scope string_scope. Set Printing Width 1000000. Set Printing Depth 1000000.\n'
            'Eval vm_compute in (held_before_acyclic main_name programs, no_reentrant main_name programs, flags_ok main_name programs, '
            'mainlocks_of main_name programs).\nEval vm_compute in (report main_name programs).\n')
    rc, out = ck.coq_eval("report", body, ["Coq.Lists.List", "Coq.Strings.String", "EV.Base.LocksLTS", "EV.C28.Model", "EV.Gen.C28_Locks"], timeout=900)
    if rc != 0:
        ck.proof_broken("evaluation of the table obligations failed", out[-3000:])
        return False
    pr = parse_report(out)
    if pr is None:
        ck.proof_broken("unparsable output of the table obligations", out[-1500:])
        return False
    verdict, ents = pr
    per, alledges, bad, mainlocks = T.diagnose(res)
    ck.cov["obligations"] += 3
    ck.cov["discharged"] += sum(verdict)
    names = ["held_before_acyclic", "no_reentrant", "flags_ok"]
    ck.cov["table_obligations"] = [{"name": n, "holds": v} for n, v in zip(names, verdict)]
    ck.cov["distribution"]["table"] = {
        "programs": len(ents), "programs_that_lock": sum(1 for _, e, _ in ents if e or True),
        "held_before": sorted({"%s->%s" % (sig_lock(a), sig_lock(b)) for a, b in alledges}),
        "main_loop_locks": [sig_lock(x) for x in mainlocks],
    }
    # the python diagnostic analysis must agree with Coq's (it is only used to word the findings)
    coq_edges = {n: set(e) for n, e, _ in ents}
    for n, e, fl in ents:
        d = per.get(n)
        if d is None or {(a, b) for a, b, _ in d["edges"]} != set(e) or (not d["problems"]) != fl:
            ck.tie_broken("python diagnostic analysis disagrees with the Coq analysis on %s" % n,
                          json.dumps({"coq_edges": sorted(e), "coq_flag": fl, "python": d and {"edges": sorted({(a, b) for a, b, _ in d["edges"]}), "problems": d["problems"]}})[:2000])
        ck.count_case(("program", n, tuple(sorted(e)), fl), nontrivial=bool(e) or not fl)
    py_ok = (not bad, not any(a == b for a, b in alledges), not any(d["problems"] for d in per.values()))
    if (verdict[0], verdict[1], verdict[2]) != (py_ok[0], py_ok[1], py_ok[2]):
        ck.tie_broken("python diagnostic verdict %r differs from the Coq verdict %r" % (py_ok, tuple(verdict)))
    nfail = 0
    for n, e, fl in ents:
        fn = n.split("::", 1)[1] if "::" in n else n
        for a, b in sorted(set(e)):
            if (a, b) in bad:
                nfail += 1
                if a == b:
                    what = ("%s acquires %s (or waits for the main loop, which needs it) while it already holds it: with a writer queued in between "
                            "this deadlocks (re-entrant acquisition)" % (n, sig_lock(a)))
                    ck.violation("reentrant:%s:%s" % (fn, sig_lock(a)), what, {"program": n, "lock": sig_lock(a), "line": res["lines"].get(n)})
                else:
                    what = ("%s requests %s while holding %s, and another program requests them the other way round: with fair locks a queued "
                            "writer closes the cycle (deadlock)" % (n, sig_lock(b), sig_lock(a)))
                    ck.violation("lock-order:%s:%s->%s" % (fn, sig_lock(a), sig_lock(b)), what,
                                 {"program": n, "held": sig_lock(a), "requested": sig_lock(b), "line": res["lines"].get(n)})
        if not fl:
            for pb in per.get(n, {}).get("problems", ["flag false"]):
                nfail += 1
                kind = pb.split(":")[0]
                ck.violation("%s:%s" % (kind, fn), "%s: %s" % (n, pb), {"program": n, "problem": pb, "line": res["lines"].get(n)})
    for n, e, fl in ents[:400]:
        if e and len(ck.cov["samples"]) < 4:
            ck.sample({"kind": "lock program (regenerated)", "program": n, "held_before": ["%s->%s" % (sig_lock(a), sig_lock(b)) for a, b in sorted(set(e))],
                       "flag": fl, "events": T.events(res["programs"].get(n, []))[:12]})
    ck.log("table: %d programs, relation %s, verdict acyclic=%s no_reentrant=%s flags=%s, failing call sites: %d" % (
        len(ents), ck.cov["distribution"]["table"]["held_before"], verdict[0], verdict[1], verdict[2], nfail))
    return all(verdict)


def search(ck, binpath, rounds, res):
    corpus = os.path.join(VERIF, "corpus", "C28", "hangs.jsonl")
    trace_file = os.path.join(ck.work, "lock_trace.jsonl")
    rc, out, err = ck.run_bin(binpath, ["search", "--seed", ck.seed, "--n", rounds, "--dir", ck.work, "--corpus", corpus,
                                        "--watchdog-ms", 20000, "--trace-out", trace_file], timeout=ck.scale(900, 3000))
    if res is not None and os.path.exists(trace_file):
        trace_inclusion(ck, res, trace_file)
    elif res is not None:
        ck.tie_broken("the stress run produced no lock trace (hook verif_lock missing?)")
    got_summary = False
    for l in jlines(out):
        if not l.strip().startswith("{"):
            continue
        v = json.loads(l)
        if "summary" in v:
            got_summary = True
            ck.cov["distribution"]["stress"] = v["summary"]
            ck.add_measured(v["summary"]["rounds"], v["summary"]["distinct_nontrivial"])
            continue
        ck.violation(v["signature"], v["what"], v["case"])
    if rc != 0 or not got_summary:
        ck.tie_broken("harness c28 search failed (rc=%s)" % rc, (err or "")[-2000:])
    return out


def trace_inclusion(ck, res, trace_file):
    """every runtime lock trace (per task) must be a path of a regenerated lock program (validates the translator)"""
    events = [tuple(json.loads(l)) for l in open(trace_file) if l.strip()]
    if not events:
        ck.tie_broken("empty runtime lock trace")
        return
    ntasks, nev, bad, by = T.check_traces(res, events)
    ck.cov["traces_validated_against_impl"] += ntasks - len(bad)
    ck.cov["distribution"]["lock_traces"] = {"events_recorded": len(events), "tasks": ntasks, "events_checked": nev,
                                              "unexplained_tasks": len(bad), "programs_that_explained_a_trace": len(by),
                                              "main_loop_trace_checked": any(t == "main" for t, _, _ in events)}
    ck.log("runtime lock traces: %d events, %d tasks, %d unexplained, %d distinct programs used" % (len(events), ntasks, len(bad), len(by)))
    for task, tr, best, why in bad[:5]:
        names = [("%s %s %s" % (e[0], T.LOCK_NAMES.get(e[1], e[1]), e[2] if len(e) > 2 else "")).strip() for e in tr[:40]]
        ck.tie_broken("runtime lock trace of task %s is not a path of any regenerated lock program (%s; explained up to event %d): "
                      "the translator lib/c28_locks.py misreads some function" % (task, why, best), json.dumps(names))
    if ntasks:
        ck.sample({"kind": "runtime lock trace (one task)", "events": [list(e) for e in events if e[0] == events[len(events) // 2][0]][:12]})


def replay(ck, binpath, path):
    data = json.load(open(path))
    for v in data.get("violations", []):
        case = v.get("case", {})
        if "burst" not in case:
            continue
        rc, out, err = ck.run_bin(binpath, ["one", "--case-json", json.dumps({"burst": case["burst"]}), "--dir", ck.work, "--repeat", 10,
                                            "--watchdog-ms", 15000], timeout=900)
        for l in jlines(out):
            if l.strip().startswith("{"):
                vv = json.loads(l)
                if "signature" in vv:
                    ck.violation(vv["signature"], vv["what"], vv["case"])


def workers_probe(ck, binpath):
    """a task that blocks a runtime worker thread for good (a blocking call inside an async task) is a liveness defect
    that the lock model cannot see: run the server on ONE worker with the server-side file watcher"""
    rc, out, err = ck.run_bin(binpath, ["workers", "--workers", 1, "--dir", ck.work, "--watchdog-ms", 15000], timeout=300)
    got = False
    for l in out.splitlines():
        if l.strip().startswith("{"):
            v = json.loads(l)
            if "summary" in v:
                got = True
                ck.cov["distribution"]["one_worker_probe"] = v["summary"]
                ck.count_case(("workers", 1), nontrivial=True)
            elif "signature" in v:
                ck.violation(v["signature"], v["what"], v["case"])
    if rc != 0 or not got:
        ck.tie_broken("harness c28 workers failed (rc=%s)" % rc, (err or "")[-1500:])


def main(argv):
    ck = Check("C28", argv)
    bins = ck.build_harness("vh_ls", ["c28"])
    if ck.replay and bins:
        replay(ck, bins["c28"], ck.replay)
    # 1. regenerate the lock programs from today's source
    res = None
    try:
        res = T.translate(REPO)
        n = T.write_coq(res, os.path.join(COQ, "theories", "Gen", "C28_Locks.v"), REPO)
        ck.log("translator: %d functions scanned, %d programs in the table" % (len(res["hashes"]), n))
        ck.cov["distribution"]["translator"] = {"functions_scanned": len(res["hashes"]), "table_programs": n}
        cross_check(ck, res)
    except T.TranslateError as ex:
        ck.tie_broken("translator lib/c28_locks.py failed on today's source: %s" % ex)
    # 2. generic theorems
    ok = ck.coq_make(["theories/C28/Props.vo"] + (["theories/Gen/C28_Locks.vo"] if res else []))
    if ok:
        for f in (os.path.join(COQ, "theories/Base/LocksLTS.v"), os.path.join(COQ, "theories/Gen/C28_Locks.v")):
            hits = section_aware_forbidden(f) if os.path.exists(f) else []
            if hits:
                ck.proof_broken("forbidden vernacular in %s" % os.path.relpath(f, VERIF), json.dumps(hits[:10]))
        ck.coq_gates(["C28"], THEOREMS, "EV.C28.Props")
    # 3. obligations over the regenerated table
    table_ok = False
    if ok and res:
        table_ok = table_obligations(ck, res)
        if ck.coq_make(["theories/C28/Table.vo"]):
            ck.coq_gates([], TABLE_THEOREMS, "EV.C28.Table")
        elif table_ok:
            ck.proof_broken("C28/Table.v does not compile although the obligations evaluate to true")
    if ck.broken or ck.violations:
        ck.deep = True
    # 4. stress of the real server (the bursts that hung the unrepaired server first)
    if bins and not ck.replay:
        search(ck, bins["c28"], ck.scale(24, 400), res)
        workers_probe(ck, bins["c28"])
    ck.finish(
        trusted_base=TRUSTED,
        rule="(a) one case per regenerated lock program (async fn or spawned block of emmylua_ls/src/{handlers,context,server,util} that locks or "
             "waits), non-trivial = it holds one lock while requesting another or violates a flag, distinct by (name, relation, flag); "
             "(b) stress rounds on the real in-process server: seeded bursts of 2-60 messages (watched-files notifications with 1-200 events and "
             "optional .emmyrc.json event, didOpen/didChange/didClose/didSave, ten request kinds incl. the seven that need both locks) sent back "
             "to back, then canary requests under a 20 s watchdog; corpus bursts first; distinct by burst content; the per-task runtime lock traces of that run "
             "are counted in traces_validated_against_impl; (c) one run on a single runtime worker with the server-side file watcher",
        assumptions=["the stress run samples schedules (it validates the model and finds replays); the all-schedules claim is carried by the theorems "
                     "over the regenerated programs", "the translator is lexical (see trusted base)"])
