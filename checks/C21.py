from diag_common import *

META = {
    "category": "proof",
    "text": 'Theorems for ALL texts, parse-error lists, configurations and checker bodies about a Gallina transcription of translate_range (on the C22 line-index model and its theorems), add_diagnostic, get_diagnostics and SyntaxErrorChecker: every valid TextRange translates without panic or fallback to an ordered range of positions of the document that converts back to the same offsets, the 0:0 fallback is itself in bounds, every parse error whose code passes the C20 chain is reported at its translated range, code names are the names of known codes and pairwise distinct, every diagnostic has a severity, and the reported list has no exact duplicates. Code tables and the shape of get_diagnostics are regenerated from the Rust source on every run. The tie compares, for generated valid/invalid programs, the real parser\'s errors pushed through the model with the leading syntax diagnostics of the real diagnose_file under the four on/off combinations of the two syntax codes; the search checks every sentence on the implementation under default, full and syntax-disabled configurations.',
    "note": 'Trusted: Coq kernel; translator; hand model (validated by correspondence); C22 model/theorems. That each checker passes a valid range (character boundaries, start <= end) to add_diagnostic, and that rendered messages contain no %{...} placeholder, are properties of 40 checkers that are not modelled: they are covered by the search only (exploration). Axioms: none.',
    "technique": "Coq proof on the C22 and C20 models + model-vs-implementation correspondence on the real parser's errors + oracle search",
}

THEOREMS = [("translate_in_bounds", "theorem"), ("translate_never_panics", "theorem"), ("fallback_in_bounds", "theorem"),
            ("fallback_only_when_untranslatable", "theorem"), ("diagnostics_in_bounds", "theorem"),
            ("syntax_errors_all_reported", "theorem"), ("syntax_errors_one_each", "theorem"), ("syntax_errors_prefix", "theorem"),
            ("disabled_syntax_code_silent", "theorem"), ("codes_known", "theorem"), ("code_names_distinct", "table"),
            ("all_codes_complete", "table"), ("no_exact_duplicates", "theorem"), ("severity_total", "theorem"),
            ("syntax_example", "example")]

TRUSTED = TRUSTED_COMMON + [
    "hand-written models coq/theories/C21/Model.v (translate_range + fallback, SyntaxErrorChecker), C20/Model.v (add_diagnostic, get_diagnostics, "
    "enable chain) and C22/Model.v (LineIndex / LuaDocument); C22's theorems (range_roundtrip) are used as proved there; tied by the "
    "correspondence check (harness vh_analysis/src/bin/c21.rs + coq/theories/C21/Corr.v)",
    "modelling assumptions: a &str is the list of its chars, offsets are unbounded N (texts < 4 GiB); messages and the `data` value are opaque "
    "sequences compared by equality; Diagnostic equality is field-wise (derive(PartialEq)); source/tags are functions of the code",
    "search oracle: independent UTF-16 / LSP line-rule reference for positions inside the harness; placeholder pattern %{identifier}",
]
REQ = ["Coq.Lists.List", "Coq.NArith.NArith", "EV.C21.Model", "EV.C21.Corr"]
PRELUDE = "Import ListNotations.\n"


def b(x):
    return "true" if x else "false"


def case_terms(c):
    """one Coq case per configuration (4 per text)"""
    text = coq_list([str(x) for x in c["t"]])
    errs = coq_list(["((%s, %d), (%d, %d))" % (b(e[0]), e[1], e[2], e[3]) for e in c["errs"]])
    out = []
    for ds, dd, lst in c["obs"]:
        obs = coq_list(["(%s, ((%d, %d), (%d, %d)))" % (b(o[0]), o[1], o[2], o[3], o[4]) for o in lst])
        out.append("{| c_text := %s; c_errs := %s; c_dis_syntax := %s; c_dis_doc := %s; c_obs := %s |}" % (text, errs, b(ds), b(dd), obs))
    return out


def correspondence(ck, binpath, n):
    corpus = os.path.join(VERIF, "corpus", "C21")
    rc, out, err = ck.run_bin(binpath, ["corr", "--seed", ck.seed, "--n", n, "--corpus", corpus])
    if rc != 0:
        ck.tie_broken("harness c21 corr failed", err[-2000:])
        return
    cases = [json.loads(l) for l in jlines(out) if l.strip()]
    terms, owner = [], []
    for i, c in enumerate(cases):
        if "panic" in c:
            ck.violation("panic", "diagnose_file panicked on %r: %s" % (c.get("text"), c["panic"]), {"text": c.get("text")})
            continue
        for t in case_terms(c):
            terms.append(t)
            owner.append(i)
    failing = ck.coq_failing("corr", terms, REQ, per_shard=150, prelude=PRELUDE)
    seen = set()
    for i in failing or []:
        c = cases[owner[i]]
        if owner[i] in seen:
            continue
        seen.add(owner[i])
        txt = "".join(chr(x) for x in c["t"])
        ck.tie_broken("model/implementation disagreement on parse errors -> syntax diagnostics for text %r" % txt, json.dumps(c)[:3000])
    nerr = 0
    for c in cases:
        if "panic" in c:
            continue
        nerr += len(c["errs"])
        ck.count_case(("corr", tuple(c["t"])), nontrivial=bool(c["errs"]))
    ck.cov["distribution"]["corr_texts"] = len(cases)
    ck.cov["distribution"]["corr_parse_errors"] = nerr
    ck.cov["distribution"]["corr_cases_4_configs_per_text"] = len(terms)
    for c in cases:
        if "panic" not in c and len(c["errs"]) >= 2 and any(x > 127 for x in c["t"]):
            ck.sample({"kind": "correspondence case", "text": "".join(chr(x) for x in c["t"]), "parse_errors": c["errs"][:4], "reported_default": c["obs"][0][2][:4]})
            break


def search(ck, binpath, n):
    corpus = os.path.join(VERIF, "corpus", "C21")
    rc, out, err = ck.run_bin(binpath, ["search", "--seed", ck.seed, "--n", n, "--corpus", corpus])
    if rc != 0:
        ck.tie_broken("harness c21 search failed", err[-2000:])
        return
    for l in jlines(out):
        if not l.strip():
            continue
        v = json.loads(l)
        if "summary" in v:
            ck.cov["distribution"]["search"] = v["summary"]
            ck.add_measured(v["summary"]["cases"], v["summary"]["distinct_nontrivial"])
            continue
        ck.violation(v["signature"], "%s [config %s] on text %r" % (v["what"], v["config"], v["text"]), {"text": v["text"], "config": v["config"], "what": v["what"]})
        ck.sample({"kind": "violation", "signature": v["signature"], "text": v["text"]})


def replay(ck, binpath, path):
    data = json.load(open(path))
    for v in data.get("violations", []):
        t = v["case"].get("text")
        if t is None:
            continue
        rc, out, err = ck.run_bin(binpath, ["one", "--text-json", json.dumps(t)])
        for l in jlines(out):
            if l.strip():
                vv = json.loads(l)
                ck.violation(vv["signature"], "%s [config %s] on text %r" % (vv["what"], vv["config"], vv["text"]), {"text": vv["text"], "config": vv["config"], "what": vv["what"]})


def main(argv):
    ck = Check("C21", argv)
    bins = ck.build_harness("vh_analysis", ["c21", "c20"])
    if ck.replay and bins:
        replay(ck, bins["c21"], ck.replay)
        ck.finish(trusted_base=TRUSTED)
    t = regenerate_tables(ck)
    if bins:
        check_names(ck, bins["c20"], t)
    ok = ck.coq_make(["theories/C21/Props.vo", "theories/C21/Corr.vo"])
    if ok:
        ck.coq_gates(["C21"], THEOREMS, "EV.C21.Props")
    if bins:
        if ok or os.path.exists(os.path.join(COQ, "theories/C21/Corr.vo")):
            correspondence(ck, bins["c21"], ck.scale(600, 6000))
        if ck.broken:
            ck.deep = True
        search(ck, bins["c21"], ck.scale(4000, 60000))
    ck.finish(
        trusted_base=TRUSTED,
        rule="texts: 17 hand-written witnesses + corpus, then generated valid-ish programs (statements/expressions with non-ASCII identifiers, strings, "
             "malformed numerals/escapes, doc tags, CRLF), truncated programs, token soup, programs with spliced tokens, doc-comment errors, programs "
             "with one character deleted, programs with an unterminated tail; correspondence: each text x {syntax-error, doc-syntax-error} on/off; "
             "search: each text x {default, every code enabled, both syntax codes disabled}; non-trivial = the text has a parse error or a diagnostic; "
             "distinct by text",
        assumptions=["checkers pass valid ranges (character boundaries, start <= end) to add_diagnostic — checked by the search only",
                     "messages are fully rendered — checked by the search only (pattern %{identifier})",
                     "correspondence and search are sampled; the theorems carry the all-inputs claim for the modelled kernel"])
