"""C11 — analysis results do not depend on file order or hash seeds (checks/C11.py).

Pieces: translator (source -> coq/theories/Gen/C11_Sort.v), Coq theorems EV.C11.Props, correspondence of the
update-driver / best-analysis-order model with the order recorded by the hook, and the fresh-process search."""
import json
from concurrent.futures import ThreadPoolExecutor
from vcheck import *

META = {
    "category": "proof",
    "text": "Coq theorems about a Gallina transcription of the batch-update driver (ids collected in a hash set, listed in a "
            "hasher-chosen permutation, folded through a non-commutative analyze step), the per-workspace grouping and "
            "get_best_analysis_order: with the sort that the current source contains (table regenerated from source on every "
            "run) the result is a function of the registered files for EVERY analyze step and EVERY hasher permutation; "
            "without it a transcribed first-assignment-wins step yields different diagnostics (refutation witness). "
            "get_best_analysis_order is also transcribed literally (file_to_idx map, adjacency / in_degree vectors filled by the "
            "nested build loop over the hash sets, index queue, sort_by on indices, leftover scan) and PROVED equal to the closed "
            "form the theorems use. The regenerated table also lists every HashMap/HashSet iteration site of compilation/ and "
            "db_index/, semantic/ and diagnostic/ (60 today) with a reviewed class, with the obligation that none is order-sensitive or unreviewed. Tied to "
            "the code by the regenerated table, by the recorded update_index order (hook) and by the implementation's best order "
            "on generated dependency relations; the property itself is searched on the implementation with generated multi-file "
            "workspaces (19 snippet classes incl. generics, overloads, namespaces, unresolved member owners, library workspaces) "
            "analysed in fresh processes (fresh hash seeds) and compared by canonical dumps, plus the real emmylua_check binary.",
    "note": "Trusted: Coq kernel; the hand model of lib.rs/analyzer/mod.rs (validated by the recorded-order correspondence, not "
            "proved equal to the Rust); the regex translator and the hash-site scanner (name based, per file) with its hand-reviewed "
            "classification table in checks/C11.py (sites the name-based scanner cannot see, e.g. iteration through a method that returns a "
            "map, are covered only by the fresh-process search). Defects found and fixed: unsorted ids in update_files_by_uri; hash-ordered "
            "resolution of unresolved-reason groups in the unresolve pipeline; hash-ordered member visit in generic table pattern matching "
            "(pairs() key/value unions). Axioms: none.",
    "technique": "Coq proof (permutation invariance of sort + generic fold; simulation proof literal index-based algorithm = closed "
                 "form) about a hand-written Gallina transcription + source-regenerated sort / hash-site table + recorded-order "
                 "correspondence + fresh-process differential search",
}

THEOREMS = [("driver_deterministic", "theorem"), ("driver_current_source_deterministic", "table"),
            ("driver_order_dependent_refuted", "refutation"), ("grouping_deterministic", "theorem"),
            ("best_order_deterministic", "theorem"), ("best_order_acyclic_permutation_invariant", "theorem"),
            ("best_order_literal_is_closed_form", "theorem"), ("best_order_literal_deterministic", "theorem"),
            ("best_order_cycle_input_order_refuted", "refutation"), ("driver_example", "example")]

TRUSTED = [
    "Coq 8.16.1 kernel (coqc); vm_compute only in Examples, refutation witnesses and the correspondence evaluation",
    "axioms: none (Print Assumptions: Closed under the global context for every theorem)",
    "hand-written model coq/theories/C11/Model.v of EmmyLuaAnalysis::update_files_by_uri (lib.rs), module_analyze "
    "(compilation/analyzer/mod.rs) and FileDependencyRelation::get_best_analysis_order; tied by the recorded-order "
    "correspondence (hook verif_c11 + coq/theories/C11/Corr.v)",
    "regex translator in checks/C11.py producing coq/theories/Gen/C11_Sort.v (presence of a sort between the id collection "
    "and update_index in every update entry point; sort_by_key over the workspace contexts; at most one unsorted group) and the "
    "name-based scanner of HashMap/HashSet iteration sites in compilation/ and db_index/ with the hand-reviewed classes REVIEWED_SITES",
    "modelling assumptions: a HashSet/HashMap iteration is an arbitrary permutation of its elements; FileId = registration index",
    "search oracle: equality of canonical dumps (sorted diagnostics, inferred type of every expression and name token, member "
    "sets of every declared type; `{…}` member listings compared as sets) between fresh processes with identical registration order",
]


class R(Rng):
    def fork(self):
        return R(self.next())

    def chance(self, a, b):
        return self.below(b) < a

    def shuffle(self, xs):
        xs = list(xs)
        for i in range(len(xs) - 1, 0, -1):
            j = self.below(i + 1)
            xs[i], xs[j] = xs[j], xs[i]
        return xs

    def sample(self, xs, k):
        return self.shuffle(xs)[:k]


Rng = R  # (explore scripts use C11.Rng)

LITS = ["1", '"s"', "true", "2.5", "{}", "{ q = 1 }", "nil", "function() return 1 end", '{ "a", "b" }']
TYPES = ["integer", "string", "boolean", "number", "table", "string[]", "fun(): integer", "integer?"]
FILE_POOL = ["a.lua", "b.lua", "c.lua", "d.lua", "e.lua", "f.lua", "g.lua", "h.lua", "sub/i.lua", "sub/j.lua", "lib/k.lua", "z.lua"]


def gen_workspace(rng, idx, nfiles=None, libs_ok=True):
    """a small multi-file workspace; every snippet class is designed so that some cross-file fact has several
    candidate definitions, i.e. the outcome can depend on which file is analysed first"""
    nf = nfiles or (3 + rng.below(6))
    names = rng.sample(FILE_POOL, nf)
    libs = []
    if libs_ok and rng.chance(1, 5):
        # the files spread over the main workspace and two library workspaces (each its own module root)
        libs = ["lib1", "lib2"]
        names = ["%s/%s" % (["main", "main", "lib1", "lib2"][rng.below(4)], n.replace("lib/", "")) for n in names]
    bodies = {n: [] for n in names}

    def modname(n):
        if libs:
            n = n.split("/", 1)[1]
        return n[:-4].replace("/", ".")
    kinds = []
    counter = [0]

    def fresh():
        counter[0] += 1
        return counter[0]

    def put(text, where=None):
        n = where or rng.pick(names)
        bodies[n].append(text)
        return n

    def spread(snips):
        """each snippet in a different file when possible"""
        fs = rng.shuffle(names)
        used = []
        for i, s in enumerate(snips):
            used.append(put(s, fs[i % len(fs)]))
        return used

    def use(expr):
        k = fresh()
        put("local r%d = %s\nprint(r%d)" % (k, expr, k))

    nfeat = 1 + rng.below(4)
    for _ in range(nfeat):
        f = rng.below(19)
        k = fresh()
        if f == 0:
            kinds.append("glob_scalar")
            g = "G%d" % k
            spread(["%s = %s" % (g, l) for l in rng.sample(LITS, 2 + rng.below(3))])
            use(g)
            if rng.chance(1, 2):
                use(g + " .. ''")
        elif f == 1:
            kinds.append("glob_table")
            t = "T%d" % k
            spread(["%s = { f = %s }" % (t, l) for l in rng.sample(LITS, 1 + rng.below(3))] +
                   ["%s.f = %s" % (t, l) for l in rng.sample(LITS, 1 + rng.below(3))] +
                   ["%s.g = %s" % (t, rng.pick(LITS))])
            use(t + ".f")
            use(t + ".g")
            use(t)
        elif f == 2:
            kinds.append("glob_func")
            fn = "F%d" % k
            spread(["function %s(a) return 1 end" % fn, 'function %s(a, b) return "s" end' % fn,
                    "---@param a string\n---@return boolean\nfunction %s(a) return true end" % fn][: 2 + rng.below(2)])
            use(fn + "(1)")
            use(fn)
        elif f == 3:
            kinds.append("class_member")
            c = "C%d" % k
            spread(["---@class %s\n%s = {}" % (c, c)] + ["%s.x = %s" % (c, l) for l in rng.sample(LITS, 2 + rng.below(2))] +
                   ["function %s:m() return %s end" % (c, l) for l in rng.sample(LITS[:4], 1 + rng.below(2))])
            use(c + ".x")
            use(c + ":m()")
            put("---@type %s\nlocal v%d\nprint(v%d.x, v%d)" % (c, k, k, k))
        elif f == 4:
            kinds.append("partial_class")
            p = "P%d" % k
            spread(["---@class (partial) %s\n---@field a %s\n---@field b%d %s" % (p, t, i, rng.pick(TYPES))
                    for i, t in enumerate(rng.sample(TYPES, 2 + rng.below(2)))])
            put("---@type %s\nlocal p%d\nprint(p%d.a, p%d.b0, p%d.b1, p%d)" % (p, k, k, k, k, k))
        elif f == 5:
            kinds.append("dup_class")
            d = "D%d" % k
            spread(["---@class %s\n---@field a %s\n---@field c%d %s" % (d, t, i, rng.pick(TYPES))
                    for i, t in enumerate(rng.sample(TYPES, 2 + rng.below(2)))])
            put("---@type %s\nlocal d%d\nprint(d%d.a, d%d.c0, d%d)" % (d, k, k, k, k))
        elif f == 6:
            kinds.append("alias")
            a = "A%d" % k
            spread(["---@alias %s %s" % (a, t) for t in rng.sample(TYPES, 2 + rng.below(2))])
            put("---@type %s\nlocal a%d\nprint(a%d)\n---@param p %s\nlocal function fa%d(p) return p end\nprint(fa%d(a%d))" % (a, k, k, a, k, k, k))
        elif f == 7:
            kinds.append("enum")
            e = "E%d" % k
            spread(["---@enum %s\n%s = { X = 1, Y = 2 }" % (e, e), '---@enum %s\n%s = { X = "a", Z = 3 }' % (e, e),
                    "---@enum (key) %s\n%s = { K = true }" % (e, e)][: 2 + rng.below(2)])
            use(e + ".X")
            put("---@type %s\nlocal e%d\nprint(e%d)" % (e, k, k))
        elif f == 8:
            kinds.append("require")
            # module files are named after the workspace files themselves
            mods = rng.sample(names, min(len(names), 2 + rng.below(2)))
            for i, m in enumerate(mods):
                bodies[m].append("local M%d = { v = %s }\nfunction M%d.f() return %s end" % (k, rng.pick(LITS[:4]), k, rng.pick(LITS[:4])))
            for i, m in enumerate(mods):
                bodies[m].append("return M%d" % k)   # moved to the end below
            for m in mods:
                mod = modname(m)
                use('require("%s").v' % mod)
                use('require("%s").f()' % mod)
        elif f == 9:
            kinds.append("require_cycle")
            mods = rng.sample(names, min(len(names), 2 + rng.below(2)))
            for i, m in enumerate(mods):
                nxt = modname(mods[(i + 1) % len(mods)])
                bodies[m].insert(0, 'local o%d = require("%s")' % (k, nxt))
                bodies[m].append("return { v = o%d and o%d.v or %s, w = %s }" % (k, k, rng.pick(LITS[:4]), rng.pick(LITS[:4])))
            use('require("%s").v' % modname(mods[0]))
            use('require("%s").w' % modname(mods[-1]))
        elif f == 10:
            kinds.append("inherit")
            b = "B%d" % k
            s = "S%d" % k
            spread(["---@class %s\n---@field x integer" % b, "---@class %s2\n---@field x string\n---@field y boolean" % b,
                    "---@class (partial) %s: %s" % (s, b), "---@class (partial) %s: %s2\n---@field z number" % (s, b)])
            put("---@type %s\nlocal s%d\nprint(s%d.x, s%d.y, s%d.z, s%d)" % (s, k, k, k, k, k))
        elif f == 11:
            kinds.append("typed_global")
            g = "H%d" % k
            spread(["---@type %s\n%s = %s" % (rng.pick(TYPES), g, rng.pick(LITS)), "%s = %s" % (g, rng.pick(LITS)),
                    "---@type %s\n%s = %s" % (rng.pick(TYPES), g, rng.pick(LITS))][: 2 + rng.below(2)])
            use(g)
        elif f == 12:
            kinds.append("meta")
            fn = "N%d" % k
            fs = spread(["---@meta\n---@param a integer\n---@return string\nfunction %s(a) end\n---@class MC%d\n---@field m integer" % (fn, k),
                         "function %s(a, b) return 1 end" % fn, "---@class MC%d\n---@field m string" % k])
            use(fn + "(1)")
            put("---@type MC%d\nlocal mc%d\nprint(mc%d.m)" % (k, k, k))
        elif f == 14:
            kinds.append("unresolved_owner")
            # member assignments whose owner is only known after another file has been analysed: each is parked
            # under its own unresolved reason and resolved by the unresolve pipeline
            u = "U%d" % k
            lits = rng.sample(LITS[:4], 2 + rng.below(2))
            fs = spread(["---@class %s\n%s = {}" % (u, u)] + ["get%s_%d().x = %s" % (u, i, l) for i, l in enumerate(lits)])
            put("\n".join("function get%s_%d() return %s end" % (u, i, u) for i in range(len(lits))), rng.pick(names))
            use(u + ".x")
        elif f == 15:
            kinds.append("generic")
            g = "Id%d" % k
            spread(["---@generic T\n---@param x T\n---@return T\nfunction %s(x) return x end" % g,
                    "---@param x string\n---@return integer\nfunction %s(x) return 1 end" % g,
                    "---@class Box%d<T>\n---@field v T" % k, "---@class Box%d<T>\n---@field v T[]\n---@field w integer" % k][: 2 + rng.below(3)])
            use(g + "(1)")
            use(g + '("s")')
            put("---@type Box%d<integer>\nlocal bx%d\nprint(bx%d.v, bx%d)" % (k, k, k, k))
        elif f == 16:
            kinds.append("overload")
            o = "Ov%d" % k
            spread(["---@overload fun(a: string): string\n---@param a integer\n---@return integer\nfunction %s(a) return a end" % o,
                    "---@overload fun(a: boolean): boolean\nfunction %s(a) return a end" % o,
                    "---@class OC%d\n---@overload fun(x: integer): OC%d\nOC%d = {}" % (k, k, k),
                    "---@class OC%d\n---@overload fun(x: string): string\nOC%d = OC%d or {}" % (k, k, k)][: 2 + rng.below(3)])
            use(o + '("s")')
            use(o + "(true)")
            use(o + "(1)")
            use("OC%d(1)" % k)
        elif f == 17:
            kinds.append("namespace")
            fs = rng.sample(names, min(len(names), 3))
            bodies[fs[0]].insert(0, "---@namespace NS%d\n---@class K%d\n---@field a integer" % (k, k))
            bodies[fs[1 % len(fs)]].insert(0, "---@namespace NS%d\n---@class (partial) K%d\n---@field b string" % (k, k))
            bodies[fs[2 % len(fs)]].insert(0, "---@namespace Other%d\n---@class K%d\n---@field a string" % (k, k))
            put("---@type NS%d.K%d\nlocal nk%d\nprint(nk%d.a, nk%d.b)\n---@type Other%d.K%d\nlocal ok%d\nprint(ok%d.a)" % (k, k, k, k, k, k, k, k, k))
            tgt = rng.pick(names)
            bodies[tgt].insert(0, "---@using NS%d" % k)
            bodies[tgt].append("---@type K%d\nlocal uk%d\nprint(uk%d.a, uk%d)" % (k, k, k, k))
        elif f == 18:
            kinds.append("table_generic")
            # generic functions matched against a table's member map (pairs / user generics); needs the std library for pairs
            t = "tg%d" % k
            put("local %s = { a = 1, b = \"s\", c = true, d = 2.5, e = {} }\nfor pk%d, pv%d in pairs(%s) do\n  local kk%d, vv%d = pk%d, pv%d\nend\n"
                "---@generic K, V\n---@param t table<K, V>\n---@return K, V\nlocal function first%d(t) end\nlocal fk%d, fv%d = first%d(%s)\nprint(fk%d, fv%d)"
                % (t, k, k, t, k, k, k, k, k, k, k, k, t, k, k))
        else:
            kinds.append("global_member_chain")
            t = "W%d" % k
            spread(["%s = {}" % t, "%s = %s or {}" % (t, t), "%s.sub = { a = %s }" % (t, rng.pick(LITS)), "%s.sub = %s.sub or {}\n%s.sub.b = %s" % (t, t, t, rng.pick(LITS)),
                    "function %s.sub.fn() return %s end" % (t, rng.pick(LITS[:4]))][: 3 + rng.below(3)])
            use(t + ".sub")
            use(t + ".sub.a")
            use(t + ".sub.fn")
    files = []
    for n in names:
        lines = bodies[n]
        # a `return` must be the last statement of the chunk
        rets = [l for l in lines if l.startswith("return ")]
        rest = [l for l in lines if not l.startswith("return ")]
        text = "\n".join(rest + rets[:1]) + "\n"
        files.append([n, text])
    mode = ["uri", "uri", "uri", "path", "reindex", "reload"][rng.below(6)]
    spec = {"files": files, "mode": mode, "kind": "+".join(sorted(set(kinds + (["library_workspaces"] if libs else [])))), "id": idx}
    if libs:
        spec["libs"] = libs
    return spec


def describe_diff(a, b):
    out = []
    for sec in ("diag", "types", "members"):
        for f in sorted(set(a.get(sec, {})) | set(b.get(sec, {}))):
            xa, xb = a.get(sec, {}).get(f), b.get(sec, {}).get(f)
            if xa == xb:
                continue
            la = [json.dumps(x) for x in (xa if isinstance(xa, list) else [xa])]
            lb = [json.dumps(x) for x in (xb if isinstance(xb, list) else [xb])]
            for x in la:
                if x not in lb:
                    out.append("%s %s run A only: %s" % (sec, f, x))
            for x in lb:
                if x not in la:
                    out.append("%s %s run B only: %s" % (sec, f, x))
    return "\n".join(out)


# ------------------------------------------------------------------------------------------ translator
def fn_bodies(src):
    """{name: [body, …]} of every `fn name(…) {…}` in a Rust source text (brace matching; strings/comments skipped)"""
    out = {}
    for m in re.finditer(r"\bfn\s+([A-Za-z_]\w*)", src):
        i = src.find("{", m.end())
        semi = src.find(";", m.end())
        if i < 0 or (0 <= semi < i and "where" not in src[m.end():i]):
            continue
        depth, j, n = 0, i, len(src)
        while j < n:
            c = src[j]
            if src.startswith("//", j):
                j = src.find("\n", j)
                if j < 0:
                    break
                continue
            if src.startswith("/*", j):
                j = src.find("*/", j) + 2
                continue
            if c == '"':
                j += 1
                while j < n and src[j] != '"':
                    j += 2 if src[j] == "\\" else 1
            elif c == "'" and j + 2 < n and (src[j + 2] == "'" or (src[j + 1] == "\\" and src.find("'", j + 2) - j <= 4)):
                j = src.find("'", j + 2)
            elif c == "{":
                depth += 1
            elif c == "}":
                depth -= 1
                if depth == 0:
                    out.setdefault(m.group(1), []).append(src[i:j + 1])
                    break
            j += 1
    return out


def classify_call(body, callee):
    """how is the id list of `.callee(<arg>)` produced inside this fn body?
    returns list of classes, one per call: 'singleton' | 'sorted' | 'vec-order' | 'unsorted'"""
    res = []
    for m in re.finditer(r"\.\s*%s\s*\(" % callee, body):
        arg = body[m.end():]
        if re.match(r"\s*vec!\s*\[\s*[A-Za-z_]\w*\s*\]\s*\)", arg):
            res.append("singleton")
            continue
        im = re.match(r"\s*&?\s*([A-Za-z_]\w*)", arg)
        if not im:
            res.append("unsorted")
            continue
        ident = im.group(1)
        lets = list(re.finditer(r"\blet\s+(?:mut\s+)?%s\b[^;]*;" % re.escape(ident), body[:m.start()]))
        if not lets:
            res.append("unsorted")
            continue
        last = lets[-1]
        seg = body[last.end():m.start()]
        direct = re.match(r"\s*&?\s*%s\s*(\.clone\(\))?\s*\)" % re.escape(ident), arg) is not None
        if direct and re.search(r"\b%s\s*\.\s*sort(_unstable)?(_by|_by_key)?\s*\(" % re.escape(ident), seg):
            res.append("sorted")
        elif direct and "BTreeSet" in last.group(0) and "HashSet" not in last.group(0):
            res.append("sorted")
        elif direct and re.search(r"get_all_file_ids\s*\(\s*\)\s*;", last.group(0)):
            res.append("vec-order")
        else:
            res.append("unsorted")
    return res


# ------------------------------------------------------------------------------------------ hash-iteration sites
HASH_T = r'(?:hashbrown::|std::collections::)?(?:HashMap|HashSet)'
HASH_ITER = r'\.\s*(iter|iter_mut|values|values_mut|keys|into_iter|drain|into_keys|into_values)\s*\('
# classes: 0 sorted before use; 1 order-insensitive fold (independent per-entry update, any/all, counting, membership);
# 2 listing only (the order of a member / symbol / file listing, which the property excludes or which only the
# language server and the CLIs consume); 3 not a hash container (scanner over-approximation: the Vec stored in a map);
# 4 log only; 8 order-sensitive; 9 Unknown (not reviewed)
SITE_CLASS_NAMES = {0: "sorted-before-use", 1: "order-insensitive-fold", 2: "listing-only", 3: "not-a-hash-container", 4: "log-only",
                    8: "order-sensitive", 9: "Unknown"}
REVIEWED_SITES = {
    "compilation/analyzer/infer_cache_manager.rs | set_force | for ... in self.infer_map.iter_mut()": (1, "sets the phase of every cache independently"),
    "compilation/analyzer/infer_cache_manager.rs | clear | for ... in self.infer_map.iter_mut()": (1, "clears every cache independently"),
    "compilation/analyzer/mod.rs | module_analyze | for ... in file_tree_map": (0, "contexts.sort_by_key + single MAIN bucket (theorem grouping_deterministic)"),
    "compilation/analyzer/unresolve/mod.rs | record_unresolve_info | for ... in reason_unresolves.map.iter()": (4, "unused logging helper, counts per kind"),
    "compilation/analyzer/unresolve/mod.rs | record_unresolve_info | unresolve_info .iter(": (4, "unused logging helper, sorted by count before printing"),
    "db_index/schema/mod.rs | has_need_resolve_schemas | self.schema_files .values(": (1, "any()"),
    "db_index/schema/mod.rs | get_need_resolve_schemas | self.schema_files .iter(": (2, "list of schema urls fetched by the language server"),
    "db_index/schema/mod.rs | reset_rest_schemas | for ... in self.schema_files.values_mut()": (1, "resets every entry independently"),
    "db_index/member/lua_owner_members.rs | get_member_items | self.members.values(": (2, "member listing of an owner (LuaMemberIndex::get_members); the property compares modulo member listing order"),
    "db_index/member/lua_owner_members.rs | iter_mut | self.members.iter_mut(": (1, "LuaMemberIndex::remove: drops the file's ids from every item independently"),
    "db_index/member/mod.rs | remove | for ... in owners": (1, "removal of one file's members per owner, owners independent"),
    "db_index/flow/flow_tree.rs | get_nearest_common_antecedent | rest_antecedents.iter(": (1, "all() over a Vec of sets, membership only"),
    "db_index/global/mod.rs | get_all_global_decl_ids | for ... in self.global_decl.values()": (2, "global listing for completion / workspace symbols / doc export / _G members"),
    "db_index/dependency/file_dependency_relation.rs | get_best_analysis_order | for ... in deps": (1, "theorem best_order_literal_is_closed_form: the build loop does not depend on the set's iteration order"),
    "db_index/dependency/file_dependency_relation.rs | collect_file_dependents | for ... in self.dependencies.iter()": (2, "reverse map for a reachability search whose result is a set (language-server reference search)"),
    "db_index/dependency/file_dependency_relation.rs | collect_file_dependents | for ... in deps": (2, "same reachability search"),
    "db_index/dependency/file_dependency_relation.rs | collect_file_dependents | result.into_iter(": (2, "set of dependents returned as a list (language-server reference search sorts / treats it as a set)"),
    "db_index/reference/mod.rs | get_string_references | self.string_references .iter(": (2, "find-references listing"),
    "db_index/reference/mod.rs | get_type_references | self .type_references .iter(": (2, "find-references listing"),
    "db_index/reference/mod.rs | remove | for ... in self.index_reference.iter_mut()": (1, "per-entry removal"),
    "db_index/reference/mod.rs | remove | for ... in self.global_references.iter_mut()": (1, "per-entry removal"),
    "db_index/module/mod.rs | get_module_infos | self.file_module_map.values(": (2, "module listing (completion, doc export sorts it)"),
    "db_index/module/mod.rs | get_std_file_ids | for ... in self.file_module_map.values()": (2, "file listing"),
    "db_index/module/mod.rs | get_main_workspace_file_ids | for ... in self.file_module_map.values()": (2, "list of files to diagnose (emmylua_check / workspace diagnostics); per-file results do not depend on it"),
    "db_index/module/mod.rs | get_lib_file_ids | for ... in self.file_module_map.values()": (2, "file listing"),
    "db_index/type/mod.rs | find_type_decls | for ... in self.full_name_type_map.keys()": (2, "type-name completion listing"),
    "db_index/type/mod.rs | get_super_types_raw | supers.iter(": (3, "`supers` here is the Vec stored in the map (declaration order)"),
    "db_index/type/mod.rs | get_super_types_iter | supers.iter(": (3, "the Vec stored in the map"),
    "db_index/type/mod.rs | super_reaches | supers .iter(": (3, "the Vec stored in the map"),
    "db_index/type/mod.rs | get_sub_types | for ... in &self.supers": (2, "sub-type listing (implementations / hierarchy requests)"),
    "db_index/type/mod.rs | get_sub_types | for ... in supers": (3, "the Vec stored in the map"),
    "db_index/type/mod.rs | get_all_types | self.full_name_type_map.values(": (2, "type listing"),
    "db_index/type/mod.rs | get_file_namespaces | self.file_namespace .values(": (2, "namespace completion listing"),
    "db_index/type/types/complex.rs | cast_down_array_base | for ... in (1..).zip(fields)": (0, "fields.sort_by_key before the loop"),
    "db_index/type/types/complex.rs | cast_down_array_base | self.fields.iter(": (0, "collected then sort_by_key"),
    "db_index/type/types/complex.rs | from_set | for ... in &set": (1, "bitset union of basic kinds, breaks only on a non-basic member (result independent of order)"),
    "db_index/type/types/complex.rs | from_set | set.iter(": (1, "the single remaining element of a 2-set after removing nil"),
    "semantic/generic/infer_call_generic.rs | instantiate_callable_from_arg_types | for ... in callback_return_tpls": (1, "independent insert per template id"),
    "semantic/generic/type_substitutor.rs | add_need_infer_tpls | for ... in tpl_ids": (1, "entry().or_insert per template id"),
    "semantic/generic/type_substitutor.rs | is_infer_all_tpl | for ... in self.tpl_replace_map.values()": (1, "all()"),
    "semantic/generic/instantiate_type/instantiate_conditional_generic.rs | instantiate_true_branch | for ... in infer_assignments": (1, "replace_value per template id"),
    "semantic/generic/instantiate_type/instantiate_conditional_generic.rs | finalize_infer_assignments | assignments .into_iter(": (1, "map to map, per key"),
    "semantic/generic/instantiate_type/instantiate_special_generic.rs | instantiate_merge_call | for ... in right_map": (1, "map insert per key (right wins), result is a map"),
    "semantic/generic/tpl_pattern/mod.rs | object_tpl_pattern_match_member_owner_match | for ... in members": (0, "members collected and sorted by key before the loop (fix 7a0ddb3)"),
    "semantic/generic/tpl_pattern/mod.rs | table_generic_tpl_pattern_member_owner_match | for ... in members": (0, "members collected and sorted by key before the loop (fix 7a0ddb3); TypeKey entries compare equal and keep map order"),
    "semantic/generic/tpl_pattern/mod.rs | object_tpl_pattern_match_member_owner_match | members.into_iter(": (0, "collected into a Vec and sort_by key (fix 7a0ddb3)"),
    "semantic/generic/tpl_pattern/mod.rs | table_generic_tpl_pattern_member_owner_match | members.into_iter(": (0, "collected into a Vec and sort_by key (fix 7a0ddb3)"),
    "semantic/infer/infer_index/mod.rs | infer_type_key_member_type | for ... in keys": (0, "get_type_member_key returns the keys sorted"),
    "semantic/infer/infer_index/mod.rs | get_type_member_key | keys.into_iter(": (0, "collected then keys.sort()"),
    "diagnostic/lua_diagnostic_config.rs | new | for ... in &emmyrc.diagnostics.severity": (1, "map insert per code"),
    "diagnostic/checker/cast_type_mismatch.rs | expand_type_recursive | expanded_types.iter(": (1, "next() of a one-element set"),
    "diagnostic/checker/check_field.rs | is_valid_member | key_types .iter(": (1, "any()"),
    "diagnostic/checker/check_field.rs | is_valid_member | key_types.iter(": (1, "any()"),
    "diagnostic/checker/check_field.rs | check_enum_self_reference | key_types.iter(": (1, "any()"),
    "diagnostic/checker/check_field.rs | get_key_types | for ... in key_types": (1, "insert into a set"),
    "diagnostic/checker/duplicate_field.rs | check_decl_duplicate_field | for ... in member_map.iter()": (2, "order of the diagnostics list of one file (compared sorted)"),
    "diagnostic/checker/duplicate_index.rs | check_table_duplicate_index | for ... in index_map": (2, "order of the diagnostics list of one file (compared sorted)"),
    "diagnostic/checker/redefined_local.rs | check | for ... in diagnostics": (2, "order of the diagnostics list of one file (compared sorted)"),
    "diagnostic/checker/unknown_doc_tag.rs | check | known_tags .iter(": (3, "iterates the configured Vec to build a set"),
    "db_index/type/types/complex.rs | from_set | set.into_iter(": (2, "member order of a union built from a set (cast-type-mismatch checker); unions are compared as sets by the type checks"),
}


def hash_names(src):
    names = set()
    for m in re.finditer(r"\b([a-z_][a-z0-9_]*)\s*:\s*&?(?:mut\s+)?(?:'[a-z]+\s+)?(?:Option<\s*)?(?:Arc<\s*)?%s\s*<" % HASH_T, src):
        names.add(m.group(1))
    for m in re.finditer(r"\blet\s+(?:mut\s+)?([a-z_][a-z0-9_]*)\s*(?::[^=;]*)?=\s*[^;]*?%s::(?:new|with_capacity|default|from)" % HASH_T, src):
        names.add(m.group(1))
    for m in re.finditer(r"\blet\s+(?:mut\s+)?([a-z_][a-z0-9_]*)\s*(?::[^=;]*)?=[^;]*?collect::<\s*%s" % HASH_T, src):
        names.add(m.group(1))
    for m in re.finditer(r"\blet\s+(?:mut\s+)?([a-z_][a-z0-9_]*)\s*:\s*%s" % HASH_T, src):
        names.add(m.group(1))
    return names


def scan_hash_sites(subdirs=("compilation", "db_index", "semantic", "diagnostic")):
    """every place in the compilation pipeline / the indexes that iterates a HashMap / HashSet (by name, per file):
    `for … in <hash>`, `<hash>.iter()/values()/keys()/into_iter()/drain()`, `x.extend(<hash>)`; tests and verif hooks excluded"""
    base = os.path.join(REPO, "crates", "emmylua_code_analysis", "src")
    found = []
    for sub in subdirs:
        for root, dirs, names in os.walk(os.path.join(base, sub)):
            dirs.sort()
            if re.search(r"/tests?(/|$)|test_lib", root):
                continue
            for n in sorted(names):
                if not n.endswith(".rs") or "test" in n:
                    continue
                fp = os.path.join(root, n)
                rel = os.path.relpath(fp, base)
                src = open(fp, encoding="utf8", errors="replace").read()
                names_h = hash_names(src)
                if not names_h:
                    continue
                cut = src.find("#[cfg(test)]\nmod ")
                if cut >= 0:
                    src = src[:cut]
                nm = "|".join(sorted(map(re.escape, names_h)))
                for fn, bodies in fn_bodies(src).items():
                    if fn.startswith("verif_"):
                        continue
                    for body in bodies:
                        for m in re.finditer(r"\bfor\s+([^;{}]*?)\s+in\s+([^{};]*?)\s*\{", body):
                            expr = m.group(2)
                            if re.search(r"(?:self\s*\.\s*)?\b(%s)\b(?!\s*\()" % nm, expr) and not re.search(r"\b(%s)\s*\.\s*(get|get_mut|entry)\s*\(" % nm, expr):
                                found.append("%s | %s | for ... in %s" % (rel, fn, re.sub(r"\s+", " ", expr)))
                        for m in re.finditer(r"(?:self\s*\.\s*)?\b(%s)\b\s*(?:\.\s*as_ref\(\)\s*)?%s" % (nm, HASH_ITER), body):
                            pre = body[max(0, m.start() - 80):m.start()]
                            if re.search(r"\bfor\s+[^;{}]*\s+in\s+[^{};]*$", pre):
                                continue
                            found.append("%s | %s | %s" % (rel, fn, re.sub(r"\s+", " ", m.group(0))))
                        for m in re.finditer(r"\.\s*extend\s*\(\s*(?:self\s*\.\s*)?\b(%s)\b" % nm, body):
                            found.append("%s | %s | extend from %s" % (rel, fn, m.group(1)))
    out = []
    for f in found:
        f = f.encode("ascii", "replace").decode()
        if f not in out:
            out.append(f)
    return out


def hash_site_table(ck):
    sites = scan_hash_sites()
    rows = []
    for sname in sites:
        cls, why = REVIEWED_SITES.get(sname, (9, "not reviewed"))
        rows.append((sname, cls, why))
    bad = [r for r in rows if r[1] >= 8]
    for sname, cls, why in bad:
        ck.tie_broken("hash-iteration site is %s: %s" % (SITE_CLASS_NAMES[cls], sname),
                      "a HashMap/HashSet is iterated here and the iteration order has not been shown harmless; review the site, "
                      "add it to REVIEWED_SITES in checks/C11.py with its class, or make the iteration deterministic")
    if len(sites) < 10:
        ck.tie_broken("translator anchor missing: the hash-iteration scanner found only %d sites" % len(sites), "scanner broken?")
    stale = [k for k in REVIEWED_SITES if k not in sites]
    ck.cov["table_obligations"].append({"table": "Gen/C11_Sort.v hash_sites", "sites": len(rows),
                                        "by_class": {SITE_CLASS_NAMES[c]: sum(1 for r in rows if r[1] == c) for c in sorted(set(r[1] for r in rows))},
                                        "unreviewed_or_order_sensitive": [r[0] for r in bad], "reviewed_entries_no_longer_in_source": stale})
    return rows


def translate_sort_table(ck):
    """regenerate coq/theories/Gen/C11_Sort.v from /repo; any missing anchor is a broken tie"""
    base = os.path.join(REPO, "crates", "emmylua_code_analysis", "src")

    def read(rel):
        p = os.path.join(base, rel)
        if not os.path.exists(p):
            ck.tie_broken("translator anchor missing: file %s" % rel)
            return ""
        return open(p, encoding="utf8").read()

    missing = []
    lib = read("lib.rs")
    test_cut = lib.find("#[cfg(test)]\nmod ")
    lib_main = lib if test_cut < 0 else lib[:test_cut]
    fns = fn_bodies(lib_main)
    flags = {}

    def need(name):
        if name not in fns:
            missing.append("lib.rs fn %s" % name)
            return ""
        return fns[name][0]

    uri = need("update_files_by_uri")
    cu = classify_call(uri, "update_index")
    cr = classify_call(uri, "remove_index")
    if uri and (len(cu) != 1 or len(cr) != 1):
        missing.append("update_files_by_uri: exactly one update_index and one remove_index call (found %d/%d)" % (len(cu), len(cr)))
    flags["uri_sorts_updated"] = cu == ["sorted"]
    flags["uri_sorts_removed"] = cr == ["sorted"]
    if uri and not re.search(r"HashSet::new\(\)|BTreeSet::new\(\)", uri):
        missing.append("update_files_by_uri: the id sets (HashSet::new / BTreeSet::new)")
    path = need("update_files_by_path")
    flags["path_delegates_to_uri"] = bool(re.search(r"self\s*\.\s*update_files_by_uri\s*\(\s*files\s*\)\s*\}\s*$", path)) and ".update_index(" not in path
    single = need("update_file_by_uri")
    flags["single_update_is_singleton"] = classify_call(single, "update_index") == ["singleton"] and classify_call(single, "remove_index") == ["singleton"]
    reindex = need("reindex")
    vfs = read("vfs/mod.rs")
    gall = fn_bodies(vfs).get("get_all_file_ids", [""])[0]
    if not gall:
        missing.append("vfs/mod.rs fn get_all_file_ids")
    vec_ok = bool(re.search(r"self\s*\.\s*file_data\s*\.\s*iter\(\)\s*\.\s*enumerate\(\)", gall)) and bool(re.search(r"file_data\s*:\s*Vec<", vfs))
    flags["reindex_ids_in_vec_order"] = classify_call(reindex, "update_index") == ["vec-order"] and vec_ok
    # every other caller of update_index anywhere in the crates (tests excluded)
    others = 0
    known = {"update_files_by_uri", "update_files_by_path", "update_file_by_uri", "reindex"}
    for name, bodies in fns.items():
        if name in known:
            continue
        for b in bodies:
            for c in classify_call(b, "update_index"):
                if c == "unsorted":
                    others += 1
    crates = os.path.join(REPO, "crates")
    for root, dirs, names in os.walk(crates):
        if "/target" in root or re.search(r"/tests?(/|_|$)|test_lib", root):
            continue
        for n in names:
            fp = os.path.join(root, n)
            if not n.endswith(".rs") or fp == os.path.join(base, "lib.rs") or "test" in n:
                continue
            txt = open(fp, encoding="utf8", errors="replace").read()
            if ".update_index(" not in txt:
                continue
            cut = txt.find("#[cfg(test)]\nmod ")
            for name, bodies in fn_bodies(txt if cut < 0 else txt[:cut]).items():
                for b in bodies:
                    others += sum(1 for c in classify_call(b, "update_index") if c == "unsorted")
    # module_analyze
    am = read("compilation/analyzer/mod.rs")
    ma = fn_bodies(am).get("module_analyze", [""])[0]
    if not ma:
        missing.append("compilation/analyzer/mod.rs fn module_analyze")
    loop = re.search(r"for\s*\(\s*workspace_id\s*,\s*tree_list\s*\)\s*in\s+file_tree_map\b", ma)
    ext = re.search(r"contexts\s*\.\s*extend\s*\(\s*main_vec\s*\)", ma)
    srt = re.search(r"contexts\s*\.\s*sort_by_key\s*\(\s*\|\s*a\s*\|\s*a\s*\.\s*0\s*\)", ma)
    rm = re.search(r"file_tree_map\s*\.\s*remove\s*\(\s*&\s*WorkspaceId::STD\s*\)", ma)
    if ma and not (loop and ext):
        missing.append("module_analyze: the `for (workspace_id, tree_list) in file_tree_map` loop and `contexts.extend(main_vec)`")
    if ma and not re.search(r"HashMap<\s*WorkspaceId\s*,", ma):
        missing.append("module_analyze: file_tree_map: HashMap<WorkspaceId, …>")
    flags["module_analyze_sorts_contexts"] = bool(loop and ext and srt and loop.end() < srt.start() < ext.start())
    flags["module_analyze_std_removed_first"] = bool(loop and rm and rm.start() < loop.start())
    if ma and not re.search(r"workspace_id\s*\.\s*is_library\(\)\s*\|\|\s*workspace_id\s*\.\s*is_remote\(\)", ma):
        missing.append("module_analyze: `workspace_id.is_library() || workspace_id.is_remote()` bucket test")
    an = fn_bodies(am).get("analyze", [""])[0]
    if not re.search(r"for\s*\(\s*workspace_id\s*,\s*mut\s+context\s*\)\s*in\s+contexts", an):
        missing.append("analyzer::analyze: `for (workspace_id, mut context) in contexts`")
    ws = read("db_index/module/workspace.rs")
    consts = {}
    for cname in ("STD", "MAIN", "REMOTE", "LIBRARY_START"):
        m = re.search(r"pub\s+const\s+%s\s*:\s*WorkspaceId\s*=\s*WorkspaceId\s*\{\s*id\s*:\s*(\d+)\s*\}" % cname, ws)
        if not m:
            missing.append("workspace.rs const %s" % cname)
            consts[cname] = 999
        else:
            consts[cname] = int(m.group(1))
    wf = fn_bodies(ws)
    flags["is_library_is_ge_start"] = bool(re.search(r"self\s*\.\s*id\s*>=\s*Self::LIBRARY_START\s*\.\s*id", wf.get("is_library", [""])[0]))
    mr = re.search(r"self\s*\.\s*id\s*==\s*(\d+|Self::REMOTE\s*\.\s*id)", wf.get("is_remote", [""])[0])
    flags["is_remote_is_eq_remote"] = bool(mr) and (mr.group(1).startswith("Self") or int(mr.group(1)) == consts["REMOTE"])
    if not re.search(r"fn\s+cmp\s*\([^)]*\)[^{]*\{\s*self\s*\.\s*id\s*\.\s*cmp\s*\(\s*&\s*other\s*\.\s*id\s*\)", ws):
        missing.append("workspace.rs: Ord for WorkspaceId compares ids")
    # best order
    fd = read("db_index/dependency/file_dependency_relation.rs")
    bo = fn_bodies(fd).get("get_best_analysis_order", [""])[0]
    if not bo:
        missing.append("file_dependency_relation.rs fn get_best_analysis_order")
    flags["best_order_tiebreak_by_file_id"] = (len(re.findall(r"\.\s*sort_by\s*\(", bo)) == 2 and
                                                len(re.findall(r"_\s*=>\s*file_ids\[a\]\s*\.\s*cmp\s*\(\s*&\s*file_ids\[b\]\s*\)", bo)) == 2 and
                                                len(re.findall(r"metas\s*\.\s*contains\s*\(", bo)) == 4)
    lm = read("compilation/analyzer/lua/mod.rs")
    flags["lua_pipeline_uses_best_order"] = bool(re.search(r"let\s+order\s*=\s*file_dependency\s*\.\s*get_best_analysis_order\s*\(\s*&file_ids\s*,\s*&context\.metas\s*\)", lm)
                                                 and re.search(r"for\s+file_id\s+in\s+order\b", lm))
    for rel, pat, what in (("compilation/analyzer/decl/mod.rs", r"context\s*\.\s*tree_list", "decl pipeline iterates context.tree_list"),
                           ("compilation/mod.rs", r"analyzer::analyze\s*\(\s*&mut\s+self\.db\s*,\s*need_analyzed_files", "update_index passes need_analyzed_files to analyze")):
        if not re.search(pat, read(rel)):
            missing.append("%s: %s" % (rel, what))
    for mname in missing:
        ck.tie_broken("translator anchor missing: " + mname, "checks/C11.py translate_sort_table could not find this shape in /repo; "
                      "the update driver was restructured — re-read it and update the model")

    def b(x):
        return "true" if x else "false"
    ck.cov["table_obligations"] = []
    site_rows = hash_site_table(ck)
    head = hashlib.sha1((uri + path + single + reindex + ma + bo).encode()).hexdigest()[:12]
    lines = [
        "(** Gen/C11_Sort.v — GENERATED by checks/C11.py (translate_sort_table) from /repo on every run; do not edit.",
        "    sources: emmylua_code_analysis/src/{lib.rs, vfs/mod.rs, compilation/analyzer/mod.rs, compilation/analyzer/lua/mod.rs,",
        "    db_index/module/workspace.rs, db_index/dependency/file_dependency_relation.rs}; sha1 of the read items: %s *)" % head,
        "From Coq Require Import NArith Bool String List.",
        "Import ListNotations.",
        "Local Open Scope string_scope.",
        "Local Open Scope N_scope.",
        "(* update_files_by_uri: is the id list sorted between the hash-set collection and remove_index / update_index *)",
        "Definition uri_sorts_removed : bool := %s." % b(flags["uri_sorts_removed"]),
        "Definition uri_sorts_updated : bool := %s." % b(flags["uri_sorts_updated"]),
        "(* update_files_by_path ends in self.update_files_by_uri(files) and calls nothing else *)",
        "Definition path_delegates_to_uri : bool := %s." % b(flags["path_delegates_to_uri"]),
        "(* update_file_by_uri: remove_index(vec![id]) / update_index(vec![id]) *)",
        "Definition single_update_is_singleton : bool := %s." % b(flags["single_update_is_singleton"]),
        "(* reindex: ids = vfs.get_all_file_ids() = file_data.iter().enumerate() (a Vec), passed on unchanged *)",
        "Definition reindex_ids_in_vec_order : bool := %s." % b(flags["reindex_ids_in_vec_order"]),
        "(* calls of update_index anywhere else in the crates (tests excluded) whose id list is neither a singleton, sorted, nor the Vfs order *)",
        "Definition other_update_index_callers : N := %d." % others,
        "(* module_analyze: contexts.sort_by_key(|a| a.0) between the hash-map loop and contexts.extend(main_vec); STD removed before the loop *)",
        "Definition module_analyze_sorts_contexts : bool := %s." % b(flags["module_analyze_sorts_contexts"]),
        "Definition module_analyze_std_removed_first : bool := %s." % b(flags["module_analyze_std_removed_first"]),
        "Definition ws_std : N := %d." % consts["STD"],
        "Definition ws_main : N := %d." % consts["MAIN"],
        "Definition ws_remote : N := %d." % consts["REMOTE"],
        "Definition ws_library_start : N := %d." % consts["LIBRARY_START"],
        "Definition is_library_is_ge_start : bool := %s." % b(flags["is_library_is_ge_start"]),
        "Definition is_remote_is_eq_remote : bool := %s." % b(flags["is_remote_is_eq_remote"]),
        "(* get_best_analysis_order: both sort_by closures are (meta first, then file_ids[a].cmp(&file_ids[b])); the Lua pipeline iterates that order *)",
        "Definition best_order_tiebreak_by_file_id : bool := %s." % b(flags["best_order_tiebreak_by_file_id"]),
        "Definition lua_pipeline_uses_best_order : bool := %s." % b(flags["lua_pipeline_uses_best_order"]),
        "(* every place in compilation/ and db_index/ that iterates a HashMap/HashSet, with its reviewed class:",
        "   0 sorted before use, 1 order-insensitive fold, 2 listing only, 3 not a hash container, 4 log only, 8 order-sensitive, 9 Unknown *)",
        "Definition hash_sites : list (string * N) := [",
        ";\n".join('  ("%s", %d)' % (r[0].replace('"', '""'), r[1]) for r in site_rows),
        "].",
        "Definition hash_site_ok (c : N) : bool := c <? 8.",
        "Definition hash_sites_all_reviewed : bool := forallb (fun e : string * N => hash_site_ok (snd e)) hash_sites.",
        "",
    ]
    out = os.path.join(COQ, "theories", "Gen", "C11_Sort.v")
    new = "\n".join(lines)
    old = open(out).read() if os.path.exists(out) else None
    if old != new:
        with open(out, "w") as fh:
            fh.write(new)
    flags["other_update_index_callers"] = others
    flags.update({"ws_" + k.lower(): v for k, v in consts.items()})
    ck.cov["table_obligations"] += [{"table": "Gen/C11_Sort.v", "entries": {k: (v if not isinstance(v, bool) else bool(v)) for k, v in sorted(flags.items())},
                                    "anchors_missing": missing}]
    return flags


# ------------------------------------------------------------------------------------------ running the harness
def run_fresh(ck, binpath, specs, nproc, timeout=900):
    """analyse every spec in `nproc` FRESH processes (each process = new hash seeds); returns per process
    ("OK", [dump per spec]) or ("ERR", text).  To keep memory flat every run of a dump is reduced to
    {"sha": hash of its canonical form, "orders": …, "full": the run itself the first time this (spec, sha) is seen}"""
    import threading
    payload = "\n".join(json.dumps(s) for s in specs) + "\n"
    first = {}
    lock = threading.Lock()

    def one(_):
        rc, out, err = ck.run_bin(binpath, ["one"], input=payload, timeout=timeout)
        if rc != 0:
            return ("ERR", "rc=%d %s" % (rc, err[-1500:]))
        lines = [l for l in jlines(out) if l.strip()]
        if len(lines) != len(specs):
            return ("ERR", "expected %d dumps, got %d: %s" % (len(specs), len(lines), err[-800:]))
        dumps = []
        try:
            for i, l in enumerate(lines):
                runs = []
                for r in json.loads(l)["runs"]:
                    sha = hashlib.sha1(canon(r).encode()).hexdigest()
                    with lock:
                        keep = (i, sha) not in first
                        if keep:
                            first[(i, sha)] = True
                    runs.append({"sha": sha, "orders": r.get("orders"), "panic": "panic" in r, "full": r if keep else None})
                dumps.append({"runs": runs})
        except (ValueError, KeyError) as ex:
            return ("ERR", "unparsable dump: %s" % ex)
        return ("OK", dumps)
    with ThreadPoolExecutor(max_workers=min(nproc, max(2, NCPU))) as ex:
        return list(ex.map(one, range(nproc)))


def canon(run):
    """the observable part of one analysis (the recorded orders are the tie's business, not the property's)"""
    return json.dumps({k: run.get(k) for k in ("diag", "types", "members", "panic") if k in run}, sort_keys=True)


def differing(ck, binpath, spec, nproc=8):
    """does this spec still give different dumps between fresh runs? returns (bool, dumpA, dumpB)"""
    s = dict(spec)
    s["repeat"] = 2
    res = run_fresh(ck, binpath, [s], nproc, timeout=300)
    seen = {}
    for st, v in res:
        if st != "OK":
            continue
        for r in v[0]["runs"]:
            if r["full"] is not None:
                seen.setdefault(r["sha"], r["full"])
    ks = list(seen)
    if len(ks) > 1:
        return True, seen[ks[0]], seen[ks[1]]
    return False, None, None


def shrink(ck, binpath, spec, budget_s=60):
    """delta-debug a differing workspace: drop files, then lines, while fresh runs still disagree"""
    t0 = time.time()
    cur = {"files": [list(f) for f in spec["files"]], "mode": spec.get("mode", "uri"), "std": spec.get("std", False), "libs": spec.get("libs", [])}
    changed = True
    while changed and time.time() - t0 < budget_s:
        changed = False
        for i in range(len(cur["files"])):
            if len(cur["files"]) <= 2:
                break
            cand = dict(cur, files=cur["files"][:i] + cur["files"][i + 1:])
            if differing(ck, binpath, cand)[0]:
                cur = cand
                changed = True
                break
        if changed:
            continue
        for i, (n, t) in enumerate(cur["files"]):
            lines = (t or "").split("\n")
            for j in range(len(lines)):
                if not lines[j].strip():
                    continue
                nt = "\n".join(lines[:j] + lines[j + 1:])
                cand = dict(cur, files=cur["files"][:i] + [[n, nt]] + cur["files"][i + 1:])
                if time.time() - t0 > budget_s:
                    break
                if differing(ck, binpath, cand)[0]:
                    cur = cand
                    changed = True
                    break
            if changed:
                break
    return cur


def features(spec):
    """the class of input of a (shrunk) workspace"""
    texts = [(n, t or "") for n, t in spec["files"]]
    strip = (lambda n: n.split("/", 1)[1] if "/" in n else n) if spec.get("libs") else (lambda n: n)
    mods = {strip(n)[:-4].replace("/", "."): n for n, _ in texts}
    req = {n: set(mods[m] for m in re.findall(r'require\("([^"]+)"\)', t) if m in mods) for n, t in texts}

    def reaches(a, b, seen=None):
        seen = seen or set()
        for x in req.get(a, ()):
            if x == b or (x not in seen and reaches(x, b, seen | {x})):
                return True
        return False
    cyc = any(reaches(n, n) for n, _ in texts)
    anyreq = any(req[n] for n in req)
    alltext = "\n".join(t for _, t in texts)
    fs = []
    for tag, pat in (("partial-class", r"---@class \(partial\)"), ("class", r"---@class [A-Za-z]"), ("alias", r"---@alias"),
                     ("enum", r"---@enum"), ("meta", r"---@meta"), ("typed-global", r"---@type [^\n]*\n[A-Z]\w* ="),
                     ("member-assign", r"^[A-Z]\w*(\.\w+)+ =", ), ("global-function", r"^function [A-Z]\w*[.:(]"),
                     ("global-assign", r"^[A-Z]\w* =")):
        names = re.findall(pat, alltext, re.M)
        if names:
            fs.append(tag)
    return "requires=%s;mode=%s;defs=%s" % ("cycle" if cyc else ("acyclic" if anyreq else "none"), spec.get("mode", "uri"), "+".join(fs) or "none")


def diff_classes(a, b):
    cls = set()
    for f in set(a.get("diag", {})) | set(b.get("diag", {})):
        xa = {json.dumps(x) for x in a.get("diag", {}).get(f, [])}
        xb = {json.dumps(x) for x in b.get("diag", {}).get(f, [])}
        for x in xa ^ xb:
            cls.add("diag:" + json.loads(x)[4])
    if a.get("types") != b.get("types"):
        cls.add("types")
    if a.get("members") != b.get("members"):
        cls.add("members")
    if a.get("panic") != b.get("panic"):
        cls.add("panic")
    return sorted(cls)


def report_violation(ck, binpath, spec, a, b, do_shrink=True):
    small = spec
    if do_shrink:
        small = shrink(ck, binpath, spec, budget_s=ck.scale(45, 240))
        ok, a2, b2 = differing(ck, binpath, small, nproc=12)
        if ok:
            a, b = a2, b2
        else:
            small = spec
    cls = diff_classes(a, b)
    sig = "dump-differs[%s];%s" % (",".join(cls), features(small))
    what = ("same files, same registration order, different results in two fresh analyses (%s): %s"
            % (", ".join(cls), describe_diff(a, b).replace("\n", " | ")[:600]))
    ck.violation(sig, what, {"spec": {"files": small["files"], "mode": small.get("mode", "uri"), "std": small.get("std", False), "libs": small.get("libs", [])},
                             "original_kind": spec.get("kind"), "diff": describe_diff(a, b)[:4000]})


# ------------------------------------------------------------------------------------------ correspondence
def coq_N_list(xs):
    return coq_list([str(int(x)) for x in xs])


def drv_term(mode, batch, orders):
    return "Drv %d %s %s" % (mode, coq_list(["(%d, %s)" % (u, "true" if b else "false") for u, b in batch]),
                             coq_list([coq_N_list(o) for o in orders]))


def case_term(c):
    if c["k"] == "drv":
        return drv_term(c["mode"], c["batch"], c["orders"])
    return "BO %s %s %s %s" % (coq_N_list(c["ids"]), coq_list(["(%d, %d)" % (f, d) for f, d in c["deps"]]),
                               coq_N_list(c["metas"]), coq_N_list(c["out"]))


def has_cycle_rest(c):
    """does Kahn's algorithm on the listed files leave some of them over?"""
    ids = set(c["ids"])
    deps = {f: set() for f in ids}
    for f, d in c["deps"]:
        if f in ids and d in ids:
            deps[f].add(d)
    done = set()
    while True:
        ready = [f for f in ids - done if not (deps[f] - done)]
        if not ready:
            break
        done.update(ready)
    return len(done) < len(ids)


def correspondence(ck, binpath, n_per_proc, nproc, extra_cases):
    """`c11 corr` in nproc fresh processes (different generator seeds AND different hash seeds) + the driver cases
    read off the search dumps, all evaluated against the Gallina model by vm_compute"""
    def one(i):
        return ck.run_bin(binpath, ["corr", "--seed", ck.seed * 1000 + i, "--n", n_per_proc], timeout=600)
    with ThreadPoolExecutor(max_workers=min(nproc, NCPU)) as ex:
        outs = list(ex.map(one, range(nproc)))
    cases = []
    for rc, out, err in outs:
        if rc != 0:
            ck.tie_broken("harness c11 corr failed", err[-2000:])
            return
        for l in jlines(out):
            if l.strip():
                c = json.loads(l)
                if c["k"] == "bo" and not isinstance(c["out"], list):
                    ck.violation("best-order-panic", "get_best_analysis_order panicked: %s" % json.dumps(c)[:300], c)
                    continue
                cases.append(c)
    cases += extra_cases
    terms = [case_term(c) for c in cases]
    failing = ck.coq_failing("corr", terms, ["EV.C11.Model", "EV.C11.Corr"], per_shard=150,
                             prelude="From Coq Require Import List NArith.\nImport ListNotations.")
    dist = {"best_order": 0, "best_order_with_cycle_rest": 0, "driver_batch": 0, "driver_single": 0, "driver_reindex": 0, "driver_from_search": len(extra_cases)}
    for c in cases:
        if c["k"] == "bo":
            dist["best_order"] += 1
            if has_cycle_rest(c):
                dist["best_order_with_cycle_rest"] += 1
            ck.count_case(("bo", tuple(c["ids"]), tuple(map(tuple, c["deps"])), tuple(c["metas"])), nontrivial=len(c["ids"]) >= 2 and bool(c["deps"]))
        else:
            dist[["driver_batch", "driver_single", "driver_reindex"][c["mode"]]] += 1
            ck.count_case(("drv", c["mode"], tuple(map(tuple, c["batch"])), tuple(map(tuple, c["orders"]))), nontrivial=len(c["batch"]) >= 2)
    ck.cov["distribution"]["correspondence"] = dist
    if failing is None:
        return
    for i in failing[:10]:
        c = cases[i]
        if c["k"] == "drv":
            ck.tie_broken("model/implementation disagreement: the id order handed to update_index is not the model's "
                          "(sorted registration order) for batch %s in entry point %s: recorded %s" % (c["batch"], c.get("entry", c["mode"]), c["orders"]),
                          json.dumps(c))
        else:
            ck.tie_broken("model/implementation disagreement on get_best_analysis_order(ids=%s, deps=%s, metas=%s): implementation %s"
                          % (c["ids"], c["deps"], c["metas"], c["out"]), json.dumps(c))
    if cases:
        ck.sample({"kind": "correspondence case (best order)", "case": next((c for c in cases if c["k"] == "bo" and len(c["ids"]) > 3), cases[0])})
        ck.sample({"kind": "correspondence case (driver)", "case": next((c for c in cases if c["k"] == "drv" and len(c["batch"]) > 3), cases[0])})


def drv_cases_from_dumps(specs, results):
    """the orders the hook recorded while the search analysed its workspaces, as driver cases for the model"""
    cases = []
    for st, dumps in results:
        if st != "OK":
            continue
        for spec, d in zip(specs, dumps):
            mode = {"uri": 0, "path": 0, "single": 1, "reindex": 2}.get(spec.get("mode", "uri"))
            if mode is None or spec.get("std"):
                continue
            names = []
            for n, _ in spec["files"]:
                if n not in names:
                    names.append(n)
            for r in d["runs"]:
                if r.get("orders") is None:
                    continue
                try:
                    orders = [[names.index(x) for x in o] for o in r["orders"]]
                except ValueError:
                    continue
                if mode == 0 and not orders:
                    orders = [[]]
                if mode == 2 and len(orders) < 2:
                    continue
                cases.append({"k": "drv", "mode": mode, "entry": spec.get("mode"), "batch": [[names.index(n), 1 if t is not None else 0] for n, t in spec["files"]], "orders": orders})
    # de-duplicate
    uniq = {}
    for c in cases:
        uniq.setdefault(json.dumps(c, sort_keys=True), c)
    return list(uniq.values())


# ------------------------------------------------------------------------------------------ search
def load_corpus():
    d = os.path.join(VERIF, "corpus", "C11")
    specs = []
    if os.path.isdir(d):
        for n in sorted(os.listdir(d)):
            if n.endswith(".json"):
                s = json.load(open(os.path.join(d, n)))
                s.setdefault("id", n[:-5])
                s["note"] = s.get("kind", "")
                s["kind"] = "corpus"
                specs.append(s)
    return specs


def search(ck, binpath, nws, nproc, nstd):
    rng = R(ck.seed ^ 0xC11)
    specs = load_corpus()
    ncorpus = len(specs)
    for i in range(nws):
        s = gen_workspace(rng.fork(), "g%d" % i)
        specs.append(s)
        if i % 4 == 0:
            # the same files registered in another order (each order is compared with itself only)
            t = dict(s, files=rng.shuffle(s["files"]), id="g%dp" % i)
            specs.append(t)
    for s in specs:
        s["repeat"] = 2
    std_specs = []
    for i in range(nstd):
        s = gen_workspace(rng.fork(), "s%d" % i, nfiles=3 + rng.below(3))
        s["std"] = True
        s["repeat"] = 1
        s["mode"] = ["uri", "path"][i % 2]
        std_specs.append(s)
    t0 = time.time()
    results = run_fresh(ck, binpath, specs, nproc)
    std_results = run_fresh(ck, binpath, std_specs, max(3, nproc // 2)) if std_specs else []
    ck.log("search: %d workspaces x %d fresh processes x 2 analyses (+%d with the std library) in %.1fs" % (len(specs), nproc, len(std_specs), time.time() - t0))
    for st, v in results + std_results:
        if st != "OK":
            ck.tie_broken("harness c11 one failed in a fresh process", str(v)[:2000])
            return []
    kinds = {}
    nviol = 0
    for group, res in ((specs, results), (std_specs, std_results)):
        for i, spec in enumerate(group):
            seen = {}
            nruns = 0
            panicked = False
            for st, dumps in res:
                for r in dumps[i]["runs"]:
                    nruns += 1
                    panicked = panicked or r["panic"]
                    if r["full"] is not None:
                        seen.setdefault(r["sha"], r["full"])
            nontriv = len(spec["files"]) >= 2
            for k in spec.get("kind", "corpus").split("+"):
                kinds[k] = kinds.get(k, 0) + 1
            ck.add_counts(nruns, [("ws", json.dumps(spec["files"]), spec.get("mode"), spec.get("std", False))] if nontriv else [])
            if panicked:
                ck.violation("analysis-panic", "analysis panicked on workspace %s" % spec.get("id"), {"spec": spec})
                continue
            if len(seen) > 1:
                nviol += 1
                ks = list(seen)
                if nviol <= 2:
                    report_violation(ck, binpath, spec, seen[ks[0]], seen[ks[1]])
                elif nviol <= 12:
                    report_violation(ck, binpath, spec, seen[ks[0]], seen[ks[1]], do_shrink=False)
    modes = {}
    for s in specs + std_specs:
        modes[s.get("mode", "uri")] = modes.get(s.get("mode", "uri"), 0) + 1
    ck.cov["distribution"]["search"] = {"workspaces": len(specs) + len(std_specs), "from_corpus": ncorpus, "with_std_library": len(std_specs),
                                        "fresh_processes": nproc, "analyses_per_process": 2, "snippet_classes": kinds, "entry_points": modes,
                                        "workspaces_with_differing_dumps": nviol,
                                        "files_per_workspace": sorted(set(len(s["files"]) for s in specs))}
    if specs:
        s = specs[min(len(specs) - 1, ncorpus + 1)]
        ck.sample({"kind": "search workspace", "id": s.get("id"), "classes": s.get("kind"), "mode": s.get("mode"), "files": s["files"][:4]})
    return drv_cases_from_dumps(specs, results)


# ------------------------------------------------------------------------------------------ end to end: emmylua_check processes
def canon_members_py(s):
    """same canonicalisation as the harness: inside every `{…}` group the top-level items are sorted"""
    def go(i, close):
        items = [""]
        sort = close == "}"
        while i < len(s):
            c = s[i]
            if c == close:
                break
            i += 1
            if c in "{([":
                cl = {"{": "}", "(": ")", "[": "]"}[c]
                inner, i = go(i, cl)
                items[-1] += c + inner
                if i < len(s):
                    items[-1] += cl
                    i += 1
            elif sort and c in ",\n":
                items.append("")
            else:
                items[-1] += c
        if sort:
            v = sorted(x.strip() for x in items if x.strip())
            return " " + ", ".join(v) + " ", i
        return "".join(items), i
    out, i = "", 0
    while i < len(s):
        part, i = go(i, None)
        out += part
        if i < len(s):
            out += s[i]
            i += 1
    return out


def checker_processes(ck, checker, nws, nruns):
    """the real `emmylua_check` executable on generated on-disk workspaces, in fresh processes: the reported
    diagnostics (as a set per file) must be identical in every run"""
    rng = R(ck.seed ^ 0xC11C)
    specs = [s for s in load_corpus() if s["id"].startswith("w")][:3]
    specs += [gen_workspace(rng.fork(), "e%d" % i, libs_ok=False) for i in range(nws)]
    jobs = []
    for i, spec in enumerate(specs):
        d = os.path.join(ck.work, "ws_%d" % i)
        for n, t in spec["files"]:
            fp = os.path.join(d, n)
            os.makedirs(os.path.dirname(fp), exist_ok=True)
            with open(fp, "w") as fh:
                fh.write(t or "")
        for k in range(nruns):
            jobs.append((i, d))

    def one(job):
        i, d = job
        rc, out, err = ck.run_bin(checker, [d, "-f", "json"], timeout=300)
        try:
            data = json.loads(out)
        except ValueError:
            return i, ("ERR", "rc=%d unparsable output: %s %s" % (rc, out[:300], err[-300:]))
        files = {}
        for e in data:
            rel = os.path.relpath(e.get("file", ""), d)
            ds = sorted(json.dumps([x["range"]["start"]["line"], x["range"]["start"]["character"], x["range"]["end"]["line"],
                                    x["range"]["end"]["character"], x.get("code"), canon_members_py(x.get("message", ""))]) for x in e.get("diagnostics", []))
            files[rel] = [json.loads(x) for x in ds]
        return i, ("OK", files)
    with ThreadPoolExecutor(max_workers=max(2, NCPU)) as ex:
        res = list(ex.map(one, jobs))
    nbad = 0
    for i, spec in enumerate(specs):
        seen = {}
        for j, (st, v) in res:
            if j != i:
                continue
            if st != "OK":
                ck.tie_broken("emmylua_check did not produce a JSON report on a generated workspace", v)
                return
            seen.setdefault(json.dumps(v, sort_keys=True), v)
        ck.add_counts(nruns, [("checker", json.dumps(spec["files"]))])
        if len(seen) > 1:
            nbad += 1
            ks = list(seen)
            a, b = {"diag": seen[ks[0]]}, {"diag": seen[ks[1]]}
            cls = diff_classes(a, b)
            ck.violation("checker-output-differs[%s];%s" % (",".join(cls), features(dict(spec, mode="check"))),
                         "emmylua_check reports different diagnostics for the same directory in two runs: %s" % describe_diff(a, b).replace("\n", " | ")[:500],
                         {"spec": {"files": spec["files"], "mode": "check"}, "diff": describe_diff(a, b)[:3000]})
    ck.cov["distribution"]["emmylua_check_processes"] = {"workspaces": len(specs), "runs_per_workspace": nruns, "workspaces_with_differing_reports": nbad}


def replay(ck, binpath, path):
    data = json.load(open(path))
    for v in data.get("violations", []):
        spec = v.get("case", {}).get("spec")
        if not spec:
            continue
        if spec.get("mode") == "check":
            spec = dict(spec, mode="path", std=True)
        ok, a, b = differing(ck, binpath, spec, nproc=16)
        if ok:
            report_violation(ck, binpath, spec, a, b, do_shrink=False)
    for b in data.get("broken", []):
        ck.notes.append("replayed breakage: " + b.get("what", ""))


def main(argv):
    ck = Check("C11", argv)
    bins = ck.build_harness("vh_analysis", ["c11"])
    if ck.replay and bins:
        replay(ck, bins["c11"], ck.replay)
        ck.finish(trusted_base=TRUSTED)
    checker = ck.build_repo_bin("emmylua_check", "emmylua_check")
    translate_sort_table(ck)
    ok_corr = ck.coq_make(["theories/Gen/C11_Sort.vo", "theories/C11/Corr.vo"])
    ok = ok_corr and ck.coq_make(["theories/C11/Props.vo"])
    if ok:
        ck.coq_gates(["C11"], THEOREMS + [("pipeline_deterministic", "theorem"), ("best_order_example", "example"), ("grouping_example", "example")], "EV.C11.Props")
    if ck.broken:
        ck.deep = True
    drv = []
    if bins:
        drv = search(ck, bins["c11"], ck.scale(120, 600), ck.scale(12, 16), ck.scale(4, 12))
        ck.log("search done")
    if checker:
        # independent of the harness: still runs when the harness no longer builds against the edited tree
        checker_processes(ck, checker, ck.scale(5, 16), ck.scale(6, 8))
        ck.log("emmylua_check processes done")
    if bins:
        if ok_corr:
            correspondence(ck, bins["c11"], ck.scale(200, 2000), ck.scale(6, 10), drv)
            ck.log("correspondence done")
    ck.finish(
        trusted_base=TRUSTED,
        rule="search: corpus + generated workspaces of 3-8 files built from 19 snippet classes (generics, generic matching against table members, overloads across files, namespaces/using, "
             "member assignments with unresolved owners, optionally spread over a main and two library workspaces; conflicting cross-file globals, global "
             "tables/functions, class members assigned in several files, partial / duplicate classes, aliases, enums, inheritance, typed "
             "globals, meta files, requires, require cycles, global member chains), every 4th also in a shuffled registration order, "
             "through update_files_by_uri / update_files_by_path / reindex / reload_workspace_files, each analysed twice in each of M fresh "
             "processes (+ a few with the std library); an evaluation = one analysis; non-trivial = at least two files; distinct by (files, "
             "mode). correspondence: generated update batches (duplicates, removals) and dependency relations (chains, cycles, "
             "self-requires, metas, shuffled/partial id lists); non-trivial = batch of >= 2 entries / >= 2 ids with >= 1 dependency",
        assumptions=["hash-container iteration = arbitrary permutation (the model quantifies over all of them)",
                     "analysis is single-threaded; thread timing is not a source of non-determinism in the modelled driver",
                     "order dependence INSIDE the analyzers (hash maps iterated by the pipelines) is not modelled; it is covered by the fresh-process search only",
                     "correspondence and search are sampled (they validate the model and look for replays; the theorems carry the all-hash-seeds claim for the driver)"])
