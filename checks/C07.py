from fmt_common import *

META = {
    "category": "proof",
    "text": 'Range-formatting kernel proved, the layout analysis and the fragment formatter checked per run (not proved). Theorems about the Gallina transcription of the range arithmetic (clamp_range, contains_range, intersects_range with its empty-selection case, line_start/line_end offsets, expand_to_full_lines, find_overlapping_slice and find_deepest_block_slice over an abstract layout tree, select_format_range), of strip_base_indent / apply_base_indent / split_line_ending / map_lines and of the splice, for ALL documents, selections (empty, partial-token, beyond-end) and well-formed layout trees: the replace range is inside the document, line-aligned and contains every node of the chosen sibling level that the clamped selection intersects (selected_covers); splicing leaves the text outside the range untouched (splice_outside_untouched); re-indentation changes only leading blanks of lines (reindent_changes_only_leading_blank, reindent_roundtrip); and it reaches inside multi-line tokens (reindent_preserves_tokens_refuted, replayed on the real code: open finding). Tie: exact correspondence of every modelled function with the real helpers (hook H4 verif::range) on generated texts/selections and on real layout plans. Search: valid documents x all selection classes x configurations: apply the edit, re-parse, compare tokens and comments; selected tokens covered; documents with syntax errors get no edit.',
    "note": 'Trusted: Coq kernel; the hand model (validated by exact correspondence, not proved equal to the Rust); hook H4 (verif::range). NOT covered by theorems: the layout analysis that builds the plan (its well-formedness wf_plan is checked on every sampled plan), target_indent_prefix / explicit targets (table, call-args, param-list wrapping), and the fragment formatter (C05). Axioms: none.',
    "technique": "Coq proof (induction over texts and layout trees) about a hand-written Gallina transcription + exact model-vs-implementation correspondence + oracle search",
}

THEOREMS = [("selected_covers", "theorem"), ("splice_outside_untouched", "theorem"), ("reindent_changes_only_leading_blank", "theorem"),
            ("reindent_roundtrip", "theorem"), ("reindent_preserves_tokens_refuted", "refutation"), ("range_example", "example")]

TRUSTED = [
    "Coq 8.16.1 kernel (coqc), vm_compute used in Examples, the refutation witness and the correspondence evaluation; no native_compute",
    "axioms: none (Print Assumptions: Closed under the global context for every theorem)",
    "hand-written model coq/theories/C07/Model.v of crates/emmylua_formatter/src/formatter/range_format/mod.rs; tied by the correspondence check "
    "(harness vh_fmt/src/bin/c07.rs + coq/theories/C07/Corr.v) through hook H4 (verif::range wrappers and select_trace)",
    "modelling assumptions: a document is the list of its UTF-8 bytes; offsets are unbounded N (Rust u32/usize)",
    "the layout analysis is NOT modelled: wf_plan (siblings ordered, disjoint, inside the document) is checked on every sampled plan, not proved",
    "search oracle: apply the returned edit, re-parse with emmylua_parser, compare canonical tokens/comments (harness fmtgen::canon)",
]


def rng(r):
    return "(%d,%d)" % (r[0], r[1])


def orng(r):
    return "None" if r is None else "(Some %s)" % rng(r)


def bl(x):
    return "[" + ";".join(str(b) for b in x) + "]"


def tree_to_coq(nodes):
    return "[" + "; ".join("(LNode %s %s %s %s)" % (orng(n["r"]), "true" if n["syn"] else "false", "true" if n["blk"] else "false",
                                                    tree_to_coq(n["ch"])) for n in nodes) + "]"


def case_term(c):
    k = c["kind"]
    if k == "arith":
        return "(CArith %s %s %d %s %s %s)" % (rng(c["a"]), rng(c["b"]), c["ub"], rng(c["clamp"]),
                                               "true" if c["contains"] else "false", "true" if c["intersects"] else "false")
    if k == "lines":
        ex = "[" + ";".join("(%s,%s)" % (rng(e[:2]), rng(e[2])) for e in c["expand"]) + "]"
        return "(CLines %s %s %s %s)" % (bl(c["t"]), bl(c["ls"]), bl(c["le"]), ex)
    if k == "indent":
        sp = "[" + ";".join("(%d,%d)" % (a, b) for a, b in c["split"]) + "]"
        return "(CIndent %s %s %s %s %s)" % (bl(c["t"]), bl(c["p"]), bl(c["strip"]), bl(c["apply"]), sp)
    if k == "select":
        return "(CSelect %s %s %d %s %s %s %s %s)" % (bl(c["t"]), rng(c["sel"]), c["ub"], rng(c["clamped"]), tree_to_coq(c["tree"]),
                                                      orng(c["deepest"]), orng(c["overlapping"]), orng(c["selected"]))
    raise ValueError(k)


def correspondence(ck, binpath, n, nsel):
    rc, out, err = ck.run_bin(binpath, ["corr", "--seed", ck.seed, "--n", n, "--nsel", nsel], timeout=900)
    if rc != 0:
        ck.tie_broken("harness c07 corr failed", err[-2000:])
        return
    cases = jsonl(out)
    terms = [case_term(c) for c in cases]
    failing = ck.coq_failing("corr", terms, ["EV.C07.Model", "EV.C07.Corr"], per_shard=60, timeout=1500)
    kinds = {}
    for c in cases:
        kinds[c["kind"]] = kinds.get(c["kind"], 0) + 1
        ck.count_case(("corr", json.dumps(c, sort_keys=True)), nontrivial=(c["kind"] != "arith" and len(c.get("t", [])) > 3) or c["kind"] == "arith")
    ck.cov["distribution"]["corr_cases_by_kind"] = kinds
    ck.cov["distribution"]["corr_select_classes"] = {k: sum(1 for c in cases if c.get("class") == k) for k in sorted({c.get("class") for c in cases if c.get("class")})}
    for i in (failing or [])[:5]:
        c = cases[i]
        ck.tie_broken("C07 correspondence: model and implementation disagree on a %s case%s" % (
            c["kind"], " (or the real layout plan is not well-formed)" if c["kind"] == "select" else ""), json.dumps(c)[:3000])
    sel = next((c for c in cases if c["kind"] == "select"), None)
    if sel:
        ck.sample({"kind": "correspondence case (real layout plan)", "selection": sel["sel"], "class": sel["class"], "clamped": sel["clamped"],
                   "deepest_block_slice": sel["deepest"], "overlapping_root_slice": sel["overlapping"], "selected": sel["selected"],
                   "text": bytes(sel["t"]).decode("utf8", "replace")[:200]})


def search(ck, binpath, n):
    rc, out, err = ck.run_bin(binpath, ["search", "--seed", closed_seed(ck), "--n", n], timeout=1500)
    if rc != 0:
        ck.tie_broken("harness c07 search failed", err[-2000:])
        return
    for v in jsonl(out):
        if "summary" in v:
            ck.cov["distribution"]["search"] = v["summary"]
            ck.add_measured(v["summary"]["cases"], v["summary"]["distinct_nontrivial"])
            continue
        ck.violation(v["signature"], v["what"], {"text": v["text"], "sel": v["sel"], "cfg": v["cfg"], "class": v.get("class")})
        ck.sample({"kind": "violating input", "signature": v["signature"], "selection": v["sel"], "what": v["what"][:200], "text": v["text"][:200]}, cap=8)


def replay(ck, binpath, path):
    data = json.load(open(path))
    for k, v in enumerate(data.get("violations", [])):
        case = v.get("case", {})
        fn = os.path.join(ck.work, "replay_%d.lua" % k)
        with open(fn, "w", encoding="utf8", newline="") as fh:
            fh.write(case.get("text", ""))
        sel = case.get("sel", [0, 0])
        rc, out, err = ck.run_bin(binpath, ["one", "--file", fn, "--sel", "%d,%d" % (sel[0], sel[1]), "--cfg", json.dumps(case.get("cfg", {}))], timeout=300)
        for vv in jsonl(out):
            if "signature" in vv:
                ck.violation(vv["signature"], vv["what"], case)


def main(argv):
    ck = Check("C07", argv)
    bins = ck.build_harness("vh_fmt", ["c07"])
    if ck.replay and bins:
        replay(ck, bins["c07"], ck.replay)
        ck.finish(trusted_base=TRUSTED)
    anchor(ck, FMT_SRC + "/formatter/range_format/mod.rs",
           r"let selection = clamp_range\(selection, chunk\.syntax\(\)\.text_range\(\)\.end\(\)\);.*?let selected_range = select_format_range\(.*?"
           r"let dedented = strip_base_indent\(fragment, &source_indent_prefix\);.*?let text = apply_base_indent\(&formatted, &target_indent_prefix\);.*?replace_range: selected_range",
           "reformat_range_in_chunk: clamp, select, strip, format, apply, return the selected range")
    anchor(ck, FMT_SRC + "/formatter/range_format/mod.rs", r"pub fn reformat_range\(.*?if tree\.has_syntax_errors\(\) \{\s*return None;\s*\}",
           "reformat_range returns None for documents with syntax errors")
    ok = ck.coq_make(["theories/C07/Props.vo", "theories/C07/Corr.vo"])
    if ok:
        ck.coq_gates(["C07"], THEOREMS, "EV.C07.Props")
    if bins:
        if ok or os.path.exists(os.path.join(COQ, "theories/C07/Corr.vo")):
            correspondence(ck, bins["c07"], ck.scale(150, 2000), ck.scale(60, 600))
        if ck.broken:
            ck.deep = True
        search(ck, bins["c07"], ck.scale(250, 5000))
    ck.finish(
        trusted_base=TRUSTED,
        rule="correspondence: generated range pairs and bounds (arith), generated texts of 0-6 lines with LF/CRLF/CR endings, tabs, non-ASCII and "
             "missing final newline with every offset 0..len+2 (lines), the same texts x 6 indent prefixes (indent), and real layout plans of "
             "generated programs and std windows with one selection of a random class each (select); search: hand-written witnesses, std "
             "windows, mutated std files and generated programs (at least half of the documents under the default configuration, the rest under generated ones; a violation is identified by the minimal set of non-default options that reproduces it or, under the default configuration, by class and construct) x 13-16 selections per document covering the classes "
             "whole, beyond-end, over-end, empty at eof/start/token start/token end/mid token/line start, one token, partial token, token span, "
             "lines, one line, random; distinct by (text, selection, configuration); non-trivial = text longer than 20 bytes",
        assumptions=["correspondence and search are sampled; the theorems carry the all-inputs claim for the kernel",
                     "wf_plan (siblings ordered, disjoint, inside the document) is a property of the layout analysis: checked on every sampled plan, not proved",
                     "the fragment formatter is the C05 formatter: its defects are reported under formatter-defect:* signatures"])
