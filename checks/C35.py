import json
from vcheck import *
import c35_translate

META = {
    "category": "proof",
    "text": "Theorems about a Gallina model of the JSON documentation export (export_modules / export_types / export_globals of "
            "emmylua_doc_cli) for ALL index contents and ALL hash-map iteration orders: the export is independent of the iteration "
            "order (export_reproducible, type_locs_reproducible) and lists every main-workspace module, class/enum/alias and global "
            "exactly once and nothing else (export_complete_once); each statement is proved to hold iff the code sorts / de-duplicates / "
            "does not skip, and which of these the code does is regenerated from the Rust source on every run. The model is tied to the "
            "code by comparing, list for list and in order, what the real emmylua_doc_cli binary exports for generated workspaces with the "
            "model's export of the index dumped in-process; the property itself (byte-identical output of repeated fresh processes, json and "
            "markdown; every declared item exactly once; nothing from libraries or std) is searched on the real binary.",
    "note": "Trusted: Coq kernel; the hand model (sort keys and filters of export.rs; rendering of one entry is abstract); the syntactic "
            "translator for the sort/dedup/skip flags; a stable sort is any sorted permutation (proved unique). Index CONTENT that depends on "
            "the order in which files are analysed (description / super types of a class declared in several files, members of a global assigned in "
            "several files) is covered only by a small merge model (reproducible iff update_files_by_uri sorts the file ids - flag regenerated from "
            "lib.rs; C11 owns that code) and by the search, not by the correspondence. Axioms: none.",
    "technique": "Coq proof (permutation invariance of sorting with entry-identifying keys; de-duplication on a sorted list) about a "
                 "hand-written Gallina model parameterised by flags generated from the source + exact model-vs-binary correspondence + "
                 "oracle search with repeated fresh processes",
}

THEOREMS = [("export_reproducible", "theorem"), ("type_locs_reproducible", "theorem"), ("export_complete_once", "theorem"),
            ("modules_reproducible_iff_sorted", "theorem"), ("modules_reproducible_iff_key_has_path", "theorem"),
            ("modules_complete_iff_not_skipped", "theorem"),
            ("globals_once_iff_dedup", "theorem"), ("globals_once_iff_sort_refines_dedup", "theorem"), ("split_class_content_reproducible", "theorem"),
            ("split_class_reproducible_iff_sorted", "theorem"), ("export_example", "example")]

EXPECTED_FLAGS = {"modules_sorted": True, "types_sorted": True, "globals_sorted": True, "globals_dedup": True,
                  "modules_skip_no_export": False, "type_locs_sorted": True, "update_files_sorted": True,
                  "modules_key_has_path": True, "types_key_has_locs": True, "globals_key_has_decl_id": True,
                  "modules_key_reviewed": True, "types_key_reviewed": True, "globals_key_exact_name": True, "type_locs_key_reviewed": True,
                  "main_filter_export_modules": True, "main_filter_export_types": True, "main_filter_export_globals": True}

TRUSTED = [
    "Coq 8.16.1 kernel (coqc), vm_compute used in Examples, in the three flag-characterisation counterexamples and in the correspondence evaluation",
    "axioms: none (Print Assumptions: Closed under the global context for every theorem)",
    "hand-written model coq/theories/C35/Model.v of crates/emmylua_doc_cli/src/json_generator/export.rs (filters, sort keys, dedup); "
    "rendering of one entry is abstract (the entry is the index item); tied by the correspondence check (harness vh_cli/src/bin/c35.rs + coq/theories/C35/Corr.v)",
    "checks/c35_translate.py (syntactic: which export functions sort / dedup / skip) generating coq/theories/Gen/C35_sort.v",
    "modelling assumptions: Rust's stable sorts return a sorted permutation (any such is proved equal to the model's insertion sort when keys are distinct); "
    "String/PathBuf ordering = lexicographic on code points / on components; hash-map iteration = an arbitrary permutation of the entries",
    "search oracle: the generator's own record of what each workspace declares; byte comparison of outputs of fresh processes",
]

KIND = {"class": 0, "enum": 1, "alias": 2, "other": 3}


def cpath(p):
    if p is None:
        return "None"
    return "(Some %s)" % coq_list([coq_text(c) for c in p.split("/") if c != ""])


def cpath_raw(p):
    return coq_list([coq_text(c) for c in p.split("/") if c != ""])


def cbool(b):
    return "true" if b else "false"


def case_to_coq(index, obs):
    ms = ["{| mi_file := %d; mi_path := %s; mi_name := %s; mi_main := %s; mi_export := %s |}" % (
        m["file"], cpath(m["path"]), coq_text(m["name"]), cbool(m["main"]), cbool(m["export"])) for m in index["modules"]]
    ts = []
    for i, t in enumerate(index["types"]):
        locs = ["{| l_path := %s; l_start := %d; l_line := %d; l_main := %s |}" % (
            cpath(l["path"]), l["start"], l["line"] or 0, cbool(l["main"])) for l in t["locs"]]
        ts.append("{| td_id := %d; td_name := %s; td_kind := %d; td_locs := %s |}" % (i, coq_text(t["name"]), KIND[t["kind"]], coq_list(locs)))
    gs = ["{| g_name := %s; g_path := %s; g_pos := %d; g_line := %d; g_main := %s; g_typed := %s |}" % (
        "None" if g["name"] is None else "(Some %s)" % coq_text(g["name"]), cpath(g["path"]), g["pos"], g["line"] or 0,
        cbool(g["main"]), cbool(g["typed"])) for g in index["globals"]]
    om = ["(%s, %s)" % (coq_text(m[0]), cpath(m[1])) for m in obs["modules"]]
    ot = ["(%d, %s, %s)" % (KIND.get(t[0], 3), coq_text(t[1]), coq_list(["(%s, %d)" % (cpath_raw(l[0]), l[1]) for l in t[2]])) for t in obs["types"]]
    og = ["(%s, %s, %d)" % (coq_text(g[0] or ""), cpath(g[1]), g[2] or 0) for g in obs["globals"]]
    return ("{| c_modules := %s; c_types := %s; c_globals := %s; c_obs_modules := %s; c_obs_types := %s; c_obs_globals := %s |}" % (
        coq_list(ms), coq_list(ts), coq_list(gs), coq_list(om), coq_list(ot), coq_list(og)))


def wf_index(index):
    """the structural hypotheses of export_reproducible: distinct files have distinct paths, distinct type declarations
    distinct declaration sites, distinct global declarations differ in file or position"""
    mk = [m["path"] for m in index["modules"]]
    tk = [tuple(sorted((l["path"] or "", l["start"]) for l in t["locs"])) for t in index["types"] if any(l["main"] for l in t["locs"])]
    gk = [(g["path"], g["pos"]) for g in index["globals"] if g["main"]]
    return len(set(mk)) == len(mk) and len(set(tk)) == len(tk) and len(set(gk)) == len(gk)


def correspondence(ck, binpath, doc, n, runs):
    rc, out, err = ck.run_bin(binpath, ["corr", "--seed", ck.seed, "--n", n, "--runs", runs, "--bin", doc,
                                        "--dir", os.path.join(ck.work, "ws"), "--par", min(NCPU, 8)], timeout=2400)
    if rc != 0:
        ck.tie_broken("harness c35 corr failed", err[-2000:])
        return
    lines = [json.loads(l) for l in jlines(out) if l.strip()]
    terms, owners = [], []
    untyped = not_wf = 0
    for c in lines:
        for e in c["errors"]:
            ck.tie_broken("emmylua_doc_cli failed on a generated workspace", e[:1000])
        if not wf_index(c["index"]):
            not_wf += 1
        untyped += sum(1 for g in c["index"]["globals"] if g["main"] and not g["typed"])
        seen = []
        for obs in c["observed"]:
            if obs in seen:
                continue
            seen.append(obs)
            terms.append(case_to_coq(c["index"], obs))
            owners.append(c)
        ck.count_case(("corr", json.dumps(c["spec"]["files"])), nontrivial=c["nontrivial"])
    failing = ck.coq_failing("corr", terms, ["EV.C35.Model", "EV.C35.Corr"], per_shard=4, timeout=1200)
    for i in failing or []:
        c = owners[i]
        ck.tie_broken("model/implementation disagreement on the exported lists of a generated workspace (case %d)" % c["case"],
                      json.dumps({"files": c["spec"]["files"], "observed": c["observed"][0], "index": c["index"]})[:6000])
    ck.cov["distribution"]["corr"] = {"workspaces": len(lines), "model_evaluations": len(terms), "index_not_wellformed": not_wf,
                                      "main_globals_without_type": untyped,
                                      "modules": sum(len(c["index"]["modules"]) for c in lines),
                                      "types": sum(len(c["index"]["types"]) for c in lines),
                                      "global_decls": sum(len(c["index"]["globals"]) for c in lines)}
    if lines:
        c = lines[min(len(lines) - 1, 2)]
        ck.sample({"kind": "correspondence case", "files": [f[0] for f in c["spec"]["files"]], "exported": c["observed"][0] if c["observed"] else None})


def search(ck, binpath, doc, n, runs, mdruns):
    rc, out, err = ck.run_bin(binpath, ["search", "--seed", ck.seed, "--n", n, "--runs", runs, "--mdruns", mdruns, "--bin", doc,
                                        "--dir", os.path.join(ck.work, "ws"), "--par", min(NCPU, 8)], timeout=3000)
    if rc != 0:
        ck.tie_broken("harness c35 search failed", err[-2000:])
        return
    for l in jlines(out):
        if not l.strip():
            continue
        v = json.loads(l)
        if "summary" in v:
            ck.cov["distribution"]["search"] = v["summary"]
            ck.add_measured(v["summary"]["cases"], v["summary"]["distinct_nontrivial"])
            continue
        ck.violation(v["signature"], v["what"], {"spec": v["spec"]})
        ck.sample({"kind": "violation", "signature": v["signature"], "what": v["what"]})


def replay(ck, binpath, doc, path):
    data = json.load(open(path))
    for k, v in enumerate(data.get("violations", [])):
        f = os.path.join(ck.work, "replay_case_%d.json" % k)
        json.dump(v["case"], open(f, "w"))
        rc, out, err = ck.run_bin(binpath, ["one", "--case", f, "--runs", 6, "--mdruns", 3, "--bin", doc, "--dir", os.path.join(ck.work, "ws")], timeout=600)
        for l in jlines(out):
            if l.strip():
                vv = json.loads(l)
                if "signature" in vv:
                    ck.violation(vv["signature"], vv["what"], {"spec": vv["spec"]})


def load_known_with_fragment(ck):
    """known_findings.json is generated from findings/*.json by bin/gen-manifest; read the fragment too so that a
    fresh fragment is honoured before the next regeneration"""
    base = Check.load_known(ck)
    p = os.path.join(VERIF, "findings", "%s.json" % ck.prop)
    if os.path.exists(p):
        have = {k["signature"] for k in base}
        for k in json.load(open(p)):
            if k.get("property") == ck.prop and k.get("status") == "open" and k["signature"] not in have:
                base.append(k)
    return base


def main(argv):
    ck = Check("C35", argv)
    ck.load_known = lambda: load_known_with_fragment(ck)
    bins = ck.build_harness("vh_cli", ["c35"])
    doc = ck.build_repo_bin("emmylua_doc_cli", "emmylua_doc_cli")
    if ck.replay and bins and doc:
        replay(ck, bins["c35"], doc, ck.replay)
        ck.finish(trusted_base=TRUSTED)
    # the flags the theorems depend on, regenerated from today's source
    try:
        flags = c35_translate.regenerate(REPO, COQ)
        for k, want in sorted(EXPECTED_FLAGS.items()):
            ck.cov["obligations"] += 1
            okk = flags.get(k) == want
            ck.cov["table_obligations"].append({"table": "Gen/C35_sort.v", "entry": k, "value": flags.get(k), "required_by_theorems": want, "ok": okk})
            if okk:
                ck.cov["discharged"] += 1
            else:
                ck.proof_broken("export.rs no longer has the shape the theorems need: %s = %s (theorems need %s)" % (k, flags.get(k), want),
                                "regenerated coq/theories/Gen/C35_sort.v from crates/emmylua_doc_cli/src/json_generator/export.rs")
    except c35_translate.AnchorMissing as e:
        ck.tie_broken("C35 translator: anchor missing in export.rs (%s)" % e, "")
    ok = ck.coq_make(["theories/C35/Props.vo", "theories/C35/Corr.vo"])
    if ok:
        ck.coq_gates(["Base", "C35"], THEOREMS, "EV.C35.Props")
    if bins and doc:
        if os.path.exists(os.path.join(COQ, "theories/C35/Corr.vo")):
            correspondence(ck, bins["c35"], doc, ck.scale(6, 40), ck.scale(2, 3))
        if ck.broken:
            ck.deep = True
        search(ck, bins["c35"], doc, ck.scale(12, 120), ck.scale(3, 5), ck.scale(2, 3))
    ck.finish(
        trusted_base=TRUSTED,
        rule="generated workspaces on disk (2-6 main files in nested folders, 40% chance each of a pair x.lua + x/init.lua with EQUAL module names, optional namespaces, classes/enums/aliases/globals of 5 forms, "
             "classes declared in two files (both parts with a member of the same name), aliases declared in two files, globals assigned in two files and re-assigned in one file, modules returning nothing / a table / a class / "
             "a number, 0-2 library files declaring their own and main-workspace names) + 4 hand-written witnesses (corpus/C35, incl. six pairs of modules with equal names); each exported by the real binary in "
             "3-5 fresh processes as json and 2-3 as markdown; non-trivial = at least one type, one global and two modules; distinct by file contents",
        assumptions=["rendering of a single entry is a function of the index content; the index content is a function of the files and of the (sorted) analysis order (C11's subject)",
                     "correspondence and search are sampled (they validate the model and look for replays; the theorems carry the all-orders claim)"])
