"""shared by C33 and C08/C09/C10: LuaModuleIndex correspondence (harness vh_analysis/c33, model EV.C33.Model)"""
import json
from vcheck import *


def cstr(s):
    return coq_list([str(ord(c)) for c in s])


def cstrs(l):
    return coq_list([cstr(x) for x in l])


def copt(x, f):
    return "None" if x is None else "(Some %s)" % f(x)


def cbool(b):
    return "true" if b else "false"


def dump_to_coq(d):
    nodes = ["(mkON %d %s %s %s)" % (n["id"], copt(n["parent"], str),
                                     coq_list(["(%s, %d)" % (cstr(k), c) for k, c in n["children"]]),
                                     coq_list([str(x) for x in n["files"]])) for n in d["nodes"]]
    files = ["(mkOF %d %s %s %d %d %s)" % (f["file"], cstr(f["full"]), cstr(f["name"]), f["node"], f["ws"], cbool(f["hidden"]))
             for f in d["files"]]
    fuzzy = ["(%s, %s)" % (cstr(k), coq_list([str(x) for x in v])) for k, v in d["fuzzy"]]
    return "(mkDump %d %s %s %s)" % (d["counter"], coq_list(nodes), coq_list(files), coq_list(fuzzy))


def step_to_coq(st):
    op = st["op"]
    k = op[0]
    if k == "addpath":
        ex = st.get("extract")
        return "(SAddPath %d %s %s %s %s)" % (op[1], cstrs(op[2]), copt(st.get("ret"), str),
                                              copt(ex, lambda e: "(%s, %d)" % (cstr(e[0]), e[1])), dump_to_coq(st["dump"]))
    if k == "addmod":
        return "(SAddMod %d %s %d %s)" % (op[1], cstr(op[2]), op[3], dump_to_coq(st["dump"]))
    if k == "remove":
        return "(SRemove %d %s)" % (op[1], dump_to_coq(st["dump"]))
    if k == "hide":
        return "(SHide %d %s)" % (op[1], dump_to_coq(st["dump"]))
    if k == "clear":
        return "(SClear %s)" % dump_to_coq(st["dump"])
    if k == "config":
        nc = op[1]
        rw = ["(%s, %s)" % (cstr(a), cstr(b)) for a, b in st.get("rw", [])]
        return "(SSetCfg %s %s %s %s %s)" % (cstrs(nc["patterns"]), cbool(nc["fuzzy"]), cbool(len(nc["map"]) > 0), coq_list(rw), dump_to_coq(st["dump"]))
    if k == "find":
        return "(SFind %s %s)" % (cstr(op[1]), copt(st.get("ret"), str))
    raise ValueError(k)


def case_to_coq(c):
    cfg = c["cfg"]
    wss = ["(mkWs %s %s %d)" % (cstrs(r["comps"]), copt(r["pkg"], cstrs), r["ws"]) for r in cfg["roots"]]
    rw = ["(%s, %s)" % (cstr(a), cstr(b)) for a, b in c["rw"]]
    mp = ["((%s, %s), %s)" % (cstrs(p), cstr(a), copt(b, cstr)) for p, a, b in c["mp"]]
    sizes = [str(v) for _, v in c["sizes"][:6]]
    return "(mkCase %s %s %s %s %s %s %s %s)" % (
        cstrs(cfg["patterns"]), coq_list(wss), cbool(cfg["fuzzy"]), cbool(len(cfg["map"]) > 0), coq_list(rw), coq_list(mp),
        coq_list([step_to_coq(s) for s in c["steps"]]), coq_list(sizes))


def module_correspondence(ck, binpath, n, label="corr"):
    """drive the real LuaModuleIndex with generated op sequences; compare dumps and answers with the model"""
    corpus = os.path.join(VERIF, "corpus", "C33")
    rc, out, err = ck.run_bin(binpath, ["corr", "--seed", ck.seed, "--n", n, "--corpus", corpus])
    if rc != 0:
        ck.tie_broken("harness c33 corr failed", err[-2000:])
        return
    cases = [json.loads(l) for l in jlines(out) if l.strip()]
    terms = [case_to_coq(c) for c in cases]
    failing = ck.coq_failing(label, terms, ["EV.C33.Model", "EV.C33.Corr"], per_shard=25)
    nops = 0
    dist = {}
    for c in cases:
        ops = [s["op"][0] for s in c["steps"]]
        nops += len(ops)
        for o in ops:
            dist[o] = dist.get(o, 0) + 1
        ck.count_case(("modcorr", json.dumps([c["cfg"], [s["op"] for s in c["steps"]]], sort_keys=True)),
                      nontrivial=("remove" in ops and ("addpath" in ops or "addmod" in ops)))
    ck.cov["distribution"]["module_corr_cases"] = len(cases)
    ck.cov["distribution"]["module_corr_ops"] = dist
    if failing is None:
        return
    for i in failing:
        c = cases[i]
        # find the first step the model disagrees on, for the message
        ck.tie_broken("model/implementation disagreement on LuaModuleIndex (ops %s)" % json.dumps([s["op"] for s in c["steps"]])[:600],
                      json.dumps(c)[:6000])
    if cases:
        c = cases[min(len(cases) - 1, 7)]
        ck.sample({"kind": "module-index correspondence case", "cfg": c["cfg"], "ops": [s["op"] for s in c["steps"]][:8],
                   "answers": [[s["op"][1], s.get("ret")] for s in c["steps"] if s["op"][0] == "find"][:6]})
