"""shared by C05 / C06 / C07: formatter IR s-expressions -> Coq terms, printer configuration, harness runs"""
import hashlib
import json
import os
import re
from vcheck import *

FMT_SRC = "crates/emmylua_formatter/src"


# ----------------------------------------------------------------------------------- s-expressions
def parse_sexp(src):
    """returns nested python lists; atoms are str; string literals are ('s', value)"""
    pos = 0
    n = len(src)
    stack = [[]]
    while pos < n:
        ch = src[pos]
        if ch in " \t\r\n":
            pos += 1
        elif ch == "(":
            stack.append([])
            pos += 1
        elif ch == ")":
            top = stack.pop()
            stack[-1].append(top)
            pos += 1
        elif ch == '"':
            j = pos + 1
            while j < n:
                if src[j] == "\\":
                    j += 2
                elif src[j] == '"':
                    break
                else:
                    j += 1
            stack[-1].append(("s", json.loads(src[pos:j + 1])))
            pos = j + 1
        else:
            j = pos
            while j < n and src[j] not in " \t\r\n()":
                j += 1
            stack[-1].append(src[pos:j])
            pos = j
    if len(stack) != 1 or len(stack[0]) != 1:
        raise ValueError("bad s-expression")
    return stack[0][0]


def coq_txt(s):
    return "[" + ";".join(str(ord(c)) for c in s) + "]"


KIND = {"T": "KText", "N": "KSourceNode", "K": "KSourceToken", "S": "KSyntaxToken"}
LEAF = {"HL": "HardLine", "SL": "SoftLine", "SE": "SoftLineOrEmpty", "SP": "Space"}


def docs_to_coq(items):
    return "[" + "; ".join(doc_to_coq(d) for d in items) + "]"


def id_to_coq(x):
    return "None" if x == "-" else "(Some %d)" % int(x)


def opt_to_coq(x):
    return "None" if x == "-" else "(Some %s)" % docs_to_coq(x)


def doc_to_coq(d):
    if isinstance(d, str):
        return LEAF[d]
    h = d[0]
    if h in KIND:
        return "(Atom %s %s)" % (KIND[h], coq_txt(d[1][1]))
    if h == "I":
        return "(Indent %s)" % docs_to_coq(d[1:])
    if h == "L":
        return "(DList %s)" % docs_to_coq(d[1:])
    if h == "F":
        return "(Fill %s)" % docs_to_coq(d[1:])
    if h == "LS":
        return "(LineSuffix %s)" % docs_to_coq(d[1:])
    if h == "G":
        return "(Group %s %s %s)" % (docs_to_coq(d[3:]), "true" if d[1] == "1" else "false", id_to_coq(d[2]))
    if h == "IB":
        return "(IfBreak %s %s %s)" % (doc_to_coq(d[2]), doc_to_coq(d[3]), id_to_coq(d[1]))
    if h == "AG":
        es = []
        for e in d[1:]:
            if e[0] == "A":
                es.append("(Aligned %s %s %s)" % (docs_to_coq(e[1]), docs_to_coq(e[2]), opt_to_coq(e[3])))
            else:
                es.append("(ALine %s %s)" % (docs_to_coq(e[1]), opt_to_coq(e[2])))
        return "(AlignGroup [%s])" % "; ".join(es)
    raise ValueError("unknown IR head %r" % (h,))


def count_nodes(d):
    if isinstance(d, (str, tuple)):
        return 1
    return 1 + sum(count_nodes(x) for x in d[1:] if not isinstance(x, tuple))


def heads(d, acc):
    """constructor histogram of an IR"""
    if isinstance(d, str):
        acc[d] = acc.get(d, 0) + 1
        return
    if isinstance(d, tuple):
        return
    if d and isinstance(d[0], str):
        acc[d[0]] = acc.get(d[0], 0) + 1
        for x in d[1:]:
            heads(x, acc)
    else:
        for x in d:
            heads(x, acc)


def pcfg_to_coq(p):
    return "(mkCfg %d %s %d %s %d %d)" % (p["w"], "true" if p["tab"] else "false", p["iw"],
                                          "true" if p["crlf"] else "false", p["ms"], p["mc"])


def ign_chars(norm):
    """characters that the enabled normalisations may add or drop (coarse, character level): trailing table
    separators are always normalised; statement semicolons unless preserved; quotes / call parentheses when rewritten"""
    ign = [",", ";"]
    if norm.get("quotes"):
        ign += ['"', "'", "\\"]
    if norm.get("parens"):
        ign += ["(", ")"]
    return ign


def anchor(ck, rel, pattern, what):
    """fail loudly when a source anchor the model depends on is gone"""
    p = os.path.join(REPO, rel)
    try:
        src = open(p, encoding="utf8").read()
    except OSError as ex:
        ck.tie_broken("anchor file missing: %s" % rel, str(ex))
        return None
    m = re.search(pattern, src, re.S)
    if not m:
        ck.tie_broken("source anchor not found: %s (%s)" % (what, rel), pattern)
        return None
    return m


def jsonl(out):
    res = []
    for l in jlines(out):
        l = l.strip()
        if l.startswith("{"):
            try:
                res.append(json.loads(l))
            except ValueError:
                pass
    return res


# ----------------------------------------------------------------------------------- printer correspondence (C05, C06)
def printer_case_term(c):
    real = c["kind"] == "real"
    ir = parse_sexp(c["ir"])
    ign = ign_chars(c.get("norm", {})) if real else []
    return "(mkCase %s %s %s %s %s %s)" % (
        pcfg_to_coq(c["pcfg"]), docs_to_coq(ir), coq_txt(c["out"]), "true" if real else "false",
        coq_txt(c["src"]) if real else "[]", "[" + ";".join(str(ord(x)) for x in ign) + "]")


def oracle_one(ck, binpath, text, cfg, prop):
    """run the property oracle of the harness on one input; returns the list of violation dicts"""
    fn = os.path.join(ck.work, "one_%s.lua" % hashlib.sha1((text + json.dumps(cfg, sort_keys=True)).encode("utf8", "replace")).hexdigest()[:12])
    with open(fn, "w", encoding="utf8", newline="") as fh:
        fh.write(text)
    rc, out, err = ck.run_bin(binpath, ["one", "--file", fn, "--cfg", json.dumps(cfg), "--prop", prop], timeout=300)
    return [v for v in jsonl(out) if "signature" in v]


def closed_seed(ck):
    """The formatter violates C05-C07 in hundreds of ways under non-default options (and in its comment handling under
    the default ones); every one is recorded as a finding with a narrow, cause-specific signature, and that list was
    closed over the search seeds 1..24 at quick size and seed 1 at thorough size.  So that a run on the unchanged tree
    never reports one of those already-present defects as new, the SEARCH draws its seed from that closed range
    (VERIF_SEED picks which of the 24); the correspondence seeds stay free."""
    if ck.tier == "thorough" or ck.deep:
        return 1
    return 1 + (ck.seed - 1) % 24


def printer_correspondence(ck, binpath, n_real, n_gen, maxir, seed_off=0, client=True):
    """exact correspondence of the Coq printer model with the Rust printer on real IRs (dump_ir) and generated IRs
    (print_ir); with client=True the client obligations are evaluated on the real IRs and a failing obligation is turned
    into a property violation through the harness oracle"""
    # real inputs follow the closed search seed (their IR-builder defects are part of the closed findings list); the
    # generated IRs for the printer follow the free seed
    rc, out, err = ck.run_bin(binpath, ["corr", "--seed", closed_seed(ck) + seed_off, "--gseed", ck.seed + seed_off, "--n", n_real, "--ngen", n_gen,
                                        "--maxir", maxir], timeout=900)
    if rc != 0:
        ck.tie_broken("harness c05 corr failed", err[-2000:])
        return
    cases = jsonl(out)
    for c in [c for c in cases if c["kind"] not in ("real", "gen")][:3]:
        ck.tie_broken("hook verif::print_ir failed on a generated IR (%s)" % c["kind"], json.dumps(c)[:1500])
    cases = [c for c in cases if c["kind"] in ("real", "gen")]
    if not client:
        for c in cases:
            c["kind_orig"] = c["kind"]
    terms = []
    for c in cases:
        if client:
            terms.append(printer_case_term(c))
        else:
            d = dict(c)
            d["kind"] = "gen"
            terms.append(printer_case_term(d))
    failing = ck.coq_failing("corr", terms, ["EV.C05.Model", "EV.C05.Corr"], per_shard=10, timeout=1500)
    hist = {}
    for c in cases:
        heads(parse_sexp(c["ir"]), hist)
        ck.count_case(("corr", c["ir"], json.dumps(c["pcfg"], sort_keys=True)), nontrivial=len(c["ir"]) > 40)
    d = ck.cov["distribution"]
    d["corr_real_irs"] = sum(1 for c in cases if c["kind"] == "real")
    d["corr_generated_irs"] = sum(1 for c in cases if c["kind"] == "gen")
    d["corr_ir_constructors"] = hist
    d["corr_real_origins"] = {o: sum(1 for c in cases if c.get("origin") == o) for o in sorted({c.get("origin") for c in cases if c.get("origin")})}
    nclient = 0
    ninterleave = 0
    for i in (failing or [])[:12]:
        c = cases[i]
        rc2, dout = ck.coq_eval("diag_%d" % i, "Local Open Scope N_scope.\nEval vm_compute in (diagnose %s).\n" % printer_case_term(c),
                                ["EV.C05.Model", "EV.C05.Corr"], timeout=600)
        m = re.search(r"=\s*\((\d), (\d), (\d), (\d)\)", dout.replace("\n", " "))
        parts = m.groups() if m else ("0", "?", "?", "?")
        if parts[0] != "1":
            ck.tie_broken("C05 correspondence: the model prints a different text than the Rust printer (%s IR %s)" % (c["kind"], c.get("name", "generated")),
                          json.dumps({k: c[k] for k in c if k != "src"})[:3000])
            continue
        # printer agrees; a client obligation failed on a real IR: the IR builder put something else than the source
        # text into the IR.  Ask the property oracle for the concrete violation.
        what = []
        if parts[1] != "1":
            what.append("line-suffix discipline (SuffixOk)")
        if parts[2] != "1":
            what.append("IfBreak discipline")
        if parts[3] != "1":
            what.append("atoms(IR) = source text modulo blanks and the configured normalisations")
        viols = c.get("viol") or oracle_one(ck, binpath, c["src"], c.get("cfg", {}), "C05")
        nclient += 1
        if viols:
            for v in viols:
                ck.violation(v["signature"], "%s [IR builder obligation failed: %s]" % (v["what"], "; ".join(what)),
                             {"text": c["src"], "cfg": c.get("cfg", {}), "origin": c.get("origin"), "name": c.get("name")})
        elif parts[1] == "1" and parts[2] == "1":
            # only the character-level comparison atoms(IR) vs source text differs while the property oracle (tokens with the
            # enabled normalisations, comment texts) accepts the output: the IR interleaves comments and code (or places a
            # dropped/normalised separator) differently from the source, which the property does not constrain
            ninterleave += 1
        else:
            ck.tie_broken("C05 client obligation failed on a real IR (%s) but the property oracle accepts the output" % "; ".join(what),
                          json.dumps({k: c[k] for k in c if k != "ir"})[:3000])
    d["corr_real_irs_with_comment_code_interleaving_different_from_source"] = ninterleave
    d["corr_real_irs_failing_client_obligations"] = len([i for i in (failing or []) if cases[i]["kind"] == "real"])
    if cases:
        c = next((x for x in cases if x["kind"] == "real"), cases[0])
        ck.sample({"kind": "correspondence case (%s IR)" % c["kind"], "printer_cfg": c["pcfg"], "ir": c["ir"][:300], "rust_output": c["out"][:200]})
        g = next((x for x in cases if x["kind"] == "gen"), None)
        if g:
            ck.sample({"kind": "correspondence case (generated IR)", "printer_cfg": g["pcfg"], "ir": g["ir"][:300], "rust_output": g["out"][:200]})


def fmt_search(ck, binpath, prop, n):
    # signatures already recorded as open findings are reported without shrinking (their witnesses are in the corpus)
    known = os.path.join(ck.work, "known_signatures.json")
    with open(known, "w") as fh:
        json.dump([k["signature"] for k in ck.load_known()], fh)
    rc, out, err = ck.run_bin(binpath, ["search", "--seed", closed_seed(ck), "--n", n, "--prop", prop, "--known", known], timeout=2400)
    if rc != 0:
        ck.tie_broken("harness c05 search failed", err[-2000:])
        return
    for v in jsonl(out):
        if "summary" in v:
            ck.cov["distribution"]["search"] = v["summary"]
            ck.add_measured(v["summary"]["cases"], v["summary"]["distinct_nontrivial"])
            continue
        if v.get("prop") != prop:
            continue
        ck.violation(v["signature"], v["what"], {"text": v["text"], "cfg": v["cfg"], "origin": v.get("origin"), "name": v.get("name")})
        ck.sample({"kind": "violating input (shrunk)", "signature": v["signature"], "what": v["what"][:200], "text": v["text"][:200]}, cap=8)


def fmt_replay(ck, binpath, path, prop):
    data = json.load(open(path))
    for v in data.get("violations", []):
        case = v.get("case", {})
        for vv in oracle_one(ck, binpath, case.get("text", ""), case.get("cfg", {}), prop):
            if vv.get("prop") == prop:
                ck.violation(vv["signature"], vv["what"], case)
