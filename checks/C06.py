from fmt_common import *

META = {
    "category": "proof",
    "text": 'Alignment kernel and printer kernel proved, the IR builder checked per run (not proved). Theorems: the column alignment of doc-comment tag lines (widths and padding of apply_alignment) is a fixpoint on its own output and only inserts spaces (align_idempotent, align_only_adds_spaces); the layout decisions of the printer depend only on the widths of the atoms, not on their text (print_stable: two IRs of the same shape whose atoms have the same byte width, the same width after their last newline and the same emptiness produce the same sequence of layout events for every configuration). Idempotence of the whole pipeline additionally needs "the IR built from the printed text has the same layout skeleton as the IR it was printed from", a property of parser + IR builder that is checked on real runs, not proved. Tie: the alignment kernel against the real formatter on generated tag blocks with known columns; the printer model against the Rust printer (exact, real and generated IRs). Search: fmt(fmt x) = fmt x on the C05 input space (generated programs, mutated std files, the bundled std annotations, code fences in doc comments, lines near the width limit) x generated configurations.',
    "note": 'Trusted: Coq kernel; hand models (validated by exact correspondence, not proved equal to the Rust); hook H4. NOT covered by theorems: re-extraction of columns from the syntax tree (extract_columns), comment re-rendering, and the whole IR builder; non-idempotence found there is listed as findings by class of difference. Axioms: none.',
    "technique": "Coq proof (list induction; lock-step simulation of two printer runs over a depth budget) about hand-written Gallina transcriptions + exact model-vs-implementation correspondence + metamorphic search fmt(fmt x) = fmt x",
}

THEOREMS = [("align_idempotent", "theorem"), ("align_only_adds_spaces", "theorem"), ("print_stable", "theorem"),
            ("output_is_rendered_events", "theorem"), ("stable_example", "example"), ("align_example", "example")]

TRUSTED = [
    "Coq 8.16.1 kernel (coqc), vm_compute used in Examples and in the correspondence evaluation; no native_compute",
    "axioms: none (Print Assumptions: Closed under the global context for every theorem)",
    "hand-written models coq/theories/C06/Model.v (apply_alignment of formatter/render/comments_ast.rs) and coq/theories/C05/Model.v (printer); "
    "tied by correspondence checks (harness vh_fmt/src/bin/c05.rs sub-commands align and corr; coq/theories/C06/Corr.v, C05/Corr.v)",
    "modelling assumptions: a &str is the list of its chars, widths are UTF-8 byte lengths",
    "the IR builder / column extraction is NOT modelled: pipeline idempotence is searched (fmt(fmt x) = fmt x), not proved",
]


def align_case(c):
    rows = "[" + ";".join("[" + ";".join(coq_txt(x) for x in r) + "]" for r in c["rows"]) + "]"
    lines = "[" + ";".join(coq_txt(l) for l in c["lines"]) + "]"
    return "(mkCase %s %s %s)" % (coq_txt("---@"), rows, lines)


def align_correspondence(ck, binpath, n):
    rc, out, err = ck.run_bin(binpath, ["align", "--seed", ck.seed, "--n", n], timeout=600)
    if rc != 0:
        ck.tie_broken("harness c05 align failed", err[-2000:])
        return
    cases = jsonl(out)
    failing = ck.coq_failing("align", [align_case(c) for c in cases], ["EV.C06.Model", "EV.C06.Corr"], per_shard=40, timeout=900)
    for c in cases:
        ck.count_case(("align", json.dumps(c["rows"])), nontrivial=len(c["rows"]) > 1)
        if not c.get("idempotent", True):
            for v in oracle_one(ck, binpath, c["text"], {}, "C06"):
                if v.get("prop") == "C06":
                    ck.violation(v["signature"], "aligned tag block changes on the second pass: " + v["what"], {"text": c["text"], "cfg": {}})
    ck.cov["distribution"]["align_blocks"] = len(cases)
    for i in (failing or [])[:5]:
        ck.tie_broken("C06 alignment correspondence: the model pads the columns differently from apply_alignment", json.dumps(cases[i])[:2000])
    if cases:
        ck.sample({"kind": "alignment case", "rows": cases[0]["rows"], "formatter_lines": cases[0]["lines"]})


def main(argv):
    ck = Check("C06", argv)
    bins = ck.build_harness("vh_fmt", ["c05"])
    if ck.replay and bins:
        fmt_replay(ck, bins["c05"], ck.replay, "C06")
        ck.finish(trusted_base=TRUSTED)
    anchor(ck, FMT_SRC + "/formatter/render/comments_ast.rs", r"fn apply_alignment\(.*?widths\[i\] = widths\[i\]\.max\(c\.len\(\)\).*?widths\[i\]\.saturating_sub\(col\.len\(\)\)",
           "apply_alignment computes column widths as maxima and pads with widths[i] - col.len() spaces")
    ok = ck.coq_make(["theories/C06/Props.vo", "theories/C06/Corr.vo", "theories/C05/Corr.vo"])
    if ok:
        ck.coq_gates(["C05", "C06"], THEOREMS, "EV.C06.Props")
    if bins:
        if ok or os.path.exists(os.path.join(COQ, "theories/C06/Corr.vo")):
            align_correspondence(ck, bins["c05"], ck.scale(120, 2000))
            printer_correspondence(ck, bins["c05"], ck.scale(16, 200), ck.scale(80, 2000), ck.scale(20000, 100000), seed_off=606, client=False)
        if ck.broken:
            ck.deep = True
        fmt_search(ck, bins["c05"], "C06", ck.scale(500, 10000))
    ck.finish(
        trusted_base=TRUSTED,
        rule="alignment tie: generated @param/@field blocks of 2-5 lines with known columns (names, types with spaces and generics, optional "
             "descriptions, irregular source spacing); printer tie as in C05 with another seed; search: formatter applied twice on corpus "
             "witnesses, the 20 bundled std files, mutated std files and generated programs, at least half of them under the default configuration, the rest under generated configurations; distinct by (text, "
             "configuration); non-trivial = text longer than 20 bytes / block of more than one line",
        assumptions=["correspondence and search are sampled; the theorems carry the all-inputs claim for the two kernels only",
                     "idempotence of the IR builder + parser round trip is not proved; its failures are reported by class (where: code / comment / doc-tag; how: content / line-breaks / blank-lines / indent / spacing)"])
