import json
from vcheck import *
import c29_c30_anchors as A
from c28_locks import TranslateError as T_ERR

META = {
    "category": "proof",
    "text": 'The workspace reload (apply_workspace_reload: snapshot of the open files and their version under the workspace-manager write '
            'lock; clear; init_analysis loading disk files with the snapshot texts overriding and dropping files that are neither on disk nor '
            'in the snapshot; the version loop of sync_reloaded_open_files that re-reads the open files until the version it applied is the '
            'current one, restoring closed files from disk; reloads serialised by reload_lock/reload_generation) is modelled in Coq as a '
            'labelled transition system interleaved section by section with the inline didOpen/didChange/didClose handlers. Theorem '
            'reload_converges: for every disk, every notification list, any number of reload requests and EVERY interleaving, at quiescence '
            'the editor texts are the message-order result, every open workspace file is analysed with its latest editor text and every '
            'closed file holds its disk content or is absent when not on disk -- by the invariant "a stale uri is covered by the running '
            'handler or by a reload stage" (stale_is_covered); plus progress and a decreasing measure (every execution with finitely many '
            'reload requests reaches quiescence). The facts the model depends on are re-read from the source on every run (sync_open_file / close_open_file bump the version on EVERY call; section order of the handlers and of the reload) and re-proved as obligations (C29/Today.v); bump_only_new_refuted shows what is lost otherwise. Generated histories (edits before, across and after a reload request aimed at the 2 s '
            'debounce; on-disk and virtual documents; a ballast workspace so that the reload takes time) are run against the real in-process '
            'server and the quiescent editor text and analysed text per uri are compared with the model\'s prediction.',
    "note": 'Trusted: Coq kernel; the hand model of the reload and of the three handlers (validated by the correspondence on sampled schedules, '
            'not proved equal to the Rust); disk static during a history; watched-file events for documents are outside this model. Axioms: none.',
    "technique": "Coq proof (inductive invariant over all schedules of an LTS + termination measure) + model-vs-implementation correspondence at "
                 "quiescence on the real in-process server + oracle search with reloads overlapping edits",
}

THEOREMS = [("reload_converges", "theorem"), ("stale_is_covered", "theorem"), ("reload_progress", "theorem"),
            ("reload_terminates", "theorem"), ("bump_only_new_refuted", "refutation"), ("reload_example", "example")]
TODAY_THEOREMS = [("today_version_bumped_on_every_sync", "table"), ("today_section_order", "table"), ("today_reload_converges", "theorem")]
FACT_TEXT = {'sync_bumps_always': "WorkspaceManager::sync_open_file no longer bumps open_file_state_version on every call (the reload's version loop cannot see edits of already open documents: bump_only_new_refuted)", 'close_bumps_always': 'WorkspaceManager::close_open_file no longer bumps open_file_state_version on every call', 'handler_sections_ok': 'the didOpen/didChange/didClose handlers no longer update the editor texts before the analysis', 'reload_sections_ok': 'apply_workspace_reload / sync_reloaded_open_files no longer have the modelled section order (snapshot, clear, init, version loop)'}
SIGS = {"open-stale", "closed-not-disk", "closed-not-absent", "editor-text-wrong"}
TRUSTED = [
    "Coq 8.16.1 kernel (coqc); vm_compute only in the Example and in the correspondence evaluation",
    "axioms: none (Print Assumptions: Closed under the global context for every theorem)",
    "hand-written model coq/theories/C29/Model.v of context/workspace_manager.rs (spawn_workspace_reload_task, apply_workspace_reload, "
    "sync_reloaded_open_files, apply_open_file_sync, sync_open_file/close_open_file), handlers/initialized/mod.rs::init_analysis + "
    "EmmyLuaAnalysis::reload_workspace_files, and handlers/text_document/text_document_handler.rs (one model step per lock-protected section); "
    "tied by the correspondence (harness vh_ls/src/bin/c29.rs + coq/theories/C29/Corr.v)",
    "modelling assumptions: uris range over workspace files; the disk is static during a history; document notifications are handled inline "
    "(C27); reloads are serialised (reload_lock) and a superseded request is skipped (reload_generation); each lock-protected section is "
    "atomic (C28: the locks are taken in a deadlock-free order); the didClose re-read that finds the text unchanged is the same as writing it",
    "lexical anchors lib/c29_c30_anchors.py -> Gen/C29_Sync.v (when the version is bumped; section order), re-proved in C29/Today.v",
    "hook (cfg-gated, absent from normal builds): verif_serve, verif/docState (editor text and analysed text per uri, answered inline)",
]


def to_case(c):
    disk, obs = [], []
    for i, d in enumerate(c["docs"]):
        if d["kind"] == "D":
            disk.append("(%d, 0)" % i)
    hist = []
    for h in c["hist"]:
        if h[0] in ("open", "change"):
            hist.append("(true, %d, %d)" % (h[1] % len(c["docs"]), h[2]))
        elif h[0] == "close":
            hist.append("(false, %d, 0)" % (h[1] % len(c["docs"])))
    for i, o in enumerate(c["obs"]):
        obs.append("(%d, (%s, %s))" % (i, coq_opt(o["open"]), coq_opt(o["analysed"])))
    return "{| n_disk := %s; n_hist := %s; n_obs := %s |}" % (coq_list(disk), coq_list(hist), coq_list(obs))


def run(ck, binpath, mode, n):
    corpus = os.path.join(VERIF, "corpus", "C29", "histories.jsonl")
    rc, out, err = ck.run_bin(binpath, [mode, "--seed", ck.seed + (0 if mode == "search" else 1000), "--n", n, "--dir", ck.work, "--corpus", corpus],
                              timeout=ck.scale(900, 3000))
    if rc != 0:
        ck.tie_broken("harness c29 %s failed (rc=%s)" % (mode, rc), (err or "")[-2000:])
        return []
    return [json.loads(l) for l in jlines(out) if l.strip().startswith("{")]


def main(argv):
    ck = Check("C29", argv)
    bins = ck.build_harness("vh_ls", ["c29"])
    if ck.replay and bins:
        data = json.load(open(ck.replay))
        for v in data.get("violations", []):
            c = v.get("case", {})
            rc, out, err = ck.run_bin(bins["c29"], ["one", "--case-json", json.dumps({"docs": c.get("docs", []), "hist": c.get("hist", [])}),
                                                    "--dir", ck.work, "--repeat", 3], timeout=900)
            for l in jlines(out):
                if l.strip().startswith("{") and '"signature"' in l:
                    vv = json.loads(l)
                    ck.violation(vv["signature"], vv["what"], vv["case"])
        ck.finish(trusted_base=TRUSTED)
    # facts of today's source that the model depends on (regenerated on every run)
    facts = None
    try:
        facts = A.c29_facts(REPO)
        A.write_c29(facts, os.path.join(COQ, "theories", "Gen", "C29_Sync.v"), REPO)
        ck.cov["distribution"]["source_anchors"] = {k: v for k, v in facts.items() if isinstance(v, bool)}
        if "sites" in facts:
            ck.cov["distribution"]["clear_sites"] = ["%s:%d %s" % (q, l, "ok" if o else "BEFORE-REMOVAL") for q, l, o in facts["sites"]]
        for k, v in facts.items():
            if isinstance(v, bool):
                ck.cov["obligations"] += 1
                if v:
                    ck.cov["discharged"] += 1
                else:
                    ck.proof_broken("today's source breaks an assumption of the C29 model: " + FACT_TEXT.get(k, k), json.dumps(facts, default=str)[:2000])
    except (A.AnchorError, T_ERR) as ex:
        ck.tie_broken("source anchors of the C29 model not found: %s" % ex)
    ok = ck.coq_make(["theories/C29/Props.vo", "theories/C29/Corr.vo"])
    if ok:
        ck.coq_gates(["C29"], THEOREMS, "EV.C29.Props")
    if ok and facts is not None and ck.coq_make(["theories/C29/Today.vo"]):
        ck.coq_gates([], TODAY_THEOREMS, "EV.C29.Today")
    if bins:
        if ok or os.path.exists(os.path.join(COQ, "theories/C29/Corr.vo")):
            cases = [c for c in run(ck, bins["c29"], "corr", ck.scale(5, 40)) if "obs" in c]
            failing = ck.coq_failing("corr", [to_case(c) for c in cases], ["Coq.Lists.List", "Coq.NArith.NArith", "EV.C29.Model", "EV.C29.Corr"], check_fn="check_caseN", case_type="caseN",
                                     prelude="Import ListNotations.")
            for i in failing or []:
                ck.tie_broken("model/implementation disagreement at quiescence (C29)", json.dumps(cases[i])[:3000])
            for c in cases:
                ck.count_case(("corr", json.dumps([c["docs"], c["hist"]])), nontrivial=any(h[0] == "reload" for h in c["hist"]))
            if cases:
                ck.sample({"kind": "correspondence case", "docs": cases[-1]["docs"], "hist": cases[-1]["hist"], "obs": cases[-1]["obs"]})
            ck.cov["distribution"]["corr_histories"] = len(cases)
        if ck.broken:
            ck.deep = True
        for v in run(ck, bins["c29"], "search", ck.scale(6, 60)):
            if "summary" in v:
                ck.cov["distribution"]["search"] = v["summary"]
                ck.add_measured(v["summary"]["histories"], v["summary"]["distinct_nontrivial"])
            elif v.get("signature") in SIGS:
                ck.violation(v["signature"], v["what"], v["case"])
    ck.finish(
        trusted_base=TRUSTED,
        rule="two shapes. (a) all documents open, a reload request, then (wire-order trick: the client does not answer the reload's progress-create request yet) 1-4 change/close of those open documents, then the answer; (b) histories over 1-4 fresh documents (on disk with text 0 / virtual): 0-4 edits, a reload request (.emmyrc.json watched event; "
             "sometimes two), a pause aimed at the server's 2 s reload debounce (1850-2150 ms), then 2-12 open/change/close with 0-60 ms gaps "
             "while the reload of a 150-file ballast workspace runs; observation at quiescence through verif/docState; every history contains a "
             "reload (non-trivial); distinct by (docs, history)",
        assumptions=["the real schedule of a history is not controlled (timing aimed at the reload window); the all-schedules claim is carried by the theorem",
                     "disk static during a history"])
