import json
from vcheck import *
import ls_dispatch_common as D

META = {
    "category": "proof",
    "text": 'The handling of didOpen / didChange / didClose is modelled in Coq as a labelled transition system: the main loop dequeues '
            'notifications in order and runs a handler inline or spawns it, according to the sync/async lists of dispatch_notification! '
            '(regenerated from the source on every run); handlers are programs of lock-protected steps on the editor text and the analysed '
            'text per uri. Theorems: with open/change/close inline, for EVERY notification sequence and EVERY interleaving with the other '
            'spawned handlers, at quiescence the state is exactly the message-order result — every document holds the text of its last '
            'notification, a document closed last is closed (and gone from the analysis when not on disk); every schedule terminates; with '
            'didOpen spawned (the table before the repair) a 2-task schedule ends on the stale didOpen text. The one other task that writes '
            'document texts, a workspace reload, is covered by the reload LTS of C29/Model.v: its convergence theorem is instantiated with the '
            '"sync_open_file bumps the open-documents version on every call" fact regenerated from the source (table obligation), so an edit '
            'that lands between the reload snapshot and its re-index still wins. Generated histories over '
            'several documents (in/outside the workspace, on disk or not, rapid open/change/close/re-open) are run against the real server '
            'and the final editor text, analysed text and documentSymbol per uri compared with the model; reload histories place the edits inside '
            'the reload window deterministically by holding the reload\'s progress request back.',
    "note": 'Trusted: Coq kernel; the hand model of the three handlers (validated by trace validation, not proved equal to the Rust); the '
            'syntactic translators; requests, diagnostics, didSave and watched-files tasks are modelled as not writing document texts; the workspace '
            'reload is modelled by C29/Model.v (imported, not re-proved here). '
            'Axioms: none.',
    "technique": "Coq proof (invariant over all schedules of an LTS, refutation witness for the spawned-didOpen table) + regenerated "
                 "sync/async notification table + trace validation against the real in-process server + oracle search",
}

THEOREMS = [("today_all_inline", "table"), ("today_version_bumps", "table"), ("inline_in_order", "theorem"), ("today_in_order", "theorem"),
            ("schedules_terminate", "theorem"), ("last_text_wins_across_reload", "theorem"),
            ("spawned_open_refuted", "refutation"), ("bump_only_new_refuted", "refutation"), ("inline_example", "example")]

TRUSTED = [
    "Coq 8.16.1 kernel (coqc); vm_compute only in the Example, the refutation witness, the table obligation and the trace-validation evaluation",
    "axioms: none (Print Assumptions: Closed under the global context for every theorem)",
    "hand-written model coq/theories/C27/Model.v of handlers/notification_handler.rs (dispatch) and "
    "handlers/text_document/text_document_handler.rs (on_did_open/change/close: one model step per lock-protected section), "
    "WorkspaceManager::sync_open_file/close_open_file, EmmyLuaAnalysis::update_file_by_uri/remove_file_by_uri; tied by trace validation "
    "(harness vh_ls/src/bin/c27.rs + coq/theories/C27/Corr.v)",
    "translator checks/ls_dispatch_common.py (regex reader of the dispatch_notification! sync:/async: lists and of the macro arms: "
    "sync = awaited inline, async = tokio::spawn); its output Gen/C27_Notify.v is what the theorems are checked against",
    "modelling assumptions: uris are file uris; is_workspace_file, file existence and module membership are static during a history; requests, "
    "diagnostics, didSave and watched-files tasks do not write document texts; every handler step terminates (lock freedom is C28)",
    "the workspace reload (snapshot / clear / re-index / version loop) interleaved with the handlers is the LTS coq/theories/C29/Model.v with "
    "its proof C29/Proofs.v (another property's files, imported); the bump rule it is instantiated with comes from Gen/C27_Sync.v, regenerated "
    "on every run with the reader lib/c29_c30_anchors.py",
    "hook (cfg-gated, absent from normal builds): verif_serve, verif/docState (editor text and analysed text per uri, answered inline)",
]


def case_terms(c):
    docs = c["docs"]
    ws = [i for i, d in enumerate(docs) if d["kind"] in ("V", "D")]
    disk = [i for i, d in enumerate(docs) if d["kind"] in ("D", "O")]
    init = ["(%d, %d)" % (i, o["init_vfs"]) for i, o in enumerate(c["obs"]) if o["init_vfs"] is not None]
    hist = []
    for h in c["hist"]:
        op = h[0]
        if op == "open":
            hist.append("NOpen %d %d" % (h[1], h[2]))
        elif op == "change":
            hist.append("NChange %d (Some %d)" % (h[1], h[2]))
        elif op == "change0":
            hist.append("NChange %d None" % h[1])
        elif op == "close":
            hist.append("NClose %d" % h[1])
        else:
            hist.append("NOther false 1%nat")
    obs = ["(%d, (%s, %s))" % (i, coq_opt(o["open"]), coq_opt(o["vfs"])) for i, o in enumerate(c["obs"])]
    reload = "true" if any(h[0] == "reload" for h in c["hist"]) else "false"
    return "{| k_ws := %s; k_disk := %s; k_disk_txt := 0; k_init := %s; k_reload := %s; k_hist := %s; k_obs := %s |}" % (
        coq_list([str(x) for x in ws]), coq_list([str(x) for x in disk]), coq_list(init), reload, coq_list(hist), coq_list(obs))


PRELUDE = "Import ListNotations.\nLocal Open Scope N_scope.\nLocal Open Scope list_scope.\n"
REQS = ["Coq.Lists.List", "Coq.NArith.NArith", "EV.C27.Model", "EV.C27.Corr"]


def nontrivial(hist):
    cnt = {}
    for h in hist:
        if h[0] in ("open", "change", "close"):
            cnt[h[1]] = cnt.get(h[1], 0) + 1
    return any(v >= 2 for v in cnt.values())


def shape(c):
    return ("".join(d["kind"] for d in c["docs"]), tuple((h[0], h[1] if len(h) > 1 else None) for h in c["hist"]))


def correspondence(ck, binpath, n, corpus):
    args = ["corr", "--seed", ck.seed, "--n", n, "--dir", ck.work, "--reloads", ck.scale(4, 40)]
    if corpus:
        args += ["--corpus", corpus]
    rc, out, err = ck.run_bin(binpath, args, timeout=1500)
    if rc != 0:
        ck.tie_broken("harness c27 corr failed (rc=%s)" % rc, err[-3000:])
        return
    cases = []
    for l in jlines(out):
        if not l.strip():
            continue
        v = json.loads(l)
        if "summary" in v:
            ck.cov["distribution"]["corr"] = v["summary"]
        elif "hist" in v:
            cases.append(v)
    terms = [case_terms(c) for c in cases]
    failing = ck.coq_failing("corr", terms, REQS, prelude=PRELUDE, per_shard=10)
    for c in cases:
        ck.count_case(("corr",) + shape(c), nontrivial=nontrivial(c["hist"]))
    if failing:
        for i in failing[:10]:
            ck.tie_broken("model/implementation disagreement on the final document state of a notification history", json.dumps(cases[i])[:3000])
    # the hook probe and the property's own observation point (documentSymbol) must tell the same story
    for c in cases:
        for i, o in enumerate(c["obs"]):
            want = None if o["vfs"] is None else ["t%d" % o["vfs"]]
            if o["sym"] != want:
                ck.tie_broken("documentSymbol disagrees with the analysed text reported by the hook probe",
                              json.dumps({"doc": i, "obs": o, "case": c})[:2000])
                break
    if cases:
        c = cases[min(len(cases) - 1, 40)]
        ck.sample({"kind": "history validated against the real in-process server", "docs": c["docs"], "hist": c["hist"], "final_state": c["obs"]})


def search(ck, binpath, n, corpus):
    args = ["search", "--seed", ck.seed, "--n", n, "--dir", ck.work, "--reloads", ck.scale(5, 60)]
    if corpus:
        args += ["--corpus", corpus]
    rc, out, err = ck.run_bin(binpath, args, timeout=3000)
    if rc != 0:
        ck.tie_broken("harness c27 search failed (rc=%s)" % rc, err[-3000:])   # partial output is still used below
    for l in jlines(out):
        if not l.strip():
            continue
        try:
            v = json.loads(l)
        except ValueError:
            continue
        if "summary" in v:
            ck.cov["distribution"]["search"] = v["summary"]
            ck.add_measured(v["summary"]["cases"], v["summary"]["distinct_nontrivial"])
        elif "signature" in v:
            ck.violation(v["signature"], v["what"], v["case"])


def replay(ck, binpath, path):
    data = json.load(open(path))
    for v in data.get("violations", []):
        case = v.get("case", {})
        if "hist" not in case:
            continue
        rc, out, err = ck.run_bin(binpath, ["one", "--case-json", json.dumps({"docs": case["docs"], "hist": case["hist"]}),
                                            "--dir", ck.work, "--repeat", 20], timeout=600)
        for l in jlines(out):
            if l.strip():
                vv = json.loads(l)
                if "signature" in vv:
                    ck.violation(vv["signature"], vv["what"], vv["case"])


def main(argv):
    ck = Check("C27", argv)
    table = None
    try:
        table = D.gen_c27()
        sync = D.gen_c27_sync()
        ck.cov["table_obligations"] = ["sync (inline): %s" % table["sync"], "async (spawned): %s" % table["async"],
                                       "open-documents version: %s" % {k: sync[k] for k in ("sync_bumps_always", "close_bumps_always", "handler_sections_ok", "reload_sections_ok")}]
    except D.Anchor as ex:
        ck.tie_broken("translator anchor missing: %s" % ex, "checks/ls_dispatch_common.py could not regenerate Gen/C27_Notify.v")
    corpus = os.path.join(VERIF, "corpus", "C27", "witnesses.json")
    corpus = corpus if os.path.exists(corpus) else None
    bins = ck.build_harness("vh_ls", ["c27"])
    if ck.replay and bins:
        replay(ck, bins["c27"], ck.replay)
        ck.finish(trusted_base=TRUSTED)
    ok = ck.coq_make(["theories/C27/Props.vo", "theories/C27/Corr.vo"])
    if ok:
        D.gate_files(ck, ["Base/LTS.v", "Gen/C27_Notify.v", "Gen/C27_Sync.v", "C29/Model.v", "C29/Proofs.v"])
        ck.coq_gates(["C27"], THEOREMS, "EV.C27.Props")
    if bins:
        if ok or os.path.exists(os.path.join(COQ, "theories/C27/Corr.vo")):
            correspondence(ck, bins["c27"], ck.scale(110, 800), corpus)
        if ck.broken:
            ck.deep = True
        search(ck, bins["c27"], ck.scale(150, 1800), corpus)
    ck.finish(
        trusted_base=TRUSTED,
        rule="(a) histories of 2-10 notifications sent without waiting to one real server over 1-3 fresh documents (in the workspace and not on "
             "disk / on disk, outside the workspace on disk / not on disk): didOpen, didChange (full text, or empty contentChanges), didClose, "
             "re-open, plus didSave and $/setTrace in between; mostly protocol-conformant (open first), 10% not; after quiescence the editor text "
             "and analysed text per uri (hook probe) and documentSymbol are read; (b) reload histories: 1-2 documents are opened, a workspace "
             "reload is triggered (.emmyrc.json changed event), the client holds the reload's work-done-progress request back — i.e. the reload "
             "sits between its open-files snapshot and its re-index — while 1-3 more notifications arrive (mostly edits of ALREADY OPEN "
             "documents, also close / re-open), then releases it (1 in 5 without the hold, as a pure race). Non-trivial = at least two effectful notifications about the "
             "same document; distinct by document kinds and the (operation, document) sequence",
        assumptions=["trace validation and search are sampled; the theorems carry the all-histories / all-schedules claim",
                     "quiescence on the real server is detected by two consecutive identical state probes 40 ms apart"])
