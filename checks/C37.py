"""C37 — doc-comment markup highlighting is total and in bounds.

Proof: the emission kernel of crates/emmylua_parser_desc (Reader op machine, emit/emit_range with coalescing,
sort_result, desc_to_lines) — coq/theories/C37.  Tie: exact correspondence of the model with the real `Reader`,
`ResultContainer::emit/emit_range`, `BacktrackPoint`, `sort_result`, `desc_to_lines`.  Search (exploration of the three
markup grammars, which are clients of the kernel and are not modelled): generated comments x Md/MyST/RST x cursors through
`emmylua_parser_desc::parse` under catch_unwind with a watchdog."""
import json
from vcheck import *
import c37_classes

META = {
    "category": "proof",
    "text": "Theorems about the Gallina transcription of the emission kernel every description parser goes through, for ALL texts, "
            "regions and client programs (arbitrary sequences of Reader operations, clones/rollbacks, sub-readers, emit/emit_range, "
            "truncations): every range a reader reports and every item emitted (coalescing included) lies inside the description "
            "region on character boundaries with start <= end; the kernel's own operations never panic; desc_to_lines never panics and "
            "its lines lie inside the description; sort_result yields a sorted permutation (so sorted by start) that stays in bounds. "
            "The Markdown / MyST / reStructuredText grammars themselves (clients of the kernel) are NOT modelled: their totality "
            "(panics, asserts, hangs) is explored by the search only.",
    "note": "Trusted: Coq kernel; the hand model (validated by exact correspondence on generated op sequences, real description token "
            "lists and item lists, not proved equal to the Rust); usize arithmetic modelled as unbounded N. Axioms: none. "
            "The grammars' own code (3.5 kLoC: asserts such as emit_mark_end's, index arithmetic on line arrays) is covered by the "
            "search only, under catch_unwind with a hang watchdog.",
    "technique": "Coq proof (API-generic invariant over all client programs of a state machine) about a hand-written Gallina transcription "
                 "+ exact model-vs-implementation correspondence + oracle search on the real parsers",
}

THEOREMS = [("reader_range_in_bounds", "theorem"), ("sub_reader_in_parent", "theorem"), ("eat_loops_complete", "theorem"),
            ("emit_range_in_bounds", "theorem"), ("emitted_items_in_bounds", "theorem"), ("kernel_never_panics", "theorem"),
            ("is_ws_chars_one_byte", "table"), ("ascii_ws_chars_one_byte", "table"),
            ("desc_lines_in_desc", "theorem"), ("sort_result_sorted", "theorem"), ("sort_result_starts_sorted", "theorem"),
            ("sort_result_permutation", "theorem"), ("sort_result_in_bounds", "theorem"),
            ("machine_example", "example"), ("nul_is_not_eof_example", "example"), ("desc_lines_example", "example"),
            ("sort_example", "example")]

TRUSTED = [
    "Coq 8.16.1 kernel (coqc), vm_compute used in Examples and in the correspondence evaluation; no native_compute",
    "axioms: none (Print Assumptions: Closed under the global context for every theorem)",
    "hand-written model coq/theories/C37/{ReaderModel,Model}.v of crates/emmylua_parser/src/text/reader.rs and "
    "crates/emmylua_parser_desc/src/util.rs (emit_range, emit, BacktrackPoint, sort_result, desc_to_lines); tied by the "
    "correspondence check (harness vh_parser/src/bin/c37.rs + coq/theories/C37/Corr.v)",
    "modelling assumptions: a &str is the list of its chars; usize is unbounded N; slice::sort_by_key (stable) = stable insertion sort; "
    "the description node's tokens are the list (kind, start, len) the harness reads off the rowan tree",
    "the markup grammars (markdown/mod.rs, markdown_rst/mod.rs, lang/*) are not modelled; their use of the kernel API is what the "
    "theorems quantify over, their own assertions and loops are explored by the search",
    "hook commits ec5f1df, 4804714 (cfg-gated re-export of desc_to_lines, sort_result, BacktrackPoint, is_ws, is_blank)",
    "translator lib/c37_classes.py: the code points of util::is_ws read off its `matches!` patterns (anchor checks on is_blank and on the "
    "chars-counted / bytes-stripped indentation code of desc_to_lines); validated on every run against the extension of the real "
    "predicates over all Unicode scalar values (harness `c37 classes`)",
]

TK = {0: "TDetail", 1: "TEol", 2: "TNormalStart", 3: "TContinue", 4: "TOther"}


def opt_n(x):
    return "None" if x is None else "(Some %d)" % x


def tok(t):
    return "{| t_kind := %s; t_start := %d; t_len := %d |}" % (TK[t[0]], t[1], t[2])


def triple(t):
    return "(%d, %d, %d)" % tuple(t)


def op_term(o):
    k = o[0]
    if k == "new":
        return "ONew %d %d" % (o[1], o[2])
    if k == "r":
        i = o[1]
        if o[2] == "bump":
            return "OR %d RBump" % i
        if o[2] == "reset":
            return "OR %d RReset" % i
        if o[2] == "eatw":
            return "OR %d (REatWhile (pred_of %d %d))" % (i, o[3], o[4])
        if o[2] == "consn":
            return "OR %d (RConsumeN (pred_of %d %d) %d)" % (i, o[3], o[4], o[5])
    if k == "clone":
        return "OClone %d" % o[1]
    if k == "restore":
        return "ORestore %d %d" % (o[1], o[2])
    if k == "sub":
        return "OSub %d" % o[1]
    if k == "emit":
        return "OEmit %d %d" % (o[1], o[2])
    if k == "span":
        return "OEmitSpan %d %d %d" % (o[1], o[2], o[3])
    if k == "tail":
        return "OEmitTail %d %d" % (o[1], o[2])
    if k == "trunc":
        return "OTruncate %d" % o[1]
    raise ValueError(o)


def case_to_coq(c):
    if c["k"] == "m":
        steps = ["(%s, %s)" % (coq_list([op_term(o) for o in st["ops"]]), coq_list([str(x) for x in st["obs"]])) for st in c["steps"]]
        return "CM {| mc_text := %s; mc_cursor := %s; mc_steps := %s; mc_results := %s; mc_sorted := %s |}" % (
            coq_list([str(x) for x in c["t"]]), opt_n(c["cursor"]), coq_list(steps),
            coq_list([triple(t) for t in c["results"]]), coq_list([triple(t) for t in c["sorted"]]))
    if c["k"] == "d":
        lines = "Panic" if c["lines"] == "P" else "(Val %s)" % coq_list(["(%d, %d)" % tuple(l) for l in c["lines"]])
        prev = "None" if c["prev"] is None else "(Some %s)" % tok(c["prev"])
        return "CD {| dc_text := %s; dc_prev := %s; dc_toks := %s; dc_cursor := %s; dc_lines := %s |}" % (
            coq_list([str(x) for x in c["t"]]), prev, coq_list([tok(t) for t in c["toks"]]), opt_n(c["cursor"]), lines)
    return "CS {| sc_items := %s; sc_sorted := %s |}" % (
        coq_list([triple(t) for t in c["items"]]), coq_list([triple(t) for t in c["sorted"]]))


GEN = os.path.join(COQ, "theories", "Gen", "C37_Classes.v")


def translate(ck):
    """regenerate Gen/C37_Classes.v from util.rs; the theorems Require it"""
    try:
        tables = c37_classes.generate(REPO, GEN)
    except Exception as ex:
        ck.tie_broken("translator lib/c37_classes.py: anchor missing in crates/emmylua_parser_desc/src/util.rs", repr(ex))
        return None
    ck.cov["table_obligations"].append({"name": "Gen/C37_Classes.v", "is_ws_chars": tables["is_ws"],
                                        "obligations": ["is_ws_chars_one_byte", "ascii_ws_chars_one_byte"]})
    return tables


def classes(ck, binpath, tables):
    """exhaustive comparison (all Unicode scalar values) of the real character-class predicates with the model's tables"""
    rc, out, err = ck.run_bin(binpath, ["classes"], timeout=300)
    if rc != 0:
        ck.tie_broken("harness c37 classes failed", err[-1500:])
        return
    real = json.loads(out.strip().split("\n")[-1])
    pairs = [("util::is_ws", real["is_ws"], tables["is_ws"]),
             ("util::is_blank on one character (char::is_ascii_whitespace)", real["is_blank"], tables["ascii_ws"]),
             ("str::trim_end (char::is_whitespace)", real["trim_end"], tables["unicode_ws"])]
    for name, got, want in pairs:
        if sorted(got) != sorted(want):
            diff = sorted(set(got) ^ set(want))
            ck.tie_broken("character class %s differs from the model's table on %s" % (name, ", ".join("U+%04X" % x for x in diff[:12])),
                          "real: %s\nmodel: %s" % (got[:60], want[:60]))
    if not real.get("is_blank_empty"):
        ck.tie_broken("util::is_blank(\"\") is no longer true", "")
    ck.cov["distribution"]["character_classes"] = {"scalars_compared_per_predicate": 0x110000 - 0x800, "predicates": 3,
                                                   "is_ws": real["is_ws"], "multi_byte_is_ws": [x for x in real["is_ws"] if x > 127]}
    ck.cov["traces_validated_against_impl"] += 3


def correspondence(ck, binpath, n):
    rc, out, err = ck.run_bin(binpath, ["corr", "--seed", ck.seed, "--n", n])
    if rc != 0:
        ck.tie_broken("harness c37 corr failed", err[-2000:])
        return
    cases = [json.loads(l) for l in out.split("\n") if l.strip()]
    terms = [case_to_coq(c) for c in cases]
    failing = ck.coq_failing("corr", terms, ["EV.C37.Model", "EV.C37.Corr"], per_shard=60, timeout=1500)
    dist = {"machine_cases": 0, "machine_steps": 0, "desc_cases": 0, "sort_cases": 0, "desc_lines_outside_description": 0,
            "machine_cases_with_nul": 0, "machine_cases_multibyte": 0, "machine_cases_with_cursor": 0}
    for c in cases:
        if c["k"] == "m":
            dist["machine_cases"] += 1
            dist["machine_steps"] += len(c["steps"])
            dist["machine_cases_with_nul"] += 1 if 0 in c["t"] else 0
            dist["machine_cases_multibyte"] += 1 if any(x > 127 for x in c["t"]) else 0
            dist["machine_cases_with_cursor"] += 1 if c["cursor"] is not None else 0
            ck.count_case(("m", tuple(c["t"]), json.dumps(c["steps"])), nontrivial=len(c["steps"]) > 3 and len(c["t"]) > 0)
        elif c["k"] == "d":
            dist["desc_cases"] += 1
            if c["lines"] != "P":
                for s, ln in c["lines"]:
                    if s < c["hull_lo"] or s + ln > c["desc"][1]:
                        dist["desc_lines_outside_description"] += 1
            ck.count_case(("d", tuple(c["t"]), c["cursor"], tuple(c["desc"])), nontrivial=c["lines"] not in ("P", []))
        else:
            dist["sort_cases"] += 1
            ck.count_case(("s", json.dumps(c["items"])), nontrivial=len(c["items"]) > 1)
    ck.cov["distribution"]["correspondence"] = dist
    if failing:
        for i in failing[:5]:
            c = cases[i]
            what = {"m": "Reader / emit / BacktrackPoint / sort_result op sequence", "d": "desc_to_lines", "s": "sort_result"}[c["k"]]
            ck.tie_broken("model/implementation disagreement on %s" % what, json.dumps(c)[:4000])
    if dist["desc_lines_outside_description"]:
        # desc_lines_in_desc allows only the EMPTY sentinel outside the region; seeing it on real token streams is worth a look
        ck.notes.append("desc_to_lines returned %d line(s) outside the description node on real comments" % dist["desc_lines_outside_description"])
    for c in cases:
        if c["k"] == "m" and len(c["steps"]) > 12 and any(x > 127 for x in c["t"]):
            ck.sample({"kind": "correspondence: reader/emit op sequence", "text": "".join(chr(x) for x in c["t"]), "cursor": c["cursor"],
                       "first_steps": c["steps"][:5], "results": c["results"], "sorted": c["sorted"]})
            break
    for c in cases:
        if c["k"] == "d" and c["lines"] not in ("P", []) and len(c["lines"]) > 1:
            ck.sample({"kind": "correspondence: desc_to_lines", "text": "".join(chr(x) for x in c["t"]), "tokens": c["toks"],
                       "cursor": c["cursor"], "lines": c["lines"]})
            break


def report(ck, v):
    case = {k: v.get(k) for k in ("text", "flavour", "cursor", "desc")}
    case["what"] = v["what"]
    ck.violation(v["signature"], "%s [%s] on %r" % (v["what"], v.get("flavour"), v.get("text")), case)


def search(ck, binpath, n):
    rc, out, err = ck.run_bin(binpath, ["search", "--seed", ck.seed, "--n", n, "--timeout-ms", 15000], timeout=2400)
    if rc != 0:
        ck.tie_broken("harness c37 search failed", (out[-1000:] + err[-2000:]))
        return
    got = False
    for l in out.split("\n"):
        if not l.strip():
            continue
        v = json.loads(l)
        if "summary" in v:
            got = True
            s = v["summary"]
            ck.cov["distribution"]["search"] = s
            ck.add_measured(s["parse_calls"], s["distinct_nontrivial"])
            continue
        report(ck, v)
        if len(ck.cov["samples"]) < 6:
            ck.sample({"kind": "violation", "signature": v["signature"], "text": v.get("text"), "what": v["what"]})
    if not got:
        ck.tie_broken("harness c37 search printed no summary", out[-1000:])


def replay(ck, binpath, path):
    data = json.load(open(path))
    for v in data.get("violations", []):
        c = v["case"]
        args = ["one", "--text-json", json.dumps(c.get("text", ""))]
        if c.get("cursor") is not None:
            args += ["--cursor", c["cursor"]]
        rc, out, err = ck.run_bin(binpath, args, timeout=120)
        for l in out.split("\n"):
            try:
                vv = json.loads(l)
            except ValueError:
                continue
            if "signature" in vv:
                report(ck, vv)


def main(argv):
    ck = Check("C37", argv)
    bins = ck.build_harness("vh_parser", ["c37"])
    if ck.replay and bins:
        replay(ck, bins["c37"], ck.replay)
        ck.finish(trusted_base=TRUSTED)
    tables = translate(ck)
    ok = ck.coq_make(["theories/C37/Props.vo", "theories/C37/Corr.vo"])
    if not ok and tables is not None and any(x > 127 for x in tables["is_ws"]):
        ck.broken[-1]["what"] = ("table obligation is_ws_chars_one_byte fails: util::is_ws accepts the multi-byte character(s) %s, but desc_to_lines "
                                 "counts the common indentation in characters and strips it in bytes" % ", ".join("U+%04X" % x for x in tables["is_ws"] if x > 127))
        # the model (Corr.v does not depend on the proofs) is still needed for the correspondence
        if ck.coq_make(["theories/C37/Corr.vo"]):
            ck.broken = [b for b in ck.broken if b["what"] != "Coq build failed for theories/C37/Corr.vo"]
    if ok:
        ck.coq_gates(["C37"], THEOREMS, "EV.C37.Props")
        for base in ("Text.v", "TextFacts.v"):   # the shared files this development depends on (other Base files belong to other checks)
            hits = section_aware_forbidden(os.path.join(COQ, "theories", "Base", base))
            if hits:
                ck.proof_broken("forbidden vernacular in Base/%s" % base, json.dumps(hits[:5]))
    if not ok:
        ck.cov["obligations"] += len(THEOREMS)
    if bins:
        if tables is not None:
            classes(ck, bins["c37"], tables)
        if ok or os.path.exists(os.path.join(COQ, "theories/C37/Corr.vo")):
            correspondence(ck, bins["c37"], ck.scale(600, 6000))
        if ck.broken:
            ck.deep = True
        search(ck, bins["c37"], ck.scale(60000, 1500000))
    ck.finish(
        trusted_base=TRUSTED,
        rule="search: Lua sources holding one generated comment block (1-10 lines; '---' / '--' / '----' / dashed frames / tag lines / "
             "'#region' / long comments; LF or CRLF; leading indentation per block in one of four styles: ASCII, space/tab/U+3000 on every line, "
             "one exotic blank repeated, any mixture of space, tab, NBSP, U+1680, U+2000-200A, U+2028/2029, U+202F, U+205F, U+3000, U+FEFF, NEL, VT, FF and "
             "multi-byte letters; the same blanks between fragments; fragments from a Markdown+MyST vocabulary, an RST vocabulary, both, or a character "
             "soup; code fences and directives with lua/json/sql/vim/shell/protobuf bodies; multi-byte, astral, combining, NBSP, U+2028 and "
             "NUL characters) x every description node x Md / MyST / RST (random primary_domain / default_role) x cursor None plus random / "
             "after-marker cursors; oracle = no panic, no hang (15 s watchdog), every item inside the description node (extended leftwards "
             "only over the whitespace tail of a '---' token that precedes the node), on character boundaries, starts non-decreasing; "
             "evaluations = parse calls, distinct by source text, non-trivial = at least one item emitted. "
             "correspondence: random op sequences (10-50 ops, up to 12 readers) on texts of <= 18 chars; desc_to_lines on every description "
             "of the corpus and of generated comments; sort_result on item lists with many equal keys",
        assumptions=["texts shorter than 4 GiB (rowan TextSize is u32)",
                     "correspondence and search are sampled (they validate the model and look for replays; the theorems carry the "
                     "all-programs claim for the kernel, not for the grammars)"])
