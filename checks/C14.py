from scoping_common import *

META = {
    "category": "proof",
    "text": 'On the C13 model of the implementation (whose resolution is proved equal to Lua scoping for every program of the C13 fragment): refs_eq_preimage — the cells of a declaration in the reference index are exactly the positions the index resolves to it, with refs_contain_resolved / refs_only_resolved linking them to the reference resolver; the model carries the range of the referring token in every cell (cells_are_tokens: each cell is the range of a name token of the printed program); rename_edits_exact — the edits of a rename are the range of the declaration token and the ranges of its cells, each once, with the new name, nothing else; rename_edits_disjoint — any two different edits have disjoint ranges; rename_preserves_resolution (+ ord_resolver_agrees, rename_preserves_resolution_positional) — alpha-renaming: renaming a declaration that has a token and exactly the uses Lua scoping resolves to it to a fresh name leaves the resolution of every use unchanged, for every program. The model is tied to the code per run (cells of the real reference index with their ranges in order, the WorkspaceEdit of the real rename handler, the edited text = the printed renamed program) and the property is searched on the real handlers: references and rename at every declaration and use of every local, edits applied, the program re-analysed and its resolution structure compared.',
    "note": 'Trusted: Coq kernel; the hand models (C13 declaration walk, C14 reference cells and rename edits) validated by correspondence, not proved equal to the Rust. The references handler additionally follows value aliases (two known findings); doc @param renaming, globals, members and types are outside the model. Axioms: none.',
    "technique": "Coq proofs on the C13 model (invariants of the reference map by induction over the walk; separation of the name tokens of the printed program; alpha-renaming by mutual induction over the syntax) + exact model-vs-implementation correspondence + search through the real rename/references handlers with re-analysis of the edited program",
}

THEOREMS = [
    ("refs_eq_preimage", "theorem"),
    ("refs_contain_resolved", "theorem"),
    ("refs_only_resolved", "theorem"),
    ("rename_edits_exact", "theorem"),
    ("cells_are_tokens", "theorem"),
    ("rename_edits_disjoint", "theorem"),
    ("rename_preserves_resolution", "theorem"),
    ("ord_resolver_agrees", "theorem"),
    ("rename_preserves_resolution_positional", "theorem"),
    ("rename_example", "example"),
]


def main(argv):
    ck = Check("C14", argv)
    bins = ck.build_harness("vh_ls", ["c14"])
    if ck.replay and bins:
        replay14(ck, bins["c14"], ck.replay)
        ck.finish(trusted_base=TRUSTED14)
    ok = ck.coq_make(["theories/C14/Props.vo", "theories/C14/Corr.vo"])
    if ok:
        ck.coq_gates(["C13", "C14"], THEOREMS, "EV.C14.Props")
    if bins:
        if ok or os.path.exists(os.path.join(COQ, "theories/C14/Corr.vo")):
            correspondence14(ck, bins["c14"], ck.scale(250, 1500))
        if ck.broken:
            ck.deep = True
        search14(ck, bins["c14"], ck.scale(4000, 40000))
    ck.finish(
        trusted_base=TRUSTED14,
        rule="programs of the C13 mini-Lua fragment (8 hand-written witnesses, the corpus, seeded random programs over 2-5 names); for "
             "every declaration with a token: references and rename are requested at the declaration and at every use Lua scoping "
             "resolves to it (request points), the edits are applied and the new text re-analysed; non-trivial = the program has a "
             "local declaration and a use resolving to a local; distinct by program text",
        assumptions=["the fragment's names are never `_`, `_G`, `_ENV`; the new name is not used by the program",
                     "implicit self has no token and cannot be renamed (requests on `self` uses are not part of the property)",
                     "correspondence and search are sampled; the theorems carry the all-programs claim"])
