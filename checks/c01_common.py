"""shared by C01 and C04: emmylua_parser kernels (harness vh_parser/c01, models EV.C01.*)"""
import json
import sys
import c01_tables
from vcheck import *

GEN = os.path.join(COQ, "theories", "Gen", "C01_Kinds.v")

TRUSTED = [
    "Coq 8.16.1 kernel (coqc); vm_compute used in Examples, refutation witnesses and in the correspondence evaluation; no native_compute",
    "axioms: none (Print Assumptions: Closed under the global context for every theorem)",
    "hand-written models coq/theories/Base/Reader.v, C01/Model.v, C01/LexModel.v, C01/LuaLexer.v, C01/Pump.v, C01/DocPump.v of crates/emmylua_parser/src/"
    "{text/reader.rs, lexer/lua_lexer.rs, parser/lua_parser.rs, parser/marker.rs, syntax/tree/lua_tree_builder.rs, "
    "syntax/tree/lua_green_builder.rs}; tied by the correspondence check (harness vh_parser/src/bin/c01.rs through hook "
    "emmylua_parser::verif + coq/theories/C01/Corr.v)",
    "modelling assumptions: a &str is the list of its chars; offsets are unbounded N; the builder's arena indices are replaced by the "
    "elements they denote (each index lives in exactly one place); rowan::GreenNodeBuilder builds the tree it is told to build",
    "lib/c01_tables.py (regex translator of kind enums, feature sets, keyword table, trivia/invalid kind lists -> Gen/C01_Kinds.v)",
    "LuaDocLexer (15 states) is NOT transcribed: abstract oracle in C01/DocPump.v, its Reader discipline is checked on traces; the doc grammar is an arbitrary client",
    "search oracle: tree.get_red_root().text() == input and the leaf tokens' ranges tile [0, len) with matching text",
]

THEOREMS = [("builder_yield", "theorem"), ("builder_root_chunk", "theorem"), ("builder_yield_orig_refuted", "refutation"),
            ("lex_tiles", "theorem"), ("mark_level_exact", "theorem"), ("markers_balanced", "theorem"),
            ("pump_emits_all", "theorem"), ("C01_main", "theorem"), ("lua_lexer_contract", "theorem"), ("lua_lex_tiles", "theorem"),
            ("C01_lua", "theorem"), ("doc_pump_tiles", "theorem"), ("doc_obligation_from_pump", "theorem"),
            ("doc_pump_example", "example"), ("builder_example", "example"), ("lexer_example", "example"), ("pump_example", "example")]


def regenerate_tables(ck):
    try:
        t, changed = c01_tables.regenerate(REPO, GEN)
    except c01_tables.TableError as ex:
        ck.tie_broken("table translator lib/c01_tables.py: %s" % ex, "")
        return None
    except Exception as ex:  # unreadable source etc.
        ck.tie_broken("table translator lib/c01_tables.py failed: %r" % ex, "")
        return None
    ck.cov["table_obligations"].append({"table": "Gen/C01_Kinds.v", "digest": t["digest"], "rewritten": changed,
                                        "syntax_kinds": len(t["syntax_kinds"]), "token_kinds": len(t["token_kinds"]),
                                        "levels": [l for l, _ in t["levels"]]})
    return t


def ev_to_coq(e):
    if e[0] == 0:
        return "NodeStart %d %d%%nat" % (e[1], e[2])
    if e[0] == 1:
        return "EatToken %d %d %d" % (e[1], e[2], e[3])
    if e[0] == 2:
        return "NodeEnd"
    return "Trivia"


def bcase_to_coq(events, tree):
    return "{| b_events := %s; b_tree := %s |}" % (coq_list([ev_to_coq(e) for e in events]),
                                                   "None" if tree == "P" else "Some (%s)" % tree)


def tok_to_coq(t):
    return "(%d, (%d, %d))" % (t[0], t[1], t[2])


def dops_to_coq(recs):
    """records of one doc-parser run (between DB and DX) -> list of dop terms"""
    out = []
    i = 0
    while i < len(recs):
        r = recs[i]
        k = r[0]
        if k == "M":
            if i + 1 < len(recs) and recs[i + 1][0] == "P" and recs[i + 1][2] == r[1]:
                i += 1
                continue  # the mark performed inside precede
            out.append("DMark %d" % r[2])
        elif k == "K":
            out.append("DSetKind %d%%nat %d" % (r[1], r[2]))
        elif k == "C":
            out.append("DComplete %d%%nat" % r[1])
        elif k == "E":
            out.append("DRawEnd")
        elif k == "U":
            out.append("DUndo %d%%nat" % r[1])
        elif k == "P":
            out.append("DPrecede %d%%nat %d" % (r[1], r[3]))
        elif k == "DE":
            out.append("DEat %d %d %d" % (r[1], r[2], r[3]))
        elif k in ("PB", "PE", "PD", "PC", "PK", "PL"):
            pass  # primitives of the doc pump: replayed separately (docrun_to_coq)
        else:
            raise ValueError("unexpected record %r inside a doc-parser run" % (r,))
        i += 1
    return coq_list(out)


def doc_runs_of(recs):
    """the doc-parser runs of a recorded trace: list of (group tokens, records between DB and DX)"""
    runs = []
    i = 0
    while i < len(recs):
        if recs[i][0] == "DB":
            k = i + 1
            while k < len(recs) and recs[k][0] != "DX":
                k += 1
            runs.append((recs[i][1], recs[i + 1:k]))
            i = k
        i += 1
    return runs


def dcase_to_coq(toks, recs, eof_kind):
    """one doc-parser run -> dcase term (EV.C01.Corr): primitives, lexer answers, expected output"""
    answers = ["(%d, %d)" % (r[1], r[3]) for r in recs if r[0] == "PL" and not (r[1] == eof_kind and r[3] == 0)]
    ops = []
    first_bump = bool(toks)  # init performs the first bump itself
    i = 0
    while i < len(recs):
        r = recs[i]
        k = r[0]
        if k == "PB":
            if first_bump:
                first_bump = False
            else:
                ops.append("PBump %d" % r[1])
        elif k == "PE":
            ops.append("PEatLex")
        elif k == "PD":
            ops.append("PRecalcDetail")
        elif k == "PC":
            ops.append("PRecalcCast")
        elif k == "PK":
            ops.append("PSetKind %d" % r[1])
        elif k == "M":
            if i + 1 < len(recs) and recs[i + 1][0] == "P" and recs[i + 1][2] == r[1]:
                i += 1
                continue
            ops.append("PMarker (DMark %d)" % r[2])
        elif k == "K":
            ops.append("PMarker (DSetKind %d%%nat %d)" % (r[1], r[2]))
        elif k == "C":
            ops.append("PMarker (DComplete %d%%nat)" % r[1])
        elif k == "E":
            ops.append("PMarker DRawEnd")
        elif k == "U":
            ops.append("PMarker (DUndo %d%%nat)" % r[1])
        elif k == "P":
            ops.append("PMarker (DPrecede %d%%nat %d)" % (r[1], r[3]))
        elif k in ("DE", "PL"):
            pass
        else:
            raise ValueError("unexpected record %r inside a doc-parser run" % (r,))
        i += 1
    return "{| dc_toks := %s; dc_answers := %s; dc_ops := %s; dc_out := %s |}" % (
        coq_list([tok_to_coq(t) for t in toks]), coq_list(answers), coq_list(ops), dops_to_coq(recs))


def ops_to_coq(recs, tokens, trivia_kinds):
    """recorded VerifOp list -> list of op terms of EV.C01.Pump (raw replay form)"""
    out = []
    i = 0
    n = len(recs)

    def doc_runs(j):
        runs = []
        while j < n and recs[j][0] == "DB":
            k = j + 1
            while k < n and recs[k][0] != "DX":
                k += 1
            if k >= n:
                raise ValueError("doc-parser run without end")
            runs.append(dops_to_coq(recs[j + 1:k]))
            j = k + 1
        return runs, j

    while i < n:
        r = recs[i]
        k = r[0]
        if k == "I":
            first_trivia = bool(tokens) and tokens[0][0] in trivia_kinds
            if first_trivia and i + 1 < n and recs[i + 1][0] == "B":
                runs, j = doc_runs(i + 2)
                out.append("OInit %s" % coq_list(runs))
                i = j
                continue
            out.append("OInit []")
        elif k == "B":
            runs, j = doc_runs(i + 1)
            out.append("OBump %s" % coq_list(runs))
            i = j
            continue
        elif k == "T":
            out.append("OSetTokKind %d" % r[1])
        elif k == "M":
            if i + 1 < n and recs[i + 1][0] == "P" and recs[i + 1][2] == r[1]:
                i += 1
                continue
            out.append("OMark %d" % r[2])
        elif k == "K":
            out.append("OSetKind %d%%nat %d" % (r[1], r[2]))
        elif k == "C":
            out.append("OComplete %d%%nat" % r[1])
        elif k == "E":
            out.append("ORawEnd")
        elif k == "U":
            out.append("OUndo %d%%nat" % r[1])
        elif k == "P":
            out.append("OPrecede %d%%nat %d" % (r[1], r[3]))
        else:
            raise ValueError("unexpected record %r" % (r,))
        i += 1
    return coq_list(out)


def pcase_to_coq(c, trivia_kinds):
    return "{| pc_tokens := %s; pc_doc := %s; pc_ops := %s; pc_events := %s; pc_level := %d%%Z |}" % (
        coq_list([tok_to_coq(t) for t in c["tokens"]]), "true" if c["doc"] else "false",
        ops_to_coq(c["ops"], c["tokens"], trivia_kinds), coq_list([ev_to_coq(e) for e in c["events"]]), c["discipline"]["mark_level"])


def coq_reports(ck, name, case_terms, requires, fn, case_type, per_shard=40, timeout=1200):
    """evaluate `fn : case_type -> N` on every case (vm_compute, sharded); returns the list of values or None"""
    n = len(case_terms)
    if n == 0:
        return []
    nshard = min(NCPU, max(1, n // per_shard))
    idxs = [list(range(i, n, nshard)) for i in range(nshard)]
    bodies = []
    for ids in idxs:
        b = "Local Open Scope N_scope.\n"
        b += "Definition cases__ : list (%s) := [\n%s].\n" % (case_type, ";\n".join(case_terms[i] for i in ids))
        b += "Eval vm_compute in (map %s cases__).\n" % fn
        bodies.append(b)
    results = ck.coq_eval_shards(name, bodies, requires, timeout)
    vals = [None] * n
    for (rc, out), ids in zip(results, idxs):
        if rc != 0:
            ck.tie_broken("correspondence evaluation %s did not compile/finish (model or checker broken)" % name, out[-3000:])
            return None
        m = re.search(r"=\s*\[(.*?)\]\s*:\s*list N", out, re.S)
        if not m:
            ck.tie_broken("unparsable correspondence output for %s" % name, out[-1000:])
            return None
        xs = [int(x) for x in re.findall(r"\d+", m.group(1))]
        if len(xs) != len(ids):
            ck.tie_broken("correspondence output for %s has %d values for %d cases" % (name, len(xs), len(ids)), "")
            return None
        for i, x in zip(ids, xs):
            vals[i] = x
    ck.cov["traces_validated_against_impl"] += n
    return vals


def text_of(c):
    return "".join(chr(x) for x in c["t"])


def correspondence(ck, binpath, n_traces, n_events):
    # (1) arbitrary event lists through the real builder vs the model builder
    rc, out, err = ck.run_bin(binpath, ["events", "--seed", ck.seed, "--n", n_events])
    if rc != 0:
        ck.tie_broken("harness c01 events failed", err[-2000:])
        return
    ecases = [json.loads(l) for l in jlines(out) if l.strip()]
    terms = [bcase_to_coq(c["events"], c["tree"]) for c in ecases]
    failing = ck.coq_failing("corr_events", terms, ["EV.C01.Model", "EV.C01.Corr"], check_fn="check_build", case_type="bcase", per_shard=100)
    npanic = 0
    for i, c in enumerate(ecases):
        if c["tree"] == "P":
            npanic += 1
        ck.count_case(("ev", json.dumps(c["events"])), nontrivial=len(c["events"]) > 2)
        if not c["lossless"]:
            ck.violation("builder-loses-text", "LuaTreeBuilder lost token text on an event list: %s" % json.dumps(c["events"])[:300],
                         {"events": c["events"], "tree": c["tree"]})
    for i in (failing or []):
        ck.tie_broken("model/implementation disagreement: LuaTreeBuilder on a generated event list", json.dumps(ecases[i])[:3000])
    ck.cov["distribution"]["corr_random_event_lists"] = len(ecases)
    ck.cov["distribution"]["corr_random_event_lists_where_rust_panics"] = npanic

    # (2) real traces
    rc, out, err = ck.run_bin(binpath, ["corr", "--seed", ck.seed, "--n", n_traces, "--maxlen", 300])
    if rc != 0:
        ck.tie_broken("harness c01 corr failed", err[-2000:])
        return
    cases = [json.loads(l) for l in jlines(out) if l.strip()]
    terms = [bcase_to_coq(c["events"], c["tree"]) for c in cases]
    failing = ck.coq_failing("corr_traces", terms, ["EV.C01.Model", "EV.C01.Corr"], check_fn="check_build", case_type="bcase", per_shard=60)
    for i in (failing or []):
        ck.tie_broken("model/implementation disagreement: tree built from the real event list of %r" % text_of(cases[i]),
                      json.dumps({k: cases[i][k] for k in ("t", "level", "doc", "events", "tree")})[:3000])
    unbalanced = 0
    end_first = 0
    with_err = 0
    for c in cases:
        d = c["discipline"]
        if d["final_depth"] != 0 or d["min_depth"] < 0 or d["mark_level"] != 0:
            unbalanced += 1
            ck.notes.append("real trace with an unbalanced event list (lossless all the same): %r level %d doc %s %s" % (
                text_of(c)[:80], c["level"], c["doc"], d)) if len(ck.notes) < 5 else None
        if d["end_before_token"]:
            end_first += 1
        if c["nerrors"]:
            with_err += 1
        if not c["rebuilt_same"]:
            ck.tie_broken("hook build_from_events does not reproduce the parser's own tree for %r" % text_of(c), "")
        if not c["tree_text_ok"]:
            ck.violation("corr:" + "tree-text", "tree text differs from the input %r (level %d, doc %s)" % (text_of(c), c["level"], c["doc"]),
                         {"text": text_of(c), "level": c["level"], "doc": c["doc"]})
        ck.count_case(("trace", tuple(c["t"]), c["level"], c["doc"]), nontrivial=len(c["events"]) > 3)
    # (2b) the Lua lexer: model token list = real token list (kinds and ranges), per language level
    lterms = ["{| lc_text := %s; lc_level := %d; lc_alpha := %s; lc_alnum := %s; lc_tokens := %s |}" % (
        coq_list([str(x) for x in c["t"]]), c["level"], coq_list([str(x) for x in c.get("alpha", [])]),
        coq_list([str(x) for x in c.get("alnum", [])]), coq_list([tok_to_coq(t) for t in c["tokens"]])) for c in cases]
    failing = ck.coq_failing("corr_lexer", lterms, ["EV.C01.Model", "EV.C01.Corr"], check_fn="check_lex", case_type="lcase", per_shard=60)
    for i in (failing or []):
        ck.tie_broken("model/implementation disagreement: token list of the Lua lexer for %r (level %d)" % (text_of(cases[i]), cases[i]["level"]),
                      json.dumps({k: cases[i][k] for k in ("t", "level", "tokens")})[:3000])
    ck.cov["distribution"]["corr_lexer_texts"] = len(lterms)
    ck.cov["distribution"]["corr_lexer_texts_with_non_ascii"] = sum(1 for c in cases if any(x > 127 for x in c["t"]))

    # (3) the token pump: replay the recorded operation sequence of the real parser through the model pump
    try:
        tables = c01_tables.extract(REPO, check_transcription_anchors=False)
    except c01_tables.TableError as ex:
        ck.tie_broken("table translator lib/c01_tables.py: %s" % ex, "")
        return
    tkidx = {n: i for i, n in enumerate(tables["token_kinds"])}
    trivia = {tkidx[n] for n in tables["pump_trivia"]}
    try:
        pterms = [pcase_to_coq(c, trivia) for c in cases]
    except ValueError as ex:
        ck.tie_broken("recorded operation trace has an unexpected shape: %s" % ex, "")
        pterms = None
    if pterms is not None:
        reps = coq_reports(ck, "corr_pump", pterms, ["EV.C01.Model", "EV.C01.Pump", "EV.C01.Corr"], "pump_report", "pcase", per_shard=40)
        bad_doc = bad_disc = bad_prefix = 0
        for c, r in zip(cases, reps or []):
            where = "%r (level %d, doc %s)" % (text_of(c), c["level"], c["doc"])
            if not r & 1:
                ck.tie_broken("model/implementation disagreement: the model pump, driven by the parser's recorded operations, does not "
                              "reproduce the real event list / mark level for %s" % where, json.dumps(c["ops"])[:3000])
            if not r & 2:
                bad_doc += 1
                if c["tree_text_ok"]:
                    ck.notes.append("doc-parser run did not tile its range, yet the tree text is intact: %s" % where)
            if not r & 4:
                bad_disc += 1
                ck.tie_broken("a real trace violates the client discipline assumed by mark_level_exact / pump_emits_all: %s" % where,
                              json.dumps(c["ops"])[:3000])
            if not r & 8:
                bad_prefix += 1
        # (3b) the doc parser's own pump: replay its recorded primitives over the recorded doc-lexer results
        eof_kind = tkidx["TkEof"]
        dterms, downers = [], []
        try:
            for c in cases:
                if c["doc"]:
                    for toks, recs in doc_runs_of(c["ops"]):
                        dterms.append(dcase_to_coq(toks, recs, eof_kind))
                        downers.append(c)
        except ValueError as ex:
            ck.tie_broken("recorded doc-parser run has an unexpected shape: %s" % ex, "")
            dterms = []
        dreps = coq_reports(ck, "corr_docpump", dterms, ["EV.C01.Model", "EV.C01.Pump", "EV.C01.DocPump", "EV.C01.Corr"],
                            "doc_report", "dcase", per_shard=60) if dterms else []
        nbad = 0
        for c, r in zip(downers, dreps or []):
            where = "%r (level %d)" % (text_of(c), c["level"])
            if not r & 1:
                ck.tie_broken("model/implementation disagreement: the model doc pump, driven by the doc parser's recorded primitives and "
                              "doc-lexer results, does not reproduce what the real doc parser pushed for %s" % where, json.dumps(c["ops"])[:3000])
            elif r != 31:
                nbad += 1
                ck.tie_broken("a real doc-parser run violates a hypothesis of doc_pump_tiles (report bits %d: 2 lexer discipline, 4 client "
                              "discipline, 8 ended at TkEof, 16 non-empty tokens) for %s" % (r, where), json.dumps(c["ops"])[:3000])
        ck.cov["distribution"]["corr_doc_pump_replays"] = len(dreps or [])
        ck.cov["distribution"]["corr_doc_runs_violating_a_hypothesis_of_doc_pump_tiles"] = nbad
        ck.cov["distribution"]["corr_pump_replays"] = len(reps or [])
        ck.cov["distribution"]["corr_traces_doc_parser_not_tiling"] = bad_doc
        ck.cov["distribution"]["corr_traces_violating_client_discipline"] = bad_disc
        ck.cov["distribution"]["corr_traces_with_a_negative_prefix_depth"] = bad_prefix
    ck.cov["distribution"]["corr_real_traces"] = len(cases)
    ck.cov["distribution"]["corr_real_traces_with_syntax_errors"] = with_err
    ck.cov["distribution"]["corr_real_traces_unbalanced_events"] = unbalanced
    ck.cov["distribution"]["corr_real_traces_node_end_before_first_token"] = end_first
    if cases:
        c = cases[min(len(cases) - 1, 40)]
        ck.sample({"kind": "real trace", "text": text_of(c), "level": c["level"], "doc": c["doc"], "events": len(c["events"]),
                   "tree": c["tree"][:200]})
    if ecases:
        c = ecases[min(len(ecases) - 1, 7)]
        ck.sample({"kind": "random event list", "events": c["events"], "rust_tree": c["tree"][:200]})


def search(ck, binpath, n):
    rc, out, err = ck.run_bin(binpath, ["search", "--seed", ck.seed, "--n", n, "--maxlen", 400], timeout=3000)
    if rc != 0:
        ck.tie_broken("harness c01 search failed", err[-2000:])
        return
    for l in jlines(out):
        if not l.strip():
            continue
        v = json.loads(l)
        if "summary" in v:
            ck.cov["distribution"]["search"] = v["summary"]
            ck.add_measured(v["summary"]["parses"], v["summary"]["distinct_nontrivial"])
            continue
        ck.violation(v["signature"], v["what"], {"text": v["text"], "shrunk": v["shrunk"], "level": v["level"], "doc": v["doc"]})
        ck.sample({"kind": "violation", "shrunk": v["shrunk"], "what": v["what"][:300]})


def replay(ck, binpath, path):
    data = json.load(open(path))
    for v in data.get("violations", []):
        case = v.get("case", {})
        for key in ("shrunk", "text"):
            t = case.get(key)
            if t is None:
                continue
            args = ["one", "--text-json", json.dumps(t)]
            rc, out, err = ck.run_bin(binpath, args)
            for l in jlines(out):
                if l.strip():
                    vv = json.loads(l)
                    ck.violation(vv["signature"], vv["what"], {"text": vv["text"], "shrunk": vv["shrunk"], "level": vv["level"], "doc": vv["doc"]})
