"""shared by C20 and C21: the diagnostic tables translator (lib/diag_tables.py -> coq/theories/Gen/C20_Diag.v)"""
import json
from vcheck import *
import diag_tables

TRUSTED_COMMON = [
    "Coq 8.16.1 kernel (coqc); vm_compute used in Examples, in the finite table obligations and in the correspondence evaluation; no native_compute",
    "axioms: none (Print Assumptions: Closed under the global context for every theorem)",
    "translator lib/diag_tables.py (regular-expression extraction of match tables, CODES lists, the order of the tests of "
    "is_checker_enable_by_code and shape anchors for run_check/add_diagnostic/get_severity/diagnose_file/check_name_expr; "
    "fails loudly when a shape changes); validated dynamically: the code-name table against DiagnosticCode::all()/get_name(), "
    "default severity / default enable / chain order / CODES gates through the correspondence",
]


def regenerate_tables(ck):
    """regenerate Gen/C20_Diag.v from /repo; a missing anchor is a broken tie (the stale file stays in place)"""
    try:
        t = diag_tables.regenerate(REPO, COQ)
    except diag_tables.Anchor as e:
        ck.tie_broken("translator anchor missing: the diagnostic tables can no longer be read off the source", str(e))
        return None
    except Exception as e:  # unreadable source etc.
        ck.tie_broken("translator failed", repr(e))
        return None
    gen = os.path.join(COQ, "theories", "Gen", "C20_Diag.v")
    hits = section_aware_forbidden(gen)
    if hits:
        ck.proof_broken("forbidden vernacular in generated file", json.dumps(hits[:5]))
    ck.cov["table_obligations"].append({"file": "coq/theories/Gen/C20_Diag.v", "source_digest": t["sha"], "codes": len(t["codes"]),
                                        "checkers": len(t["checkers"]), "chain_order": t["chain"]})
    return t


def check_names(ck, binpath, t):
    """the implementation's DiagnosticCode::all()/get_name() must be the generated name table"""
    rc, out, err = ck.run_bin(binpath, ["tables"], timeout=120)
    if rc != 0:
        ck.tie_broken("harness tables command failed", err[-2000:])
        return None
    v = json.loads(jlines(out)[0])
    if t is not None:
        want = [t["names"][c] for c in t["codes"]]
        if v["names"] != want:
            diff = [(a, b) for a, b in zip(v["names"], want) if a != b][:5]
            ck.tie_broken("translator's code-name table differs from DiagnosticCode::all()/get_name()", json.dumps({"first_differences": diff, "impl_len": len(v["names"]), "gen_len": len(want)}))
    return v


def coq_code(t, name):
    """Coq constructor of a code given its kebab name"""
    for c in t["codes"]:
        if t["names"][c] == name:
            return "C_" + c
    return None


def coq_name(s):
    return coq_list([str(ord(ch)) for ch in s])
