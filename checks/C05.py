from fmt_common import *

META = {
    "category": "proof",
    "text": 'Printer kernel proved, IR builder checked per run (not proved). Theorems about the Gallina transcription of DocIR and Printer::print for ALL IR values, widths, indent and alignment settings: the text printed is the pushed atom texts with only blanks inserted and only spaces deleted (print_only_adds_blank); for every IR that obeys the line-suffix discipline the non-blank output is the non-blank text of the IR with each IfBreak replaced by one of its branches, in document order (print_preserves_atoms_gen), and equals atoms(IR) when IfBreak branches agree (print_preserves_atoms); printing always terminates with an output (print_total); input with syntax errors is returned unchanged (errors_returned_unchanged). The model is tied to the code by exact byte-for-byte correspondence of model-printed real IRs (hook verif::dump_ir) and generated IRs (verif::print_ir) with the Rust printer, and the client obligations (suffix discipline, IfBreak discipline, atoms(IR) = source text modulo blanks and the configured separators/quotes/parentheses) are evaluated on every real IR. The property itself (format, re-parse, compare tokens and comments; errors unchanged) is searched on generated programs, mutated std files and the bundled std annotations under generated configurations.',
    "note": 'Trusted: Coq kernel; the hand model of the printer (validated by exact correspondence on sampled IRs x configs, not proved equal to the Rust); hook H4 (dump_ir/print_ir). NOT covered by the theorems: the IR builder (formatter/*, ~10 kLoC, a client of the printer) and the comment/doc re-rendering, which flow through Text atoms - defects found there are listed as findings. Axioms: none.',
    "technique": "Coq proof (induction over a depth budget + invariants on the printer state) about a hand-written Gallina transcription + exact model-vs-implementation correspondence on real and generated IRs + oracle search",
}

THEOREMS = [("print_only_adds_blank", "theorem"), ("print_preserves_atoms_gen", "theorem"), ("print_preserves_atoms", "theorem"),
            ("print_total", "theorem"), ("errors_returned_unchanged", "theorem"),
            ("print_preserves_atoms_refuted_without_suffix_ok", "refutation"), ("print_example", "example")]

TRUSTED = [
    "Coq 8.16.1 kernel (coqc), vm_compute used in Examples, refutation witnesses and in the correspondence evaluation; no native_compute",
    "axioms: none (Print Assumptions: Closed under the global context for every theorem)",
    "hand-written model coq/theories/C05/Model.v of crates/emmylua_formatter/src/printer/mod.rs and ir/doc_ir.rs; tied by the correspondence "
    "check (harness vh_fmt/src/bin/c05.rs + coq/theories/C05/Corr.v) on real IRs (hook verif::dump_ir) and generated IRs (verif::print_ir)",
    "hook H4 (crates/emmylua_formatter/src/verif.rs): the s-expression dump resolves SourceNode/SourceToken/SyntaxToken to the text they print",
    "modelling assumptions: a &str is the list of its chars and widths are UTF-8 byte lengths; usize/isize arithmetic is unbounded N/Z (widths < 2^63)",
    "the IR builder (formatter/*) is NOT modelled: its obligations (SuffixOk, IfBreak discipline, atoms(IR) = source text) are checked on every sampled IR, not proved",
    "search oracle: re-parse with emmylua_parser and compare canonical token sequences / comment texts (harness fmtgen::canon)",
]


GUARD_ANCHOR = r"pub fn reformat_lua_code\(.*?let tree = LuaParser::parse\(.*?if tree\.has_syntax_errors\(\) \{\s*return source\.text\.to_string\(\);\s*\}.*?formatter::format_chunk"


def main(argv):
    ck = Check("C05", argv)
    bins = ck.build_harness("vh_fmt", ["c05"])
    if ck.replay and bins:
        fmt_replay(ck, bins["c05"], ck.replay, "C05")
        ck.finish(trusted_base=TRUSTED)
    # the guard the model's [reformat] transcribes: parse, return the text unchanged on syntax errors, only then build the IR
    anchor(ck, FMT_SRC + "/lib.rs", GUARD_ANCHOR, "reformat_lua_code returns the source unchanged when the tree has syntax errors")
    anchor(ck, FMT_SRC + "/printer/mod.rs", r"fn push_newline\(&mut self\).*?trim_end_matches\(' '\)", "Printer::push_newline trims trailing spaces")
    ok = ck.coq_make(["theories/C05/Props.vo", "theories/C05/Corr.vo"])
    if ok:
        ck.coq_gates(["C05"], THEOREMS, "EV.C05.Props")
    if bins:
        if ok or os.path.exists(os.path.join(COQ, "theories/C05/Corr.vo")):
            printer_correspondence(ck, bins["c05"], ck.scale(28, 500), ck.scale(100, 3000), ck.scale(24000, 150000))
        if ck.broken:
            ck.deep = True
        fmt_search(ck, bins["c05"], "C05", ck.scale(600, 12000))
    ck.finish(
        trusted_base=TRUSTED,
        rule="correspondence: real IRs dumped from the IR builder for generated programs (statements, expressions, tables, calls, closures, "
             "strings, comments, doc tags), mutated windows of the bundled std files, std windows x generated configurations, and generated "
             "IRs over all 12 DocIR constructors x generated printer settings (width 0..120, tab/space, indent 0..8, LF/CRLF, comment padding); "
             "non-trivial = IR longer than 40 characters; distinct by (IR, printer settings). search: corpus witnesses, the 20 bundled std files "
             "(default and generated configurations), mutated std files, generated programs, at least half of the cases under the default configuration; a violation is identified by the minimal set of non-default options that reproduces it (delta debugging of the configuration) or, under the default configuration, by its class and the construct at the failing position; distinct by (text, configuration); a case is "
             "non-trivial when the text is longer than 20 bytes",
        assumptions=["widths and columns below 2^63 (Rust isize)", "correspondence and search are sampled (they validate the model and look for replays; the theorems carry the all-IR claim for the printer)",
                     "the IR builder is checked per run, not proved: its defects appear as search violations / known findings"])
